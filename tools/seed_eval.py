#!/venv/bin/python
"""tools/seed_eval.py <seed_out/n dir> <name> <PROP> [--checks C15,C05,...] [--tier quick] [--skip-baseline]

Confirm a seeded bug independently and run checks against it:
  1. fresh scratch worktree of /repo HEAD (outside /repo and /verif); demo.py must PASS (exit 0) there;
  2. apply patch.diff; demo.py must FAIL (exit != 0);
  3. pinned baseline suite on the patched worktree must have 0 regressed stable_pass tests;
  4. run the named checks with VERIF_REPO=<patched worktree>; record exit codes and first violation signatures.
Results are written to /verif/seeded/<name>/ (patch.diff, demo.py, meta.json); the worktree is removed.
"""
import argparse, json, os, shutil, subprocess, sys, tempfile, time

V = os.path.dirname(os.path.dirname(os.path.abspath(__file__)))


def sh(cmd, **kw):
    return subprocess.run(cmd, shell=True, capture_output=True, text=True, **kw)


def main():
    ap = argparse.ArgumentParser()
    ap.add_argument("src")
    ap.add_argument("name")
    ap.add_argument("prop")
    ap.add_argument("--checks", default=None)
    ap.add_argument("--tier", default="quick")
    ap.add_argument("--skip-baseline", action="store_true")
    ap.add_argument("--workers", default="8")
    a = ap.parse_args()
    checks = (a.checks or a.prop).split(",")
    wt = tempfile.mkdtemp(prefix="seedeval_", dir="/tmp")
    os.rmdir(wt)
    res = {"property": a.prop, "name": a.name, "source": a.src, "ran": time.strftime("%Y-%m-%d %H:%M:%S"), "checks": {}}
    try:
        r = sh(f"git -C /repo worktree add -q --detach {wt} HEAD")
        assert r.returncode == 0, r.stderr
        res["repo_head"] = sh("git -C /repo log --format=%h -1").stdout.strip()
        home = os.path.join(wt, "home")
        os.makedirs(home)
        demo = os.path.join(a.src, "demo.py")
        env = dict(os.environ, PYTHONPATH=os.path.join(wt, "src"), HOME=home)
        r0 = subprocess.run(["/venv/bin/python", "-W", "ignore", demo], cwd=wt, env=env, capture_output=True, text=True, timeout=1800)
        res["demo_unpatched_rc"] = r0.returncode
        rp = sh(f"git -C {wt} apply {os.path.join(a.src, 'patch.diff')}")
        res["patch_applies"] = rp.returncode == 0
        if rp.returncode != 0:
            res["patch_error"] = rp.stderr[-500:]
        else:
            r1 = subprocess.run(["/venv/bin/python", "-W", "ignore", demo], cwd=wt, env=env, capture_output=True, text=True, timeout=1800)
            res["demo_patched_rc"] = r1.returncode
            res["demo_patched_tail"] = (r1.stdout + r1.stderr)[-300:]
            if not a.skip_baseline:
                rb = sh(f"{V}/tools/seed_baseline.sh {wt}")
                line = [l for l in rb.stdout.splitlines() if l.startswith("baseline:")]
                res["baseline"] = line[0] if line else rb.stdout[-300:]
                res["baseline_ok"] = rb.returncode == 0
            for c in checks:
                t0 = time.time()
                rc = subprocess.run([os.path.join(V, "check"), c, "--tier", a.tier], cwd=V,
                                    env=dict(os.environ, VERIF_REPO=wt, VERIF_WORKERS=a.workers), capture_output=True, text=True)
                sigs = [l[len("violation: "):][:160] for l in rc.stdout.splitlines() if l.startswith("violation: ")]
                res["checks"][c] = {"rc": rc.returncode, "wall_s": round(time.time() - t0, 1), "signatures": sigs[:6],
                                    "tail": rc.stdout.strip().splitlines()[-1][:200] if rc.stdout.strip() else rc.stderr[-300:]}
                # replay files written by a mutant run are not evidence of the unchanged tree: remove them
                for l in rc.stdout.splitlines():
                    if l.startswith("VIOLATION") and "replay=" in l:
                        p = os.path.join(V, l.split("replay=")[1].strip())
                        if os.path.exists(p) and "/replays/" in p:
                            os.remove(p)
        confirmed = (res.get("demo_unpatched_rc") == 0 and res.get("demo_patched_rc") not in (0, None)
                     and (a.skip_baseline or res.get("baseline_ok")))
        res["confirmed"] = bool(confirmed)
        res["caught_by"] = [c for c, v in res["checks"].items() if v["rc"] == 1]
        out = os.path.join(V, "seeded", a.name)
        os.makedirs(out, exist_ok=True)
        shutil.copy(os.path.join(a.src, "patch.diff"), out)
        shutil.copy(demo, out)
        meta = {}
        mp = os.path.join(a.src, "meta.json")
        if os.path.exists(mp):
            try:
                meta = json.load(open(mp))
            except Exception:
                meta = {"raw": open(mp).read()[:2000]}
        meta["verification"] = res
        json.dump(meta, open(os.path.join(out, "meta.json"), "w"), indent=1)
        print(json.dumps({k: res[k] for k in ("confirmed", "caught_by", "demo_unpatched_rc", "demo_patched_rc") if k in res}
                         | {"baseline": res.get("baseline"), "checks": {c: (v["rc"], v["signatures"][:2]) for c, v in res["checks"].items()}}, indent=1))
    finally:
        sh(f"git -C /repo worktree remove --force {wt}")
        shutil.rmtree(wt, ignore_errors=True)
    # runs with VERIF_REPO write their evidence and replays under .work/alt-tree/, never into evidence/


if __name__ == "__main__":
    main()
