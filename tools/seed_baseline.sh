#!/bin/bash
# seed_baseline.sh <worktree>  — run the pinned baseline suite against a scratch worktree of the repository
# (its own src/ first on PYTHONPATH) and compare with the stable_pass list. Exit 0 iff no stable_pass test regressed.
WT="$(readlink -f "$1")"
OUT="$(mktemp -d /tmp/seedbase.XXXXXX)"
cd "$WT" || exit 2
mkdir -p "$OUT/home"; HOME="$OUT/home" PYTHONPATH="$WT/src" /venv/bin/python -m pytest -ra -q -p no:cacheprovider --timeout=900 --continue-on-collection-errors --junitxml="$OUT/junit.xml" >"$OUT/log" 2>&1
/venv/bin/python - "$OUT/junit.xml" <<'P'
import json, sys, xml.etree.ElementTree as ET
base = set(json.load(open('/root/.vp/BASELINE.json'))['stable_pass'])
t = ET.parse(sys.argv[1]).getroot()
passed = set()
for tc in t.iter('testcase'):
    name = f"{tc.get('classname')}::{tc.get('name')}"
    if not any(c.tag in ('failure', 'error', 'skipped') for c in tc):
        passed.add(name)
missing = sorted(base - passed)
print(f"baseline: {len(base & passed)}/{len(base)} stable_pass tests pass; {len(missing)} regressed")
for m in missing[:30]:
    print("  REGRESSED", m)
sys.exit(1 if missing else 0)
P
rc=$?
grep -c "primaite" "$OUT/log" >/dev/null; tail -2 "$OUT/log"
rm -rf "$OUT"
exit $rc
