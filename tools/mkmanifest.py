#!/venv/bin/python
"""Regenerate MANIFEST.json from the table below (one entry per built check)."""
import json
import os

VERIF = os.path.dirname(os.path.dirname(os.path.abspath(__file__)))

CHECKS = {
    # id: (technique, level text, level note)
    "C01": (
        "PBT over (scenario, action/reset sequence): step/reset contract invariants after every call",
        "Generated and shipped scenarios are wrapped in PrimaiteGymEnv and driven with generated sequences of steps over the "
        "whole action space (ignoring the mask, incl. missing/powered-off targets), seeded and unseeded resets and up to 3 "
        "steps past truncation; after every call the 5-tuple contract, tick count, per-agent history length/timestep/"
        "status, info['agent_actions'] and the post-reset zero state are asserted; any exception is a violation. 'Long' "
        "cases put 26-45 consecutive idle steps after a prefix biased to logins (inactivity time-outs, scheduled "
        "attackers); episode-scheduled folders are driven past one lap of their schedule. "
        "Exploration: sampled scenarios and histories.",
        "Scenario families are LAN/ROUTED/DMZ with <=6 hosts; shipped files with exactly one proxy agent; malformed "
        "shipped files are deny-listed with reasons in vlib/envdrive.py.",
    ),
    "C02": (
        "PBT over (observation config, history) + bounded-exhaustive synthetic states per observation class: gymnasium "
        "Space.contains on every observation, space equality across episodes",
        "Same driver as C01 with observation configurations generated along every axis; after every reset/step the nested "
        "observation is located leaf-by-leaf in the nested space (first offending leaf is the signature), the returned "
        "observation is checked against env.observation_space (flattened or not) and spaces are compared between episodes. "
        "Component layer (vlib/checks/c02_components.py): each of the 15 observation classes is built from its ConfigSchema "
        "and fed mutations of a real describe_state() - every member of every simulator enum x config flags x threshold sets, "
        "counts from 0 past the top threshold, traffic/load to 10x nominal, absent components, all power-state "
        "combinations (25k cases enumerated) plus Hypothesis-generated numeric leaves and biased real histories (big FTP "
        "transfers, DoS bursts, many file creations, session cap). Exploration with an exhaustive finite part.",
        "gymnasium's contains/flatten are trusted; reachable counts are limited by what the generated histories produce "
        "(the component layer adds synthetic states).",
    ),
    "C03": (
        "differential PBT across interpreter processes: same (scenario, seed, actions) under different PYTHONHASHSEED, "
        "entropy stream, clock and logging; re-seeded episode pairs",
        "Each generated case (shipped stochastic scenarios incl. nmap red agents and UC7 threat actors, and generated families with "
        "probabilistic/periodic agents) is executed by vlib/traj_worker.py in separate interpreters that differ in "
        "PYTHONHASHSEED, in the harness-owned entropy (uuid4, MAC/ICMP identifier bits, payload tokens), in the clock "
        "(origin, whole-second stamps) and in logging (all on at DEBUG vs off); per-step digests of observation, reward and "
        "every agent's action/parameters/status/response data must be identical, and within a run the two episodes started "
        "by reset(seed=s) must be identical; the action mask of a masking-enabled agent is part of the digest and one variant "
        "runs its batch of cases in reverse order (process history). Frame-size sub-check: scenarios whose links carry a few "
        "frames per step under variants that differ in exactly one source of opaque values (clock origin/step, identifier "
        "digits, whole-second stamps); the clock-only variant must agree down to the normalised simulation state. "
        "Multibot cases (three or four self-starting repeating dos-bots with different trial odds, ten seeded episodes) make "
        "the order in which nodes are visited decide who gets which draw; the configured seed coincides with the reset seed "
        "in a third of the cases. Exploration over sampled seeds and hash seeds.",
        "Only what the property lists (observations, rewards, histories) is compared, after replacing uuids/MACs/timestamps "
        "by first-appearance labels; hash seeds are 3 (quick) / 5 (thorough) fixed values.",
    ),
    "C04": (
        "differential PBT: used-then-reset env vs fresh env; reset vs construction; solo vs interleaved instances; "
        "object-identity disjointness",
        "(a) a dirty history H followed by reset(seed=s) and actions A is compared step by step (trajectory + normalised "
        "state hash) with a fresh environment doing reset(seed=s), A, and no SimComponent/agent/manager of the old game may "
        "be reachable from the new one; (b) a newly constructed environment is compared with the same configuration after "
        "reset(seed=s) (power states, first observation, trajectory); (c) instance X's trajectory alone is compared with "
        "X interleaved with construct/step/reset/close calls on an instance Y with different options, the shared global "
        "RNGs and harness entropy being saved/restored around Y's calls; (d) reset vs construction with the constructed "
        "environment being the first of a fresh interpreter; (e) episode k of a used episode-scheduled folder vs a fresh "
        "environment built from episode k's composed scenario; (f) the same (scenario, reset(seed), actions) in a pristine "
        "child interpreter vs in the worker process after another environment with different process-wide options was "
        "built and used. Action masks are part of every compared trajectory; reset seed 0 gets a fifth of the draws. "
        "Exploration.",
        "Global Python/NumPy RNG sharing is by design and equalised by the harness; entropy is restarted at the same "
        "logical point in both runs of each differential.",
    ),
    "C05": (
        "PBT over request paths x path mutations x action-formed requests at generated states; observe-only tracer of "
        "RequestManager return points; whole-state before/after differential",
        "At states reached by generated action prefixes, every probe (a live request path with templated arguments, a "
        "mutation of it by a missing/misspelt/other-kind element or a cut, or a request formed by an action class) is applied "
        "through Simulation.apply_request; the tracer classifies the return point (key-miss / validator refusal / leaf); "
        "the oracle requires a documented status and no exception, unreachable for key-miss, failure+reason for a "
        "validator refusal, an unchanged normalised describe_state() for everything stopped before a leaf, and no "
        "key-miss for action requests whose parameters name existing components. Every rule on a probe's path is also judged "
        "from the raw state of the component it guards (reqtrace.truth_run): a rule that is not satisfied must stop the "
        "request; an action's request must name the node its parameters name; actions naming components that do not exist "
        "are never answered success. States include software uninstalled, declared-OFF nodes powered on, a folder with "
        "files deleted. Exploration.",
        "describe_state() is taken as the observable state; leaf argument arity is kept valid (unknown leaf templates are "
        "counted, not reported); validators are evaluated a second time by the tracer and assumed pure.",
    ),
    "C11": (
        "PBT over masking scenarios x histories through transitional states: mask vs independent dry-run over the live "
        "request tree for every action-map entry; executed entry vs traced return point",
        "Before every step and after every reset, env.action_masks() is compared entry by entry with a harness walk of the "
        "formed request over the live request tree (all keys exist and every validator on the path accepts, evaluated "
        "without check_valid); for the executed action the mask taken at the moment the request is applied is compared "
        "with the traced return point and the response status (masked => not success; allowed => not stopped by a "
        "key-miss or validator). A second walk judges every rule on the path from the raw state of the component it guards "
        "(power state, service/application operating_state vs the rule's target, interface enabled flag, live file/folder "
        "sets) without calling any validator; the mask must agree with that verdict too. Exploration.",
        "The 13 permission-rule classes of the repository have a raw-state reference; a rule class without one falls back "
        "to the validator and is listed in the evidence; blue's mask is re-read inside apply_agent_actions via a "
        "class-level wrapper.",
    ),
    "C15": (
        "stateful PBT: generated file-system request/action sequences vs structural invariants + name model; "
        "bounded-exhaustive over a 14-symbol alphabet",
        "Generated operation sequences (Hypothesis, depth <= 40) and every sequence to depth 3 (quick) / 4 (thorough) over a "
        "14-symbol alphabet are applied to a real host's file system through the request tree and the agent actions' "
        "form_request; after every operation the live/deleted partition, name uniqueness, describe_state agreement and "
        "tick-start counters are asserted and unambiguous effects are compared with a name model; every file/folder object "
        "ever seen must stay in exactly one of its container's two sets, a live file is available to actions and nothing "
        "addressed into a non-live folder succeeds. Exploration: it "
        "refutes, it cannot show absence beyond the enumerated depth.",
        "Trusts Hypothesis generation and the harness's reading of Folder.files/deleted_files; names are drawn from a "
        "pool of 3 folders x 3 files; one host.",
    ),
    "C06": (
        "three-run differential PBT (attack vs idle vs unblocked control) on generated topologies x complete blocks x attack "
        "schedules, plus a per-frame denied-frame monitor",
        "For generated LAN/routed/DMZ topologies a complete block is placed on the cut between attacker and victim (10 ACL rule "
        "shapes on routers and on each firewall list, disabled NIC/port, absent link, powered-off device; from the file, by "
        "request, or after an unblocked prefix) and a generated attack schedule runs on the attacker; the victim's normalised "
        "state plus ARP cache, sessions, connections and counters must equal those of a run in which the attacker idles, at "
        "every step; wrappers check that a frame a router/firewall ACL denied is never sent on or handed to its own software; "
        "a control run without the block shows the attack is effective (vacuity guard). Exploration over 46 strata.",
        "Topologies are trees of <=3 routing devices; harness entropy and RNG are pinned identically in the three runs; "
        "exceptions inside an attack op end the case (they belong to C01/C05).",
    ),
    "C10": (
        "exhaustive enumeration of reward-sharing digraphs x declaration orders (load-time) + PBT over reward configs and "
        "histories with recorded component values (run-time) + declaration-order metamorphic relation",
        "Load-time: every sharing digraph incl. self-loops on <=3 agents under every declaration order (quick), all 4096 "
        "loop-free digraphs on 4 agents under 8 orders each and with one self-loop (thorough): from_config raises iff an "
        "independent closure test says cyclic, otherwise the evaluation order puts dependencies first. Run-time: generated "
        "reward configurations over all 7 shipped component types; observe-only wrappers record each component's value; per "
        "step current_reward == sum(w*v), shared rewards equal the target's same-step reward, totals equal the sum of history "
        "rewards, env.step returns the RL agent's current reward, a sticky reference model for the three sticky components, and "
        "permuting the declaration order of non-interacting agents leaves reward sequences unchanged. Exploration with an "
        "exhaustive finite part.",
        "Probabilistic agents' RNG is replaced by a scripted choice (any sequence is a possible draw); relative tolerance 1e-9.",
    ),
    "C16": (
        "model-based stateful PBT: account/login/remote-command/time-out/power sequences vs a reference session model; "
        "bounded-exhaustive over a reduced alphabet",
        "2-3 hosts; every sequence to depth 3 (quick) / 4 (thorough) over a 15/18-symbol alphabet after four prefixes, and "
        "Hypothesis sequences to depth 30, all formed by the agent actions' form_request. A reference model of accounts and "
        "remote sessions (limit 3, inactivity time-out 3-5) decides which logins must succeed/fail and which sessions are "
        "open after every op and tick; a remote command's EFFECT (a uniquely named folder on the target) must occur only on "
        "a live session - never after logout, time-out or password change; an enabled admin always remains. Exploration with "
        "an exhaustive finite part.",
        "Power and terminal state are read, not modelled; exactly-T-steps-old sessions may be open or closed (docs leave the "
        "convention open).",
    ),
    "C17": (
        "model-based stateful PBT: connect/query/backup/restore/lifecycle/block sequences vs a reference database model; "
        "bounded-exhaustive over a reduced alphabet",
        "Client host(s), database server and FTP backup host (one LAN or routed with an ACL), max_sessions 1/2/3/100. All "
        "sequences of depth 3 over a 14/25-symbol alphabet after 2-3 preludes plus Hypothesis sequences to depth 30. The model "
        "(password, open connection ids, file health, health at backup time, path blocks) decides: connect succeeds iff right "
        "password, service running, node on, path open and room; a query runs iff its connection id is issued and open "
        "(live, cloned and never-issued handles are tried); DELETE => COMPROMISED, ENCRYPT => CORRUPT, SELECT on compromised "
        "data fails; restoring a good backup gives GOOD; while stopped/off/blocked nothing succeeds and the server's "
        "normalised state does not change. Exploration with an exhaustive finite part.",
        "Lifecycle/power/health-flag state machines are read from the simulation (C12-C14 own them); wide links keep C18 out.",
    ),
    "C20": (
        "differential PBT: independent inventory derived from the scenario dict vs inventory read from the built object graph "
        "(both directions); re-serialised YAML (shuffled mapping keys, style) vs original: state and trajectory equality",
        "All 31 loadable shipped scenarios, every episode of the three schedule folders, and generated scenarios with a "
        "291-entry alphabet of single documented-key edits (+67 combinations) are loaded; vlib/ref_config.py derives the expected "
        "nodes, interfaces, links/bandwidths, routes, ACL rules at positions, software and options (one instance per name), "
        "users, folders/files, defaults-block effects and agents from the dict alone and compares them with what "
        "vlib/c20_read.py reads from the PrimaiteGame objects; the same scenario written with permuted mapping keys / other "
        "YAML styles must give the same normalised initial state and the same seeded trajectory. Exploration; exhaustive "
        "over shipped files.",
        "Expected inventory follows docs/source/configuration and, where docs are silent, the keys the shipped files use; "
        "the undocumented defaults block is read as 'applies where an item has no value of its own'.",
    ),
    "C07": (
        "differential against an independent 30-line reference packet filter; bounded-exhaustive single- and two-rule lists x "
        "packet domain, Hypothesis rule lists to capacity; three front doors",
        "Nine lists (router acl, the firewall's six, two stand-alone lists with either implicit action) are populated through the "
        "Python API, through the requests formed by the router-/firewall-acl-add/remove-rule actions, and through scenario "
        "loading; after every add/remove/load describe_state is read back and compared position by position with "
        "vlib/c07_ref.py; every probe compares is_permitted's verdict, the deciding rule and ALL hit counters (incl. the "
        "implicit rule's). All single-rule lists over the covering field domain x all 304 covering packets and all ordered "
        "two-rule lists over a reduced domain are enumerated; Hypothesis adds overlapping/shadowing lists of up to 24 rules. "
        "Exploration with an exhaustive finite part.",
        "The reference is written from the statement alone; port 0 (NONE) is a separately labelled sub-domain in which the "
        "read-back decides whether the field counts as specified (three documented-ish readings, none asserted).",
    ),
    "C08": (
        "bounded-exhaustive route tables vs an integer-arithmetic LPM validity predicate; generated topologies vs a reference "
        "reachability walk; addressee and TTL/termination monitors",
        "Every ordered table of <=3 (quick) / <=4 (thorough) routes over covering prefixes and metrics, with/without default "
        "route, x 9 destinations: find_best_route's answer must be one of the reference's tied best entries. Generated "
        "lan/routed/dmz/wifi/loop/ring topologies with permissive ACLs: every ordered host pair pings and does a DNS exchange, "
        "cold and warm ARP, before/after generated interface and power toggles; success must equal an independent walk over the "
        "scenario description (hosts: on-link or gateway; routers: LPM next hop). Observe-only wrappers check that a unicast "
        "payload reaches software only on the node owning the destination IP, TTL strictly decreases per routing hop, TTL<1 is "
        "never processed, and every operation ends within a frame bound (default-route loops are generated). Exploration with "
        "an exhaustive finite part.",
        "The walk reads 'node is ON' and 'interface enabled' from the simulator (C12 owns the power FSM); where two readings of "
        "'default route as last resort' differ nothing is asserted.",
    ),
    "C09": (
        "PBT over (observation config, all-agent histories) against an independent observation reader (scenario dict + "
        "simulator objects)",
        "vlib/ref_obs.py interprets the blue agent's observation_space from the scenario dict and reads every quantity from the "
        "simulator objects (never describe_state / ObservationManager): power state, NIC status, software operating state and "
        "visible-vs-actual health per *_requires_scan flag, file/folder health, execution/access/creation counts with the "
        "documented threshold bins, NMNE deltas, traffic and link-load bands, ACL rows, sessions, ports; slot i <-> i-th "
        "configured item, everything of a non-ON or missing component reads default. Compared leaf by leaf with the nested "
        "observation after every reset/step of steered generated scenarios and shipped ones. Exploration.",
        "Encodings the docs do not state (operating-state codes, caps) are taken from the documented notebook tables / code "
        "as given; where docs leave a reading open both are accepted.",
    ),
    "C12": (
        "model-based PBT against a reference power FSM with a convention-robust timing oracle and a gating battery; "
        "bounded-exhaustive op sequences x node types x durations",
        "For computer/server/switch/router/firewall/wireless-router subjects with start-up/shut-down durations 0-4: every "
        "depth-3 (quick) / depth-4 (thorough) sequence over {shutdown,startup,reset,tick,service request,file request,ping,ARP} "
        "containing a shutdown/reset, and Hypothesis sequences to depth 25. After every op the reference FSM must match, "
        "T(d) in {d,d+1}, T(0)=0, T(d+1)-T(d)=1 and T equals an interference-free baseline; while not ON every interface is "
        "disabled, no frame is accepted or emitted (observe-only wrappers, incl. frames handed directly to receive_frame), "
        "software cannot act, ~12 well-formed requests do not succeed, ping/ARP to and through the node fail; OFF means "
        "nothing running; back ON restores interfaces, services and applications. Exploration with an exhaustive finite part.",
        "Status of a refused request may be failure or unreachable; services stopped by the sequence itself are C13's business.",
    ),
    "C13": (
        "model-based PBT against reference service/application lifecycle FSMs; port/payload/registry consequence checks; "
        "bounded-exhaustive sequences for 6 software types, sweeps over all shipped types",
        "Software under test is pre-installed, declared, declared-again or absent on a two-host LAN. All sequences to depth 3/4 "
        "for three services and three applications, a sweep of every shipped type x every non-running state x port-listener mode "
        "followed by a peer payload, restart-duration sweeps, and Hypothesis sequences to length 30 for all 21 types. A request "
        "succeeds iff the documented source state holds and the node is ON, a refused request changes nothing, timed "
        "transitions obey the convention-robust band/slope; after every op open ports == ports of RUNNING software, "
        "non-running software handles no payload, and software_manager.software / node.services+applications / request routes / "
        "describe_state agree (one instance per name). Exploration with an exhaustive finite part.",
        "Source-state table from docs/source/action_masking.rst; execute is 'run then act' so a failing execute is not a refusal.",
    ),
    "C14": (
        "shadow-record PBT: per-item record of the last completed covering scan and pending timed operations vs (actual, visible) "
        "health after every step; duration sweeps incl. 0",
        "Durations {0,1,2,3,5} are set through the documented keys (fixing_duration option, defaults block, node_scan_duration); "
        "sequences to depth 30 over compromise/corrupt/DELETE/ENCRYPT, scans of software/files/folders/node, fix/repair/restore/"
        "delete, ticks and power events, plus an enumerated family (every timed op x every duration x one interfering event at "
        "every position). Visible health may change only when a covering scan completes and then equals the true health; true "
        "health changes only at addressed requests or expected timed completions; fix/scan/restore complete at T in {d,d+1} "
        "with a constant offset per kind, d=0 within one tick. Exploration.",
        "Timing is suspended for operations interrupted by a power event (undocumented); the visibility invariant is not.",
    ),
    "C19": (
        "PBT over scripted-agent settings x seeds x blue interference; history-based schedule/gap/start-node/action-set oracle and "
        "kill-chain stage-order oracle",
        "Periodic, database-corrupting, probabilistic and random agents on a small routed network and the shipped UC7 "
        "scenarios with mutated tap-001/tap-003 settings are run for 2-3 episodes under generated blue interference. From "
        "agent.history and the kill-chain stage sampled after every step: nothing before start-variance, first action inside "
        "the start window, gaps within frequency+-variance, count <= max_executions, constant start node from the configured "
        "list, only the configured action; probability-0 actions/stages never taken, probability-1 always; stages advance by "
        "single increments, FAILED from anywhere, SUCCEEDED only after the last stage, repeat flags honoured. Exploration.",
        "Seeds are sampled; TAP scenarios are the two shipped UC7 files.",
    ),
    "C18": (
        "PBT over topologies x link bandwidths x traffic patterns with an independent per-tick per-link accounting monitor",
        "Generated LAN/two-switch/routed/wireless topologies with bandwidths from {default, huge, k x one frame} carry generated "
        "traffic within a tick (pings whose reply is nested in the request's delivery, ARP floods, FTP transfers, DoS bursts, "
        "database queries, NIC toggles); observe-only class-level wrappers account every frame that crosses each link / "
        "wireless channel per tick independently of Link.current_load; after every delivery and at the end of every step "
        "both the independent sum and the simulator's load must stay <= bandwidth, be 0 right after pre_timestep, "
        "deliveries need both end interfaces enabled, and a frame refused for capacity reaches nobody. Exploration.",
        "Frame sizes are deterministic because the harness owns uuid/clock/secrets; the wrappers are observe-only; "
        "wireless_nic/wireless_access_point modules cannot be imported on this tree and are not wrapped.",
    ),
}

NOT_BUILT_REASON = "not claimed"


def main():
    props = [json.loads(l) for l in open(os.path.join(VERIF, "properties.jsonl"))]
    checks = []
    na = []
    for p in props:
        pid = p["id"]
        if pid in CHECKS:
            tech, text, note = CHECKS[pid]
            checks.append(
                {
                    "property_id": pid,
                    "quick_cmd": f"./check {pid} --tier quick",
                    "thorough_cmd": f"./check {pid} --tier thorough",
                    "evidence_file": f"evidence/{pid}.json",
                    "replay_cmd_template": f"./check {pid} --replay {{path}}",
                    "engine": "vlib",
                    "level_claimed": {"category": "exploration", "text": text, "design_ref": f"DESIGN.md §{pid}"},
                    "level_note": note,
                    "technique": tech,
                }
            )
        else:
            na.append({"property_id": pid, "reason": NOT_BUILT_REASON})
    man = {
        "version": 1,
        "setup_cmd": "./setup.sh",
        "hooks": {
            "guard": "PRIMAITE_VERIF",
            "enable": "no source hooks: all monitors are run-time wrappers installed by the check process (DESIGN.md §1.2)",
            "baseline_off_cmd": "cd /repo && /venv/bin/python -m pytest -ra -q -p no:cacheprovider --timeout=900 "
            "--continue-on-collection-errors",
            "source_commits": [],
            "add_only": True,
        },
        "engines": [
            {
                "name": "vlib",
                "path": "vlib/",
                "serves_properties": sorted(CHECKS),
                "kind_free_text": "Hypothesis-driven property-based testing in collect mode (16 forked workers), "
                "bounded-exhaustive enumeration of finite sub-domains, ddmin shrinking, replay files",
            }
        ],
        "checks": checks,
        "not_applicable": na,
        "notes": "Every check: ./check <ID> --tier quick|thorough; exit 0 held, 1 + VIOLATION line, 2 harness error. "
        "known_findings.json lists genuine defects (fixed ones are replayed as regressions and suppress nothing).",
    }
    with open(os.path.join(VERIF, "MANIFEST.json"), "w") as f:
        json.dump(man, f, indent=1)
    print(f"MANIFEST.json: {len(checks)} checks, {len(na)} not_applicable")


if __name__ == "__main__":
    main()
