#!/bin/bash
# tools/mutant.sh <patch.diff> <ID> [tier]  — apply a patch to a scratch copy of /repo/src, run the check against it, clean up.
# Prints the check's last lines and "MUTANT <patch> <ID>: rc=<n>". The patch is relative to the repo root (git diff format).
PATCH="$(readlink -f "$1")"; ID="$2"; TIER="${3:-quick}"
S="$(mktemp -d /tmp/mut.XXXXXX)"
trap 'rm -rf "$S"' EXIT
mkdir -p "$S/repo"
cp -r /repo/src "$S/repo/src"
find "$S/repo/src" -name __pycache__ -type d -exec rm -rf {} + 2>/dev/null
( cd "$S/repo" && patch -p1 -s < "$PATCH" ) || { echo "MUTANT $1 $ID: patch failed"; exit 3; }
cd /verif && VERIF_REPO="$S/repo" ./check "$ID" --tier "$TIER" > "$S/out" 2>&1
rc=$?
grep -E "^(violation|VIOLATION|KNOWN|harness)" "$S/out" | head -8
tail -1 "$S/out"
echo "MUTANT $(basename "$1") $ID: rc=$rc"
