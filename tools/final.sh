#!/bin/bash
# tools/final.sh [seed] — run every quick check on the current tree (rewrites evidence/*.json), validate MANIFEST and
# evidence against their schemas, regenerate the reports. Prints one line per check; exits non-zero if any check did.
cd "$(dirname "$0")/.." || exit 2
SEED="${1:-1}"; rc=0
for c in C01 C02 C03 C04 C05 C06 C07 C08 C09 C10 C11 C12 C13 C14 C15 C16 C17 C18 C19 C20; do
  out=$(VERIF_SEED=$SEED ./check $c --tier quick 2>&1); r=$?
  echo "$out" | grep -E "^(VIOLATION|harness)" | cut -c1-200
  echo "$out" | grep -E "^$c quick" | cut -c1-200; [ $r -ne 0 ] && { echo "  -> $c exit $r"; rc=1; }
done
python3 tools/mkmanifest.py; python3 tools/findings_report.py | tail -1; python3 tools/seed_report.py
python3-vt - <<'P'
import json, jsonschema, glob
jsonschema.validate(json.load(open('MANIFEST.json')), json.load(open('/root/.vp/MANIFEST.schema.json')))
es = json.load(open('/root/.vp/EVIDENCE.schema.json'))
for f in sorted(glob.glob('evidence/*.json')):
    jsonschema.validate(json.load(open(f)), es)
print("manifest and", len(glob.glob('evidence/*.json')), "evidence files valid")
P
exit $rc
