#!/bin/bash
# Run the pinned baseline suite against /repo (or $1) and compare with BASELINE.json stable_pass. Exit 0 iff every stable_pass test still passes.
REPO="${1:-/repo}"
OUT="$(mktemp -d /tmp/baseline.XXXXXX)"
cd "$REPO" || exit 2
/venv/bin/python -m pytest -ra -q -p no:cacheprovider --timeout=900 --continue-on-collection-errors --junitxml="$OUT/junit.xml" >"$OUT/log" 2>&1
/venv/bin/python - "$OUT/junit.xml" <<'P'
import json, sys, xml.etree.ElementTree as ET
base = set(json.load(open('/root/.vp/BASELINE.json'))['stable_pass'])
t = ET.parse(sys.argv[1]).getroot()
passed = set()
for tc in t.iter('testcase'):
    name = f"{tc.get('classname')}::{tc.get('name')}"
    if not any(c.tag in ('failure', 'error', 'skipped') for c in tc):
        passed.add(name)
missing = sorted(base - passed)
print(f"baseline: {len(base & passed)}/{len(base)} stable_pass tests pass; {len(missing)} regressed")
for m in missing[:30]:
    print("  REGRESSED", m)
sys.exit(1 if missing else 0)
P
rc=$?
tail -3 "$OUT/log"
rm -rf "$OUT"
exit $rc
