#!/venv/bin/python
"""tools/seed_recheck.py [--only C01-s1,...] [--jobs 3] [--workers 5]

Re-run the CURRENT quick checks against every seeded change (seeded/<name>/patch.diff applied to a scratch copy of
/repo's current src, VERIF_REPO pointing at it) and write seeded/<name>/recheck.json. meta.json (the independent
confirmation and the FIRST evaluation) is left as it is. A patch that no longer applies to the current tree (the
lines it touches were since repaired by a fix: commit) is recorded as such.
"""
import argparse, json, os, shutil, subprocess, sys, tempfile, time
from concurrent.futures import ThreadPoolExecutor

V = os.path.dirname(os.path.dirname(os.path.abspath(__file__)))
# changes that are (also) visible through another property's check
ALSO = {"C05-s1": ["C15"], "C05-s4": ["C15"], "C05-s5": ["C11", "C12"], "C20-s6": ["C04"], "C04-s5": ["C11"], "C11-s6": ["C05", "C12"], "C05-s8": ["C14"], "C03-s5": ["C04"], "C14-s9": ["C09"], "C18-s8": [], "C05-s13": ["C12"], "C11-s13": ["C15"], "C13-s13": ["C12"], "C12-s13": ["C13"]}


def one(name, workers):
    d = os.path.join(V, "seeded", name)
    prop = name.split("-")[0]
    s = tempfile.mkdtemp(prefix="recheck.", dir="/tmp")
    res = {"name": name, "ran": time.strftime("%Y-%m-%d %H:%M:%S"), "checks": {},
           "repo_head": subprocess.run("git -C /repo log --format=%h -1", shell=True, capture_output=True, text=True).stdout.strip()}
    try:
        os.makedirs(os.path.join(s, "repo"))
        shutil.copytree("/repo/src", os.path.join(s, "repo", "src"), ignore=shutil.ignore_patterns("__pycache__"))
        p = subprocess.run(["patch", "-p1", "-s", "--no-backup-if-mismatch", "-i", os.path.join(d, "patch.diff")],
                           cwd=os.path.join(s, "repo"), capture_output=True, text=True)
        res["patch_applies"] = p.returncode == 0
        if p.returncode != 0:
            res["patch_error"] = (p.stdout + p.stderr)[-300:]
        else:
            for c in [prop] + ALSO.get(name, []):
                t0 = time.time()
                r = subprocess.run([os.path.join(V, "check"), c, "--tier", "quick"], cwd=V, capture_output=True, text=True,
                                   env=dict(os.environ, VERIF_REPO=os.path.join(s, "repo"), VERIF_WORKERS=str(workers)))
                sigs = [l[len("violation: "):][:160] for l in r.stdout.splitlines() if l.startswith("violation: ")]
                res["checks"][c] = {"rc": r.returncode, "wall_s": round(time.time() - t0, 1), "signatures": sigs[:4]}
                if r.returncode == 1 and c == prop:
                    break  # its own property's check catches it; the cross-checks are only of interest otherwise
        res["caught_by"] = [c for c, v in res["checks"].items() if v["rc"] == 1]
    finally:
        shutil.rmtree(s, ignore_errors=True)
    json.dump(res, open(os.path.join(d, "recheck.json"), "w"), indent=1)
    print(name, "applies" if res.get("patch_applies") else "PATCH-FAILS", res.get("caught_by"), flush=True)
    return res


def main():
    ap = argparse.ArgumentParser()
    ap.add_argument("--only", default=None)
    ap.add_argument("--jobs", type=int, default=3)
    ap.add_argument("--workers", type=int, default=5)
    a = ap.parse_args()
    names = sorted(n for n in os.listdir(os.path.join(V, "seeded")) if os.path.exists(os.path.join(V, "seeded", n, "patch.diff")))
    if a.only:
        names = [n for n in names if n in a.only.split(",")]
    with ThreadPoolExecutor(a.jobs) as ex:
        list(ex.map(lambda n: one(n, a.workers), names))


if __name__ == "__main__":
    main()
