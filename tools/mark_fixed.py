#!/venv/bin/python
"""tools/mark_fixed.py <finding-id> <commit> [<finding-id> <commit> ...]
Move findings from findings/known_<P>.json into known_findings.json with status "fixed" (a fixed entry suppresses nothing;
its replay keeps running as a regression)."""
import glob, json, os, sys
V = os.path.dirname(os.path.dirname(os.path.abspath(__file__)))
main = os.path.join(V, "known_findings.json")
d = json.load(open(main))
args = sys.argv[1:]
for fid, commit in zip(args[0::2], args[1::2]):
    found = None
    for fn in glob.glob(os.path.join(V, "findings", "known_*.json")):
        k = json.load(open(fn))
        for f in list(k["findings"]):
            if f["id"] == fid:
                found = f
                k["findings"].remove(f)
                json.dump(k, open(fn, "w"), indent=1)
    if not found:
        for f in d["findings"]:
            if f["id"] == fid:
                found = f
                d["findings"].remove(f)
                break
    if not found:
        print("not found", fid); continue
    desc = found["description"]
    if not desc.startswith("fixed:"):
        desc = f"fixed: property={found['property']} {commit} {desc}"
    found.update(status="fixed", commit=commit, description=desc)
    d["findings"].append(found)
    print("fixed", fid, commit)
json.dump(d, open(main, "w"), indent=1)
