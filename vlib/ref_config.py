"""Independent derivation of the expected inventory from a scenario DICT (DESIGN §C20, Oracle A).

Nothing here imports ``primaite``: the tables below are transcribed from ``docs/source/configuration/**``,
``docs/source/simulation_components/system/**`` and the keys the shipped scenario files use.

``derive(cfg)`` returns an ``Inventory``:
  * ``must``  : key -> expected value (the built simulation has to hold exactly this);
  * ``alt``   : key -> list of acceptable values (where the documentation leaves the value open, e.g. the two default
                router rules at positions 22/23 may or may not be there when the file does not use these positions);
  * ``may``   : set of key prefixes that may be present without being declared (documented pre-installed system
                software, its options, interfaces of a router that the file leaves unconfigured ...).
Keys are tuples; the first element names the kind of item (see ``c20_read.py`` for the reader of the same keys).
"""
from __future__ import annotations

import ipaddress
from typing import Any, Dict, List, Optional, Tuple

# docs/source/simulation_components/network/... "List of Ports" / shipped files
PORTS = {
    "UNUSED": -1, "NONE": 0, "WOL": 9, "FTP_DATA": 20, "FTP": 21, "SSH": 22, "SMTP": 25, "DNS": 53, "HTTP": 80,
    "POP3": 110, "SFTP": 115, "NTP": 123, "IMAP": 143, "SNMP": 161, "SNMP_TRAP": 162, "ARP": 219, "LDAP": 389,
    "HTTPS": 443, "SMB": 445, "IPP": 631, "SQL_SERVER": 1433, "MYSQL": 3306, "RDP": 3389, "RTP": 5004,
    "RTP_ALT": 5005, "DNS_ALT": 5353, "HTTP_ALT": 8080, "HTTPS_ALT": 8443, "POSTGRES_SERVER": 5432,
}
DEFAULT_BANDWIDTH = 100.0  # Mbps, "default when absent"
DEFAULT_MASK = "255.255.255.0"
DEFAULT_DURATION = 3  # start_up_duration / shut_down_duration: "Optional. Default value is 3."

HOST_TYPES = ("computer", "server", "printer", "host-node")
ROUTER_TYPES = ("router", "wireless-router")

# documented pre-installed system software (list_of_system_services.rst, list_of_system_applications.rst,
# base_hardware.rst: UserManager / UserSessionManager; HostNode.SYSTEM_SOFTWARE is what the lists point to)
SYSTEM_SOFTWARE = {
    "host": {"arp": "service", "icmp": "service", "dns-client": "service", "ntp-client": "service",
             "ftp-client": "service", "web-browser": "application", "nmap": "application",
             "user-session-manager": "service", "user-manager": "service", "terminal": "service"},
    "router": {"arp": "service", "icmp": "service", "nmap": "application", "user-session-manager": "service",
               "user-manager": "service", "terminal": "service"},
    "switch": {},
}

SERVICES = ("dns-client", "dns-server", "database-service", "web-server", "ftp-client", "ftp-server", "ntp-client",
            "ntp-server", "terminal")
APPLICATIONS = ("web-browser", "database-client", "data-manipulation-bot", "ransomware-script", "dos-bot", "c2-beacon",
                "c2-server", "nmap")

# software type -> {option: (kind, documented default)}; kind in ip / str / int / float / bool / port / proto / map_ip.
# NODEFAULT = documented without a default (compared only when the file sets it).
NODEFAULT = object()
OPTIONS: Dict[str, Dict[str, Tuple[str, Any]]] = {
    "database-service": {"backup_server_ip": ("ip", None), "db_password": ("str", None)},
    "dns-client": {"dns_server": ("ip", NODEFAULT)},  # default: the node's dns_server (handled in derive)
    "dns-server": {"domain_mapping": ("map_ip", {})},
    "ftp-server": {"server_password": ("str", None)},
    "ntp-client": {"ntp_server_ip": ("ip", None)},
    "web-browser": {"target_url": ("str", None)},
    "database-client": {"db_server_ip": ("ip", None), "server_password": ("str", None)},
    "data-manipulation-bot": {"server_ip": ("ip", None), "server_password": ("str", None), "payload": ("str", "DELETE"),
                              "port_scan_p_of_success": ("float", 0.1),
                              "data_manipulation_p_of_success": ("float", 0.1), "repeat": ("bool", NODEFAULT)},
    "ransomware-script": {"server_ip": ("ip", None), "server_password": ("str", NODEFAULT),
                          "payload": ("str", NODEFAULT)},
    "dos-bot": {"target_ip_address": ("ip", None), "target_port": ("port", 5432), "payload": ("str", None),
                "repeat": ("bool", False), "port_scan_p_of_success": ("float", 0.1), "dos_intensity": ("float", 1.0),
                "max_sessions": ("int", 1000)},
    "c2-beacon": {"c2_server_ip_address": ("ip", None), "keep_alive_frequency": ("int", 5),
                  "masquerade_protocol": ("proto", "tcp"), "masquerade_port": ("port", 80)},
    "c2-server": {},
    "web-server": {}, "ftp-client": {}, "ntp-server": {}, "terminal": {}, "nmap": {},
}
COMMON_OPTIONS = {"fixing_duration": ("int", 2), "listen_on_ports": ("ports", NODEFAULT)}

# NMNEConfig field defaults (class docstrings in simulator/network/nmne.py; the configuration docs do not describe them)
NMNE_DEFAULTS = {"capture_nmne": False, "nmne_capture_keywords": [], "capture_by_direction": True,
                 "capture_by_ip_address": False, "capture_by_protocol": False, "capture_by_port": False,
                 "capture_by_keyword": False}
# airspace.py: FREQ_WIFI_2_4 / FREQ_WIFI_5 data_rate_bps (docs/source/simulation_components/network/airspace.rst names
# the two frequencies; an override is in Mbps = bps / 1024^2)
AIRSPACE_DEFAULT_BPS = {"WIFI_2_4": 100_000_000.0, "WIFI_5": 500_000_000.0}

# keys of the ``defaults:`` block (the loader reads it at top level; the shipped UC7 files write it under simulation:)
DEFAULTS_KEYS = ("node_start_up_duration", "node_shut_down_duration", "node_scan_duration", "folder_scan_duration",
                 "folder_restore_duration", "service_fix_duration", "service_restart_duration")

FIREWALL_LISTS = ("internal_inbound_acl", "internal_outbound_acl", "dmz_inbound_acl", "dmz_outbound_acl",
                  "external_inbound_acl", "external_outbound_acl")
FIREWALL_PORTS = {"external_port": 1, "internal_port": 2, "dmz_port": 3}

# the two default router rules (Router._set_default_acl docstring: "permitting essential protocols like ARP and ICMP")
DEFAULT_ROUTER_RULES = {
    22: ("PERMIT", None, None, None, None, None, PORTS["ARP"], PORTS["ARP"]),
    23: ("PERMIT", "icmp", None, None, None, None, None, None),
}


class Inventory:
    def __init__(self):
        self.must: Dict[tuple, Any] = {}
        self.alt: Dict[tuple, List[Any]] = {}
        self.may: set = set()
        self.notes: Dict[str, int] = {}
        self.prov: Dict[tuple, str] = {}  # key -> "defaults:<where>:<defaults key>" / "explicit-over-defaults:<where>:<key>"
        self.files: List[tuple] = []  # (host, folder, acceptable names, size or None, type or None)
        self.free_suffixes: List[str] = []  # hostnames created by node sets end with _<lan_name>
        self.folder_defaults: Dict[str, tuple] = {}  # "scan"/"restore" -> (value, where, defaults key): holds for EVERY
        # folder of every declared node, also those created by software at install time or later at run time
        self.nodesets: List[Dict] = []  # wiring facts of each node set (checked on the built link graph)

    def _free_host(self, h) -> bool:
        return isinstance(h, str) and any(h.endswith(s) for s in self.free_suffixes)

    def allowed_extra(self, key: tuple) -> bool:
        if any(key[: len(p)] == p for p in self.may):
            return True
        if len(key) > 1 and self._free_host(key[1]):
            return True
        if key[0] == "link" and (self._free_host(key[1]) or self._free_host(key[3])):
            return True
        return False


def ip(x) -> Optional[str]:
    if x is None:
        return None
    return str(ipaddress.IPv4Address(str(x)))


def port(x) -> Optional[int]:
    if x is None:
        return None
    if isinstance(x, str):
        return PORTS[x] if x in PORTS else int(x)
    return int(x)


def proto(x) -> Optional[str]:
    return None if x is None else str(x).lower()


def norm_option(kind: str, v: Any) -> Any:
    if v is None:
        return None
    if kind == "ip":
        return ip(v)
    if kind == "str":
        return str(v)
    if kind == "int":
        return int(v)
    if kind == "float":
        return round(float(v), 9)
    if kind == "bool":
        return bool(v)
    if kind == "port":
        return port(v)
    if kind == "proto":
        return proto(v)
    if kind == "ports":
        return sorted({port(p) for p in v})
    if kind == "map_ip":
        return {str(k): ip(x) for k, x in v.items()}
    raise ValueError(kind)


def acl_rule(r: Dict) -> tuple:
    """(action, protocol, src_ip, src_wildcard, dst_ip, dst_wildcard, src_port, dst_port) — None = any."""
    return (
        str(r["action"]).upper(),
        proto(r.get("protocol")) if r.get("protocol") else None,
        ip(r.get("src_ip")) if r.get("src_ip") else None,
        ip(r.get("src_wildcard_mask")) if r.get("src_wildcard_mask") else None,
        ip(r.get("dst_ip")) if r.get("dst_ip") else None,
        ip(r.get("dst_wildcard_mask")) if r.get("dst_wildcard_mask") else None,
        port(r.get("src_port")) if r.get("src_port") else None,
        port(r.get("dst_port")) if r.get("dst_port") else None,
    )


def state_name(v) -> str:
    """operating_state as written; YAML turns a bare ON / OFF into a boolean, which the docs warn about."""
    if v is None:
        return "ON"
    if isinstance(v, bool):
        return None  # the docs warn that a bare ON / OFF is a YAML boolean: outside the documented domain
    return str(v).upper()


def link_key(a, ap, b, bp) -> tuple:
    e = sorted([(str(a), int(ap)), (str(b), int(bp))])
    return ("link", e[0][0], e[0][1], e[1][0], e[1][1])


def defaults_block(cfg: Dict) -> Tuple[Dict, str]:
    top = cfg.get("defaults") or {}
    sim = (cfg.get("simulation") or {}).get("defaults") or {}
    if top:
        return dict(top), "top"
    if sim:
        return dict(sim), "simulation"
    return {}, "none"


def family(t: str) -> str:
    if t in HOST_TYPES:
        return "host"
    if t in ROUTER_TYPES or t == "firewall":
        return "router"
    if t == "switch":
        return "switch"
    return "other"


def derive(cfg: Dict) -> Inventory:
    inv = Inventory()
    must, alt, may = inv.must, inv.alt, inv.may
    sim = cfg.get("simulation") or {}
    net = sim.get("network") or {}
    dfl, dfl_where = defaults_block(cfg)
    if dfl:
        inv.notes[f"defaults@{dfl_where}"] = 1

    for d, dk in (("scan", "folder_scan_duration"), ("restore", "folder_restore_duration")):
        if dk in dfl:
            inv.folder_defaults[d] = (int(dfl[dk]), dfl_where, dk)

    for n in net.get("nodes") or []:
        t = n["type"]
        h = n["hostname"]
        fam = family(t)
        must[("node", h)] = t
        if state_name(n.get("operating_state")) is None:
            may.add(("state", h))
        else:
            must[("state", h)] = state_name(n.get("operating_state"))
        for k, dk in (("start_up", "node_start_up_duration"), ("shut_down", "node_shut_down_duration")):
            if f"{k}_duration" in n:
                must[("dur", h, k)] = int(n[f"{k}_duration"])
            elif dk in dfl:
                must[("dur", h, k)] = int(dfl[dk])
                inv.prov[("dur", h, k)] = f"defaults:{dfl_where}:{dk}"
            else:
                must[("dur", h, k)] = DEFAULT_DURATION
        if "node_scan_duration" in dfl and "node_scan_duration" not in n:
            must[("dur", h, "node_scan")] = int(dfl["node_scan_duration"])
            inv.prov[("dur", h, "node_scan")] = f"defaults:{dfl_where}:node_scan_duration"
        else:
            may.add(("dur", h, "node_scan"))

        # ---- interfaces / addresses
        if fam == "host":
            must[("if", h, 1)] = (ip(n["ip_address"]), ip(n.get("subnet_mask", DEFAULT_MASK)))
            k = 1
            for _, nic in (n.get("network_interfaces") or {}).items():
                k += 1
                must[("if", h, k)] = (ip(nic["ip_address"]), ip(nic.get("subnet_mask", DEFAULT_MASK)))
            must[("ifcount", h)] = k
            must[("gw", h)] = ip(n.get("default_gateway"))
            must[("dns", h)] = ip(n.get("dns_server"))
        elif t == "switch":
            must[("ifcount", h)] = int(n.get("num_ports", 8))
            may.add(("if", h))
        elif t == "router":
            np_ = int(n.get("num_ports", 5))
            must[("ifcount", h)] = np_
            for pn, pc in (n.get("ports") or {}).items():
                must[("if", h, int(pn))] = (ip(pc["ip_address"]), ip(pc.get("subnet_mask", DEFAULT_MASK)))
            may.add(("if", h))  # unconfigured ports keep a placeholder address
        elif t == "firewall":
            must[("ifcount", h)] = 3
            for name, pc in (n.get("ports") or {}).items():
                must[("if", h, FIREWALL_PORTS[name])] = (ip(pc["ip_address"]), ip(pc.get("subnet_mask", DEFAULT_MASK)))
            may.add(("if", h))
        elif t == "wireless-router":
            must[("ifcount", h)] = 2
            if "wireless_access_point" in n:
                w = n["wireless_access_point"]
                must[("if", h, 1)] = (ip(w["ip_address"]), ip(w.get("subnet_mask", DEFAULT_MASK)))
                must[("wifi", h)] = str(w["frequency"])
            if "router_interface" in n:
                w = n["router_interface"]
                must[("if", h, 2)] = (ip(w["ip_address"]), ip(w.get("subnet_mask", DEFAULT_MASK)))
            may.add(("if", h))
        else:
            may.add(("if", h))
            may.add(("ifcount", h))
            may.add(("gw", h))
            may.add(("dns", h))

        # ---- routes, ACLs
        if fam == "router":
            routes: Dict[tuple, List[float]] = {}
            for r in n.get("routes") or []:
                k = ("route", h, ip(r["address"]), ip(r.get("subnet_mask", DEFAULT_MASK)), ip(r["next_hop_ip_address"]))
                routes.setdefault(k, []).append(round(float(r.get("metric", 0)), 9))
            for k, ms in routes.items():
                must[k] = sorted(ms)
            dr = n.get("default_route") or {}
            must[("defroute", h)] = ip(dr.get("next_hop_ip_address")) if dr.get("next_hop_ip_address") else None
            if t == "firewall":
                acl = n.get("acl") or {}
                for ln in FIREWALL_LISTS:
                    for pos, r in (acl.get(ln) or {}).items():
                        must[("acl", h, ln, int(pos))] = acl_rule(r)
            else:
                declared = {int(p): r for p, r in (n.get("acl") or {}).items()}
                for pos, r in declared.items():
                    must[("acl", h, "acl", pos)] = acl_rule(r)
                for pos, rule in DEFAULT_ROUTER_RULES.items():
                    if pos not in declared:
                        alt[("acl", h, "acl", pos)] = [rule, None]

        # ---- software
        sysw = SYSTEM_SOFTWARE.get(fam, {})
        for name in sysw:
            may.add(("sw", h, name))
            may.add(("swopt", h, name))
            may.add(("swdur", h, name))
        declared_sw: Dict[str, Tuple[str, Dict]] = {}
        for s in n.get("services") or []:
            declared_sw[s["type"]] = ("service", s.get("options") or {})
        for a in n.get("applications") or []:
            declared_sw[a["type"]] = ("application", a.get("options") or {})
        for name, (kind, opts) in declared_sw.items():
            must[("sw", h, name)] = kind
            table = dict(COMMON_OPTIONS)
            known = name in OPTIONS
            table.update(OPTIONS.get(name, {}))
            for o, (okind, default) in table.items():
                key = ("swopt", h, name, o)
                if o in opts:
                    must[key] = norm_option(okind, opts[o])
                    if o == "fixing_duration" and kind == "service" and "service_fix_duration" in dfl:
                        inv.prov[key] = f"explicit-over-defaults:{dfl_where}:service_fix_duration"
                elif o == "fixing_duration" and kind == "service" and "service_fix_duration" in dfl:
                    must[key] = int(dfl["service_fix_duration"])
                    inv.prov[key] = f"defaults:{dfl_where}:service_fix_duration"
                elif name == "dns-client" and o == "dns_server":
                    must[key] = ip(n.get("dns_server"))
                elif default is NODEFAULT or not known:
                    may.add(key)
                else:
                    must[key] = norm_option(okind, default)
            if not known:
                may.add(("swopt", h, name))
            if kind == "service" and "service_restart_duration" in dfl:
                must[("swdur", h, name, "restart")] = int(dfl["service_restart_duration"])
                inv.prov[("swdur", h, name, "restart")] = f"defaults:{dfl_where}:service_restart_duration"
            else:
                may.add(("swdur", h, name))

        # ---- users (in addition to the default admin/admin)
        if fam in ("host", "router"):
            alt[("user", h, "admin")] = [("admin", True)]
            for u in n.get("users") or []:
                must[("user", h, str(u["username"]))] = (str(u["password"]), bool(u.get("is_admin", False)))

        # ---- folders and files
        for f in n.get("folders") or []:
            fo = f["folder_name"]
            must[("folder", h, fo)] = True
            for d, dk in (("scan", "folder_scan_duration"), ("restore", "folder_restore_duration")):
                if dk in dfl:
                    must[("folderdur", h, fo, d)] = int(dfl[dk])
                    inv.prov[("folderdur", h, fo, d)] = f"defaults:{dfl_where}:{dk}"
            for fi in f.get("files") or []:
                # size / type are compared only when the file states them (the default size and the type derived
                # from the extension are not documented); a declared type may be appended to the name as extension
                size = int(fi["size"]) if fi.get("size") else None
                ftype = str(fi["type"]).upper() if fi.get("type") and str(fi["type"]).upper() != "UNKNOWN" else None
                names = [fi["file_name"]]
                if ftype and not fi["file_name"].lower().endswith("." + ftype.lower()):
                    names.append(f"{fi['file_name']}.{ftype.lower()}")
                inv.files.append((h, fo, names, size, ftype))
        may.add(("folder", h))
        may.add(("file", h))
        may.add(("folderdur", h))

    # ---- NMNE capture configuration the built interfaces use: declared, or the default when the file is silent
    declared_nmne = net.get("nmne_config") or {}
    for field, default in NMNE_DEFAULTS.items():
        v = declared_nmne.get(field, default)
        must[("nmne", field)] = [str(x) for x in v] if isinstance(v, list) else bool(v)
    must[("nmne-obs",)] = bool(declared_nmne.get("capture_nmne", False))
    # ---- airspace capacity per frequency (Mbps): declared override, else the frequency's own capacity
    over = (net.get("airspace") or {}).get("frequency_max_capacity_mbps") or {}
    for freq, bps in AIRSPACE_DEFAULT_BPS.items():
        must[("airspace", freq)] = round(float(over[freq]) if freq in over else bps / (1024.0 * 1024.0), 6)
    may.add(("airspace",))

    # ---- links
    for l in net.get("links") or []:
        k = link_key(l["endpoint_a_hostname"], l["endpoint_a_port"], l["endpoint_b_hostname"], l["endpoint_b_port"])
        must[k] = round(float(l.get("bandwidth", DEFAULT_BANDWIDTH)), 9)

    # ---- agents
    for a in cfg.get("agents") or []:
        ref = a["ref"]
        must[("agent", ref)] = a["type"]
        must[("agent", ref, "team")] = a.get("team")
        amap = (a.get("action_space") or {}).get("action_map")
        if amap is not None:
            must[("agent", ref, "n_actions")] = len(amap)
            for i, ent in amap.items():
                must[("agent", ref, "action", int(i))] = str(ent["action"])
        else:
            may.add(("agent", ref, "n_actions"))
            may.add(("agent", ref, "action"))
        obs = a.get("observation_space")
        if obs and obs.get("type") is not None:
            must[("agent", ref, "obs_type")] = str(obs["type"])
        else:
            may.add(("agent", ref, "obs_type"))

    # node sets add documented nodes of their own (docs/source/node_sets.rst)
    for ns in net.get("node_sets") or []:
        if ns.get("type") == "office-lan":
            office_lan(inv, ns)
        else:
            inv.notes["unknown_node_set"] = 1
    return inv


def office_lan(inv: Inventory, ns: Dict):
    """docs/source/node_sets.rst: num_pcs computers 192.168.<subnet_base>.<start+i>, switches, optional router."""
    name = ns["lan_name"]
    n = int(ns["num_pcs"])
    base = int(ns["subnet_base"])
    start = int(ns["pcs_ip_block_start"])
    bw = round(float(ns.get("bandwidth", 100)), 9)
    gw = f"192.168.{base}.1" if ns.get("include_router", True) else None
    for i in range(1, n + 1):
        h = f"pc_{i}_{name}"
        inv.must[("node", h)] = "computer"
        inv.must[("if", h, 1)] = (f"192.168.{base}.{i + start - 1}", DEFAULT_MASK)
        inv.must[("gw", h)] = gw
        inv.must[("state", h)] = "ON"
    if ns.get("include_router", True):
        inv.must[("node", f"router_{name}")] = "router"
        inv.must[("if", f"router_{name}", 1)] = (gw, DEFAULT_MASK)
    inv.notes["node_set_bw"] = bw
    # Switch names and port numbers are an implementation detail of the adder (allowed, not required). What the
    # documentation and the adder's contract state, for ANY number of PCs: every PC is connected to a switch ("enough
    # switches such that all hosts can be connected to a switch", 24-port switches with one port reserved for the
    # uplink => ceil(num_pcs / 23) edge switches, joined by a core switch when there is more than one), the optional
    # router "is added to connect the switches together" and is every PC's default gateway, and `bandwidth` is the
    # "data bandwidth to the LAN" => EVERY link the node set creates carries it (PC links, edge-switch uplinks to the
    # router or to the core switch, and the router uplink).
    n_edge = -(-n // 23)
    inv.nodesets.append({
        "name": name, "suffix": f"_{name}", "bandwidth": bw, "pcs": [f"pc_{i}_{name}" for i in range(1, n + 1)],
        "router": f"router_{name}" if ns.get("include_router", True) else None,
        "min_switches": n_edge + (1 if n_edge > 1 else 0),
        "n_links_min": n + (n_edge if (n_edge > 1 or ns.get("include_router", True)) else 0),
    })
    inv.free_suffixes.append(f"_{name}")


def nontrivial(cfg: Dict) -> Tuple[bool, Dict[str, int]]:
    """DESIGN: >=2 node types, >=1 ACL/route table, >=3 software options set."""
    net = (cfg.get("simulation") or {}).get("network") or {}
    nodes = net.get("nodes") or []
    types = {n["type"] for n in nodes}
    tables = sum(1 for n in nodes if n.get("acl") or n.get("routes") or n.get("default_route"))
    opts = 0
    for n in nodes:
        for s in (n.get("services") or []) + (n.get("applications") or []):
            opts += len(s.get("options") or {})
    return (len(types) >= 2 and tables >= 1 and opts >= 3), {"types": len(types), "tables": tables, "options": opts}
