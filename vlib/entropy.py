"""Harness-owned entropy and clock.

PrimAITE draws values that must not matter (uuid4 component ids, ``secrets`` MACs / ICMP identifiers / ping
payloads, ``datetime.now()`` stamps).  Frame.size is the length of the frame's JSON, which contains those values, so
they influence link load.  This module replaces them *in the check process only* with counter-driven providers so
that every case is a pure function of (code, seed), and so that C03/C04 can vary them as generated input.

Nothing in /repo is edited.
"""
from __future__ import annotations

import datetime as _dt
import secrets as _secrets
import sys
import uuid as _uuid

_STATE = {"uuid": 0, "bits": 0, "tok": 0, "clock": 0, "installed": False,
          "uuid_base": 0, "bits_mode": "counter", "clock_origin": 1_700_000_000, "clock_step_us": 1000}

_REAL_DATETIME = _dt.datetime


class _FakeDatetimeMeta(type(_REAL_DATETIME)):
    def __instancecheck__(cls, inst):  # isinstance(x, datetime) keeps working for real datetimes
        return isinstance(inst, _REAL_DATETIME)


class FakeDatetime(_REAL_DATETIME, metaclass=_FakeDatetimeMeta):
    """datetime whose now() is a deterministic counter."""

    @classmethod
    def now(cls, tz=None):
        _STATE["clock"] += 1
        # +1: with the default step the microsecond field is never 0 (isoformat() drops it then, which changes the
        # length of a frame's JSON and therefore its size); variants that WANT whole-second stamps use a 1e6 step and
        # clock_offset_us=0
        us = _STATE["clock"] * _STATE["clock_step_us"] + _STATE.get("clock_offset_us", 1)
        base = _REAL_DATETIME.fromtimestamp(_STATE["clock_origin"], tz=_dt.timezone.utc).replace(tzinfo=None)
        return base + _dt.timedelta(microseconds=us)


def _fake_uuid4():
    _STATE["uuid"] += 1
    n = _STATE["uuid_base"] + _STATE["uuid"]
    if _STATE.get("uuid_mode") == "mix":
        # pseudo-random but reproducible: the ORDER of the ids (sorted(), dict keyed by uuid) no longer follows the order
        # of creation, as with real uuid4 values
        n = ((_mix64(n) << 16) ^ _mix64(n ^ 0x5555)) & ((1 << 80) - 1)
    return _uuid.UUID("%08x-0000-4000-8000-%012x" % ((n >> 48) & 0xFFFFFFFF, n & 0xFFFFFFFFFFFF))


def _mix64(x):
    x = (x + 0x9E3779B97F4A7C15) & 0xFFFFFFFFFFFFFFFF
    x = ((x ^ (x >> 30)) * 0xBF58476D1CE4E5B9) & 0xFFFFFFFFFFFFFFFF
    x = ((x ^ (x >> 27)) * 0x94D049BB133111EB) & 0xFFFFFFFFFFFFFFFF
    return x ^ (x >> 31)


def _fake_randbits(k):
    _STATE["bits"] += 1
    mode = _STATE["bits_mode"]
    # ICMP identifiers at the top / bottom of their range, but still unique (collisions of real random identifiers
    # have probability 2^-16 per pair; generating them on purpose would violate a precondition every run relies on)
    if k == 16 and mode == "max":
        return 65535 - (_STATE["bits"] % 65536)
    if k == 16 and mode == "min":
        return _STATE["bits"] % 65536
    return _mix64(_STATE["bits"]) & ((1 << k) - 1)


_ALPH = "abcdefghijklmnopqrstuvwxyzABCDEFGHIJKLMNOPQRSTUVWXYZ0123456789-_"


def _fake_token_urlsafe(nbytes=None):
    import math

    if nbytes is None:
        nbytes = 32
    _STATE["tok"] += 1
    n = int(math.ceil(nbytes * 4 / 3))
    x = _STATE["tok"]
    out = []
    for i in range(n):
        x = (x * 1103515245 + 12345) & 0x7FFFFFFF
        out.append(_ALPH[x % 64])
    return "".join(out)


import time as _time

_REAL_TIME_FN = _time.time


def _fake_time():
    """time.time() of the harness clock (same counter as FakeDatetime.now)."""
    _STATE["clock"] += 1
    us = _STATE["clock"] * _STATE["clock_step_us"] + _STATE.get("clock_offset_us", 1)
    return _STATE["clock_origin"] + us / 1e6


class _TimeProxy:
    """Stands in for the `time` module inside simulator modules: wall-clock readers come from the harness clock."""

    def __getattr__(self, name):
        if name == "time":
            return _fake_time
        if name == "time_ns":
            return lambda: int(_fake_time() * 1e9)
        return getattr(_time, name)


def install():
    """Patch every primaite module that imported uuid4 / datetime by name, and the secrets module functions."""
    if _STATE["installed"]:
        return
    import primaite  # noqa: F401  (make sure modules are loaded by the caller first)

    for name, mod in list(sys.modules.items()):
        if not name.startswith("primaite"):
            continue
        if mod is None:
            continue
        d = getattr(mod, "__dict__", {})
        if d.get("uuid4") is _uuid.uuid4:
            mod.uuid4 = _fake_uuid4
        if d.get("datetime") is _REAL_DATETIME and name.startswith("primaite.simulator."):
            mod.datetime = FakeDatetime
        if name.startswith("primaite.simulator."):
            # wall-clock readers other than datetime.now (none in the present tree; a change that starts reading
            # time.time() inside the simulation must not escape the harness clock)
            if d.get("time") is _REAL_TIME_FN:
                mod.time = _fake_time
            elif d.get("time") is _time:
                mod.time = _TimeProxy()
    _secrets.randbits = _fake_randbits
    _secrets.token_urlsafe = _fake_token_urlsafe
    _STATE["installed"] = True


def reset(uuid_base: int = 0, bits_mode: str = "counter", clock_origin: int = 1_700_000_000, clock_step_us: int = 1000,
          clock_offset_us: int = 1, uuid_mode: str = "counter"):
    """Start a fresh, reproducible entropy stream (call at the start of every case)."""
    _STATE.update(uuid=0, bits=0, tok=0, clock=0, uuid_base=uuid_base, bits_mode=bits_mode,
                  clock_origin=clock_origin, clock_step_us=clock_step_us, clock_offset_us=clock_offset_us,
                  uuid_mode=uuid_mode)


def snapshot():
    return {k: _STATE[k] for k in ("uuid", "bits", "tok", "clock")}


def restore(s):
    _STATE.update(s)
