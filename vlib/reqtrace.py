"""Observe-only tracing of RequestManager.__call__ (where did a request return?) and an independent dry-run walker."""
from __future__ import annotations

from typing import Any, Dict, List, Optional, Tuple

_STATE = {"installed": False, "depth": 0, "trace": None, "orig": None}


def install():
    if _STATE["installed"]:
        return
    from primaite.simulator.core import RequestManager

    orig = RequestManager.__call__
    _STATE["orig"] = orig

    def traced(self, request, context):
        tr = _STATE["trace"]
        if tr is not None and tr and tr[-1][1] == "leaf" and _STATE.get("leaf_opts") is not None and list(request) == _STATE["leaf_opts"]:
            # the "leaf" handed exactly its own remaining request to another RequestManager (e.g. func is a component's
            # apply_request instead of its _request_manager): that is delegation, keep following the path
            d0, _, k0, _ = tr[-1]
            tr[-1] = (d0, "delegate", k0, "via-function")
            _STATE["leaf_opts"] = None
        if tr is not None and not (tr and tr[-1][1] in ("leaf", "keymiss", "refused", "empty")):
            if not request:
                tr.append((len(tr), "empty", None, None))
            else:
                key = request[0]
                if key not in self.request_types:
                    tr.append((len(tr), "keymiss", key, None))
                else:
                    rt = self.request_types[key]
                    try:
                        ok = rt.validator(request[1:], context)
                    except Exception as e:  # the original call will raise the same way; record and let it happen
                        tr.append((len(tr), "validator-raised", key, type(e).__name__))
                        ok = None
                    if ok is None:
                        pass
                    elif not ok:
                        tr.append((len(tr), "refused", key, type(rt.validator).__name__))
                    elif isinstance(rt.func, RequestManager):
                        tr.append((len(tr), "delegate", key, None))
                    else:
                        tr.append((len(tr), "leaf", key, None))
                        _STATE["leaf_opts"] = list(request[1:])
        return orig(self, request, context)

    RequestManager.__call__ = traced
    _STATE["installed"] = True


def start():
    _STATE["trace"] = []
    _STATE["leaf_opts"] = None


def stop() -> List[Tuple]:
    tr = _STATE["trace"] or []
    _STATE["trace"] = None
    return tr


def summary(tr: List[Tuple]) -> Tuple[str, int, Optional[str]]:
    """(return point, depth, detail): 'leaf' | 'keymiss' | 'refused' | 'empty' | 'validator-raised' | 'none'."""
    if not tr:
        return ("none", 0, None)
    d, kind, key, extra = tr[-1]
    return (kind, d, extra if extra else (str(key) if kind == "keymiss" else None))


def dry_run(root_rm, request: List, context: Any = None) -> Tuple[bool, str, int, Optional[str]]:
    """Independent walk: every key exists and EVERY validator on the path accepts. Returns (allowed, why, depth, detail).

    Does not call RequestManager.check_valid or __call__; validators are evaluated exactly as __call__ would
    (options = the remainder of the request, same context)."""
    from primaite.simulator.core import RequestManager

    rm = root_rm
    rest = list(request)
    depth = 0
    while True:
        if not rest:
            return (False, "empty", depth, None)
        key = rest[0]
        if key not in rm.request_types:
            return (False, "keymiss", depth, str(key))
        rt = rm.request_types[key]
        opts = rest[1:]
        if not rt.validator(opts, context):
            return (False, "refused", depth, type(rt.validator).__name__)
        if isinstance(rt.func, RequestManager):
            rm = rt.func
            rest = opts
            depth += 1
            continue
        # a handler that is some component's bound apply_request forwards the remaining request to that component's
        # request manager: the permission rules below it are still "on the path"
        owner = getattr(rt.func, "__self__", None)
        if getattr(rt.func, "__name__", "") == "apply_request" and isinstance(getattr(owner, "_request_manager", None), RequestManager):
            rm = owner._request_manager
            rest = opts
            depth += 1
            continue
        return (True, "leaf", depth, None)


# ---------------------------------------------------------------------------------------------------------------------
# Ground-truth reading of the permission rules: what each rule is documented to test, evaluated on the raw fields of the
# component the rule guards (never by calling the validator). Unknown validator classes fall back to the validator itself
# and are counted, so that a new rule cannot silently weaken the reference.
UNKNOWN_VALIDATORS: Dict[str, int] = {}


def _live(container, name):
    for x in container.values():
        if x.name == name:
            return x
    return None


def truth(v, opts: List, context: Any) -> bool:
    qn = type(v).__qualname__
    if qn == "AllowAllValidator":
        return True
    if qn == "_CombinedValidator":
        return all(truth(x, opts, context) for x in v.validators)
    if qn == "Node._NodeIsOnValidator":
        return v.node.operating_state.name == "ON"
    if qn == "Node._NodeIsOffValidator":
        return v.node.operating_state.name == "OFF"
    if qn == "NetworkInterface._EnabledValidator":
        return bool(v.network_interface.enabled)
    if qn == "NetworkInterface._DisabledValidator":
        return not v.network_interface.enabled
    if qn == "Service._StateValidator":
        return v.service.operating_state.name == v.state.name
    if qn == "Application._StateValidator":
        return v.application.operating_state.name == v.state.name
    if qn == "FileSystem._FolderExistsValidator":
        return _live(v.file_system.folders, opts[0]) is not None
    if qn == "FileSystem._FolderNotDeletedValidator":
        f = _live(v.file_system.folders, opts[0])
        return f is not None and not f.deleted
    if qn == "FileSystem._FileExistsValidator":
        f = _live(v.file_system.folders, opts[0])
        return f is not None and _live(f.files, opts[1]) is not None
    if qn == "Folder._FileExistsValidator":
        return _live(v.folder.files, opts[0]) is not None
    if qn == "Folder._FileNotDeletedValidator":
        f = _live(v.folder.files, opts[0])
        return f is not None and not f.deleted
    UNKNOWN_VALIDATORS[qn] = UNKNOWN_VALIDATORS.get(qn, 0) + 1
    return bool(v(opts, context))


def truth_run(root_rm, request: List, context: Any = None) -> Tuple[bool, str, int, Optional[str]]:
    """Like dry_run, but every rule on the path is judged by `truth` (raw component state), not by the validator."""
    from primaite.simulator.core import RequestManager

    rm = root_rm
    rest = list(request)
    depth = 0
    while True:
        if not rest:
            return (False, "empty", depth, None)
        key = rest[0]
        if key not in rm.request_types:
            return (False, "keymiss", depth, str(key))
        rt = rm.request_types[key]
        opts = rest[1:]
        try:
            ok = truth(rt.validator, opts, context)
        except IndexError:
            return (False, "arity", depth, type(rt.validator).__qualname__)
        if not ok:
            return (False, "refused", depth, type(rt.validator).__qualname__)
        nxt = None
        if isinstance(rt.func, RequestManager):
            nxt = rt.func
        else:
            owner = getattr(rt.func, "__self__", None)
            if getattr(rt.func, "__name__", "") == "apply_request" and isinstance(getattr(owner, "_request_manager", None), RequestManager):
                nxt = owner._request_manager
        if nxt is None:
            return (True, "leaf", depth, None)
        rm, rest, depth = nxt, opts, depth + 1
