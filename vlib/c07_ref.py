"""Reference packet filter for C07, written from the property statement alone (nothing from primaite is imported).

rule   = {"action": "PERMIT"|"DENY", "protocol", "src_ip", "src_wc", "dst_ip", "dst_wc", "src_port", "dst_port"}
         a field that is None is unspecified and matches anything; a wildcard mask without an address specifies nothing
packet = (protocol, src_ip, dst_ip, src_port, dst_port); the ports of a packet that has none (ICMP) are None
"""
from functools import lru_cache
from ipaddress import IPv4Address

FIELDS = ("action", "protocol", "src_ip", "src_wc", "dst_ip", "dst_wc", "src_port", "dst_port")


@lru_cache(maxsize=None)
def _n(addr):
    return int(IPv4Address(addr))


def addr_matches(base, wildcard, ip):
    if base is None:
        return True
    if wildcard is None:
        return _n(base) == _n(ip)
    keep = ~_n(wildcard) & 0xFFFFFFFF  # wildcard bit 1 = ignore, 0 = must be equal
    return _n(base) & keep == _n(ip) & keep


def rule_matches(rule, pkt):
    proto, src, dst, sport, dport = pkt
    return (
        (rule["protocol"] is None or rule["protocol"] == proto)
        and addr_matches(rule["src_ip"], rule["src_wc"], src)
        and addr_matches(rule["dst_ip"], rule["dst_wc"], dst)
        and (rule["src_port"] is None or rule["src_port"] == sport)
        and (rule["dst_port"] is None or rule["dst_port"] == dport)
    )


class RefACL:
    def __init__(self, implicit):
        self.implicit, self.rules, self.hits, self.implicit_hits = implicit, {}, {}, 0

    def add(self, pos, rule):  # touches position pos only; a new rule starts with no hits
        self.rules[pos], self.hits[pos] = dict(rule), 0

    def remove(self, pos):
        self.rules.pop(pos, None), self.hits.pop(pos, None)

    def matching(self, pkt):
        return [p for p in sorted(self.rules) if rule_matches(self.rules[p], pkt)]

    def decide(self, pkt):
        """(permitted, deciding position or None for the implicit rule); counts the hit on exactly that rule."""
        m = self.last_matching = self.matching(pkt)
        if m:
            self.hits[m[0]] += 1
            return self.rules[m[0]]["action"] == "PERMIT", m[0]
        self.implicit_hits += 1
        return self.implicit == "PERMIT", None
