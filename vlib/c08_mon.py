"""C08 run-time monitors: observe-only class-level wrappers installed in the check process (no source hooks).

* addressee monitor   — SoftwareManager.receive_payload_from_session_manager: a frame that is unicast at L2 and L3 is
                        handed to software only on a node owning frame.ip.dst_ip_address.
* TTL monitor         — every interface-level receive_frame / send_frame and every node-level receive_frame:
                        per frame object the observed TTL never increases; a processed reception is followed by a
                        strictly lower TTL at the next reception; nothing with TTL < 1 is sent or processed by a node;
                        a routing device sends a frame on with a TTL lower than the one it was handed.
* path monitor        — which routing devices forwarded each frame object, in order (compared by the caller with the
                        reference's best-route path when that is unambiguous).
* termination monitor — number of interface receive events per top-level operation (bounded by the caller).

A Recorder is active only while `Recorder.current` is set; otherwise the wrappers are transparent.
"""
from __future__ import annotations

from typing import Any, Dict, List, Optional, Tuple

BROADCAST = "ff:ff:ff:ff:ff:ff"


class Recorder:
    current: Optional["Recorder"] = None

    def __init__(self):
        self.viol: List[Tuple[str, str]] = []
        self.keep: List[Any] = []  # strong references so id(frame) stays unique during an operation
        self.last_ttl: Dict[int, int] = {}  # id(frame) -> TTL seen at the latest observation
        self.pending_lower: Dict[int, int] = {}  # id(frame) -> TTL at entry of the last processed reception
        self.rx_events = 0
        self.max_rx_per_frame = 0
        self.rx_per_frame: Dict[int, int] = {}
        self.node_events = 0
        self.max_node_rx_per_frame = 0
        self.node_rx_per_frame: Dict[int, int] = {}
        self.frames = 0
        self.min_ttl_seen = 64
        self.ttl_drops = 0
        self.route_stack: List[Tuple[Any, int, int]] = []
        self.fwd_path: Dict[int, Tuple[str, List[str]]] = {}  # id(frame) -> (dst ip, routing devices that sent it on)
        self.handed: List[Tuple[str, str]] = []  # (node, dst ip) of unicast frames handed to software
        self.misdelivered: List[Tuple[str, str, str, str, str]] = []  # (node, mac-match|mac-mismatch, kind, proto, msg)
        self.max_depth = 0

    def begin_op(self):
        self.keep.clear()
        self.last_ttl.clear()
        self.pending_lower.clear()
        self.rx_per_frame.clear()
        self.node_rx_per_frame.clear()
        self.rx_events = 0
        self.node_events = 0
        self.frames = 0
        self.fwd_path = {}
        self.handed = []
        self.misdelivered = []

    def v(self, sig: str, msg: str):
        if len(self.viol) < 50:
            self.viol.append((sig, msg))

    # -- observations -------------------------------------------------------------------------------------------------
    def _track(self, frame) -> int:
        fid = id(frame)
        if fid not in self.last_ttl:
            self.keep.append(frame)
            self.frames += 1
        return fid

    def see_ttl(self, frame, where: str):
        if frame.ip is None:
            return
        fid = self._track(frame)
        ttl = frame.ip.ttl
        prev = self.last_ttl.get(fid)
        if prev is not None and ttl > prev:
            self.v("ttl-increased", f"{where}: TTL of one frame went {prev} -> {ttl}")
        self.last_ttl[fid] = ttl
        if ttl < self.min_ttl_seen:
            self.min_ttl_seen = ttl


def _kind(node) -> str:
    return type(node).__name__.lower()


_INSTALLED = False


def install():
    """Wrap the classes of the tree under test (whichever tree `primaite` was imported from). Idempotent."""
    global _INSTALLED
    if _INSTALLED:
        return
    _INSTALLED = True
    from primaite.simulator.network.airspace import WirelessNetworkInterface
    from primaite.simulator.network.hardware.base import WiredNetworkInterface
    from primaite.simulator.network.hardware.nodes.host.host_node import HostNode, NIC
    from primaite.simulator.network.hardware.nodes.network.firewall import Firewall
    from primaite.simulator.network.hardware.nodes.network.router import Router, RouterInterface
    from primaite.simulator.network.hardware.nodes.network.switch import Switch, SwitchPort
    from primaite.simulator.network.hardware.nodes.network.wireless_router import WirelessAccessPoint
    from primaite.simulator.system.core.software_manager import SoftwareManager

    # ---- interface-level receive_frame
    def wrap_if_rx(cls):
        orig = cls.__dict__["receive_frame"]

        def receive_frame(self, frame):
            rec = Recorder.current
            if rec is None or frame.ip is None:
                return orig(self, frame)
            rec.see_ttl(frame, f"rx {_kind(self._connected_node)}")
            fid = id(frame)
            ttl_in = frame.ip.ttl
            pend = rec.pending_lower.pop(fid, None)
            if pend is not None and not ttl_in < pend:
                rec.v("ttl-not-lowered-by-hop",
                      f"frame processed by an interface at TTL {pend} reaches the next interface at TTL {ttl_in}")
            rec.rx_events += 1
            c = rec.rx_per_frame.get(fid, 0) + 1
            rec.rx_per_frame[fid] = c
            if c > rec.max_rx_per_frame:
                rec.max_rx_per_frame = c
            enabled = bool(self.enabled)
            if enabled:
                rec.pending_lower[fid] = ttl_in
                if ttl_in <= 1:
                    rec.ttl_drops += 1
            return orig(self, frame)

        cls.receive_frame = receive_frame

    for c in (NIC, SwitchPort, RouterInterface, WirelessAccessPoint):
        wrap_if_rx(c)

    # ---- interface-level send_frame
    def wrap_if_tx(cls):
        orig = cls.__dict__["send_frame"]

        def send_frame(self, frame):
            rec = Recorder.current
            if rec is None or frame.ip is None:
                return orig(self, frame)
            rec.see_ttl(frame, f"tx {_kind(self._connected_node)}")
            node = self._connected_node
            for rnode, fid, ttl_in in reversed(rec.route_stack):
                if fid == id(frame) and rnode is node:
                    if self.enabled:
                        # the routing device forwards this frame: part of the frame's path
                        rec.fwd_path.setdefault(fid, (str(frame.ip.dst_ip_address), []))[1].append(
                            node.config.hostname)
                    if self.enabled and not frame.ip.ttl < ttl_in:
                        rec.v("ttl-not-lowered-by-routing",
                              f"{_kind(node)} was handed a frame at TTL {ttl_in} and forwards it at TTL {frame.ip.ttl}")
                    break
            return orig(self, frame)

        cls.send_frame = send_frame

    for c in (WiredNetworkInterface, SwitchPort, WirelessNetworkInterface):
        wrap_if_tx(c)

    # ---- node-level receive_frame
    def wrap_node_rx(cls, routing: bool):
        orig = cls.__dict__["receive_frame"]

        def receive_frame(self, frame, from_network_interface):
            rec = Recorder.current
            if rec is None or frame.ip is None:
                return orig(self, frame, from_network_interface)
            if frame.ip.ttl < 1:
                rec.v("exhausted-ttl-processed", f"{_kind(self)} processes a frame with TTL {frame.ip.ttl}")
            rec.node_events += 1
            c = rec.node_rx_per_frame.get(id(frame), 0) + 1
            rec.node_rx_per_frame[id(frame)] = c
            if c > rec.max_node_rx_per_frame:
                rec.max_node_rx_per_frame = c
            if not routing:
                return orig(self, frame, from_network_interface)
            rec.route_stack.append((self, id(frame), frame.ip.ttl))
            try:
                return orig(self, frame, from_network_interface)
            finally:
                rec.route_stack.pop()

        cls.receive_frame = receive_frame

    wrap_node_rx(HostNode, False)
    wrap_node_rx(Switch, False)
    wrap_node_rx(Router, True)
    wrap_node_rx(Firewall, True)

    # ---- addressee monitor
    orig_rp = SoftwareManager.__dict__["receive_payload_from_session_manager"]

    def receive_payload_from_session_manager(self, *args, **kwargs):
        rec = Recorder.current
        if rec is not None:
            frame = kwargs.get("frame") if "frame" in kwargs else (args[5] if len(args) > 5 else None)
            nic = kwargs.get("from_network_interface") if "from_network_interface" in kwargs else (
                args[4] if len(args) > 4 else None)
            if frame is not None and frame.ip is not None:
                dst_mac = str(frame.ethernet.dst_mac_addr).lower()
                dst = frame.ip.dst_ip_address
                node = self.node
                l3_bcast = str(dst) == "255.255.255.255" or (
                    nic is not None and hasattr(nic, "ip_network") and dst == nic.ip_network.broadcast_address)
                if dst_mac != BROADCAST and not l3_bcast:
                    owned = [ni.ip_address for ni in node.network_interfaces.values() if hasattr(ni, "ip_address")]
                    rec.handed.append((node.config.hostname, str(dst)))
                    if dst not in owned:
                        proto = str(frame.ip.protocol)
                        macs = [str(ni.mac_address).lower() for ni in node.network_interfaces.values()]
                        how = "mac-match" if dst_mac in macs else "mac-mismatch"
                        rec.misdelivered.append((
                            node.config.hostname, how, _kind(node), proto,
                            f"{node.config.hostname} (owns {[str(i) for i in owned]}) was handed a unicast "
                            f"{proto} frame addressed to {dst}"))
        return orig_rp(self, *args, **kwargs)

    SoftwareManager.receive_payload_from_session_manager = receive_payload_from_session_manager
