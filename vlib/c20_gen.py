"""C20 generator: gen_scenario spec + a list of *tweaks* (small edits of the scenario dict, the ddmin unit).

Every tweak writes keys that docs/source/configuration/** or the shipped scenario files use, with values inside the
documented domain. Indexes are taken modulo the number of candidates, so a tweak is always applicable (or a no-op when
the scenario has no candidate at all).
"""
from __future__ import annotations

from typing import Any, Dict, List

from hypothesis import strategies as st

HOST_T = ("computer", "server")
STATES = ["ON", "OFF", "OFF", "BOOTING", "SHUTTING_DOWN"]
PORT_NAMES = ["HTTP", "DNS", "FTP", "SSH", "NTP", "POSTGRES_SERVER", "SMB", "ARP"]
PROTO = ["TCP", "UDP", "ICMP"]
DEFAULT_KEYS = ["node_start_up_duration", "node_shut_down_duration", "node_scan_duration", "folder_scan_duration",
                "folder_restore_duration", "service_fix_duration", "service_restart_duration"]
FW_LISTS = ["internal_inbound_acl", "internal_outbound_acl", "dmz_inbound_acl", "dmz_outbound_acl",
            "external_inbound_acl", "external_outbound_acl"]
FILE_TYPES = ["TXT", "PDF", "DOCX", "DB", "ZIP", "UNKNOWN"]

# (software kind, type, option, values)
SW_OPTIONS = [
    ("services", "dns-client", "dns_server", ["192.168.10.2", "10.9.9.9"]),
    ("services", "ftp-server", "server_password", ["secret", "pw"]),
    ("services", "database-service", "db_password", ["dbpw"]),
    ("services", "database-service", "backup_server_ip", ["192.168.10.3"]),
    ("services", "ntp-client", "ntp_server_ip", ["192.168.10.2"]),
    ("services", "dns-server", "domain_mapping", [{"a.com": "192.168.10.2", "b.org": "192.168.11.2"}]),
    ("applications", "web-browser", "target_url", ["http://a.com/", "b.org"]),
    ("applications", "database-client", "db_server_ip", ["192.168.10.2"]),
    ("applications", "database-client", "server_password", ["dbpw"]),
    ("applications", "dos-bot", "target_port", ["HTTP", 5432, "DNS"]),
    ("applications", "dos-bot", "repeat", [True, False]),
    ("applications", "dos-bot", "dos_intensity", [0.5, 1.0]),
    ("applications", "dos-bot", "max_sessions", [5, 1000]),
    ("applications", "dos-bot", "payload", ["SPOOF DATA"]),
    ("applications", "dos-bot", "port_scan_p_of_success", [0.0, 1.0]),
    ("applications", "dos-bot", "target_ip_address", ["192.168.10.2"]),
    ("applications", "data-manipulation-bot", "payload", ["DELETE", "ENCRYPT"]),
    ("applications", "data-manipulation-bot", "server_password", ["dbpw"]),
    ("applications", "data-manipulation-bot", "port_scan_p_of_success", [1.0, 0.25]),
    ("applications", "data-manipulation-bot", "data_manipulation_p_of_success", [1.0, 0.5]),
    ("applications", "ransomware-script", "server_ip", ["192.168.10.2"]),
    ("applications", "c2-beacon", "keep_alive_frequency", [1, 7]),
    ("applications", "c2-beacon", "masquerade_protocol", ["TCP", "UDP"]),
    ("applications", "c2-beacon", "masquerade_port", ["HTTP", "DNS", "FTP"]),
    ("applications", "c2-beacon", "c2_server_ip_address", ["192.168.10.2"]),
]
ADD_SW = [("services", "dns-client"), ("services", "ntp-client"), ("services", "ftp-client"), ("services", "web-server"),
          ("services", "ftp-server"), ("services", "ntp-server"), ("services", "dns-server"),
          ("services", "database-service"), ("applications", "web-browser"), ("applications", "nmap"),
          ("applications", "database-client"), ("applications", "dos-bot"), ("applications", "c2-server"),
          ("applications", "c2-beacon"), ("applications", "ransomware-script"),
          ("applications", "data-manipulation-bot")]


def tweak_strategy():
    i = st.integers(0, 7)
    small = st.integers(0, 5)
    ipv = st.sampled_from(["192.168.10.2", "192.168.11.2", "192.168.12.2", "10.0.0.9", "172.16.5.0"])
    wc = st.sampled_from([None, "0.0.0.255", "0.0.0.3"])
    portn = st.sampled_from([None] + PORT_NAMES)
    rule = st.fixed_dictionaries({
        "action": st.sampled_from(["PERMIT", "DENY"]),
        "protocol": st.sampled_from([None] + PROTO),
        "src_ip": st.one_of(st.none(), ipv), "src_wildcard_mask": wc,
        "dst_ip": st.one_of(st.none(), ipv), "dst_wildcard_mask": wc,
        "src_port": portn, "dst_port": portn,
    })
    return st.one_of(
        st.tuples(st.just("fixing_duration"), i, i, small),
        # not ARP: it is the simulator's layer-2 pseudo port; software listening there is handed raw ARP packets, which
        # only the ARP service can parse (DatabaseService.receive answers them -> AttributeError in the peer's ARP; that
        # is payload handling, C13's subject, see C20-NOTES "observations outside C20")
        st.tuples(st.just("listen_on_ports"), i, i,
                  st.lists(st.one_of(st.sampled_from([p for p in PORT_NAMES if p != "ARP"]),
                                     st.sampled_from([631, 8080, 445])), min_size=1, max_size=3)),
        st.tuples(st.just("defaults"), st.sampled_from(DEFAULT_KEYS + ["folder_scan_duration", "folder_restore_duration"]),
                  st.sampled_from([0, 0, 1, 2, 5]), st.sampled_from(["top", "top", "simulation"])),
        st.tuples(st.just("acl_rule"), i, st.integers(0, 5), st.integers(0, 23), rule),
        st.tuples(st.just("route"), i, ipv, st.sampled_from([None, "255.255.255.0", "255.255.255.240"]), ipv,
                  st.sampled_from([None, 0, 1.5, 7, 2])),
        st.tuples(st.just("default_route"), i, ipv),
        st.tuples(st.just("bandwidth"), i, st.sampled_from([1, 10, 100, 250.5, 1000, 0.05])),
        st.tuples(st.just("operating_state"), st.integers(0, 15), st.sampled_from(STATES)),
        st.tuples(st.just("file"), i, st.sampled_from(["docs", "root", "downloads"]),
                  st.sampled_from(["a.txt", "notes", "b.pdf", "db.db"]), st.sampled_from([None, 0, 69, 1024]),
                  st.sampled_from([None] + FILE_TYPES)),
        st.tuples(st.just("folder"), i, st.sampled_from(["empty_folder", "docs", "downloads"])),
        st.tuples(st.just("user"), st.integers(0, 15), st.sampled_from(["jane.doe", "john", "u0"]),
                  st.sampled_from(["1234", "password_1"]), st.sampled_from([None, True, False])),
        # only the two lists the docs mark "Optional" (firewall.rst); the docs admit the reading that the other four
        # are required whenever an acl: block is present
        st.tuples(st.just("fw_acl_drop"), st.sampled_from(["external_inbound_acl", "external_outbound_acl"])),
        st.tuples(st.just("drop_mask"), i),
        st.tuples(st.just("extra_nic"), i, st.sampled_from(["192.168.50.7", "10.1.1.1"]),
                  st.sampled_from([None, "255.255.255.0", "255.255.0.0"])),
        st.tuples(st.just("second_nic_link"), i, st.booleans()),
        st.tuples(st.just("links_order"), st.sampled_from(["reverse", "rotate", "hosts_first"])),
        st.tuples(st.just("sw_option"), i, st.integers(0, len(SW_OPTIONS) - 1), st.integers(0, 3)),
        st.tuples(st.just("add_sw"), i, st.integers(0, len(ADD_SW) - 1)),
        st.tuples(st.just("num_ports"), i, st.sampled_from([4, 8, 12, 24])),
        st.tuples(st.just("drop_durations"), st.integers(0, 15)),
        # 1-23 PCs: one edge switch; 24-46: two edge switches + core switch; 47+: three
        st.tuples(st.just("node_set"), st.sampled_from([1, 2, 3, 4, 8, 23, 24, 30, 50]), st.booleans(),
                  st.sampled_from([None, 10, 40, 150])),
    ).map(list)


def _nodes(cfg) -> List[Dict]:
    return cfg["simulation"]["network"]["nodes"]


def _pick(lst: List, i: int):
    return lst[i % len(lst)] if lst else None


def _sw_list(cfg, host_i: int, sw_j: int):
    hosts = [n for n in _nodes(cfg) if n["type"] in HOST_T]
    with_sw = [n for n in hosts if n.get("services") or n.get("applications")]
    n = _pick(with_sw, host_i)
    if n is None:
        return None
    allsw = list(n.get("services") or []) + list(n.get("applications") or [])
    return _pick(allsw, sw_j)


def apply_tweak(cfg: Dict, tw: List) -> None:
    k = tw[0]
    nodes = _nodes(cfg)
    hosts = [n for n in nodes if n["type"] in HOST_T]
    routers = [n for n in nodes if n["type"] == "router"]
    firewalls = [n for n in nodes if n["type"] == "firewall"]
    l3 = routers + firewalls
    if k == "fixing_duration":
        s = _sw_list(cfg, tw[1], tw[2])
        if s is not None:
            s.setdefault("options", {})["fixing_duration"] = tw[3]
    elif k == "listen_on_ports":
        s = _sw_list(cfg, tw[1], tw[2])
        if s is not None:
            s.setdefault("options", {})["listen_on_ports"] = list(tw[3])
    elif k == "defaults":
        if tw[3] == "simulation" and "defaults" not in cfg:
            cfg["simulation"].setdefault("defaults", {})[tw[1]] = tw[2]
        elif "defaults" not in cfg["simulation"]:
            cfg.setdefault("defaults", {})[tw[1]] = tw[2]
    elif k == "acl_rule":
        n = _pick(l3, tw[1])
        if n is not None:
            rule = {a: b for a, b in tw[4].items() if b is not None}
            if n["type"] == "firewall":
                n.setdefault("acl", {}).setdefault(FW_LISTS[tw[2] % 6], {})[tw[3]] = rule
            else:
                n.setdefault("acl", {})[tw[3]] = rule
    elif k == "route":
        n = _pick(l3, tw[1])
        if n is not None:
            r = {"address": tw[2], "next_hop_ip_address": tw[4]}
            if tw[3] is not None:
                r["subnet_mask"] = tw[3]
            if tw[5] is not None:
                r["metric"] = tw[5]
            n.setdefault("routes", []).append(r)
    elif k == "default_route":
        n = _pick(l3, tw[1])
        if n is not None:
            n["default_route"] = {"next_hop_ip_address": tw[2]}
    elif k == "bandwidth":
        l = _pick(cfg["simulation"]["network"]["links"], tw[1])
        if l is not None:
            l["bandwidth"] = tw[2]
    elif k == "operating_state":
        n = _pick(nodes, tw[1])
        n["operating_state"] = tw[2]
    elif k == "file":
        n = _pick(hosts, tw[1])
        if n is not None:
            fl = n.setdefault("folders", [])
            fo = next((f for f in fl if f["folder_name"] == tw[2]), None)
            if fo is None:
                fo = {"folder_name": tw[2]}
                fl.append(fo)
            files = fo.setdefault("files", [])
            if not any(f["file_name"] == tw[3] for f in files):
                f = {"file_name": tw[3]}
                if tw[4] is not None:
                    f["size"] = tw[4]
                ext = tw[3].rsplit(".", 1)[1].upper() if "." in tw[3] else None
                if tw[5] is not None and (ext is None or ext == tw[5]):  # never a type that contradicts the extension
                    f["type"] = tw[5]
                files.append(f)
    elif k == "folder":
        n = _pick(hosts, tw[1])
        if n is not None:
            fl = n.setdefault("folders", [])
            if not any(f["folder_name"] == tw[2] for f in fl):
                fl.append({"folder_name": tw[2]})
    elif k == "user":
        cands = [n for n in nodes if n["type"] != "switch"]
        n = _pick(cands, tw[1])
        if n is not None:
            ul = n.setdefault("users", [])
            if not any(u["username"] == tw[2] for u in ul):
                u = {"username": tw[2], "password": tw[3]}
                if tw[4] is not None:
                    u["is_admin"] = tw[4]
                ul.append(u)
    elif k == "fw_acl_drop":
        for n in firewalls:
            (n.get("acl") or {}).pop(tw[1], None)
    elif k == "drop_mask":
        cands = hosts + routers
        n = _pick(cands, tw[1])
        if n is not None:
            if n["type"] in HOST_T:
                if n.get("subnet_mask") == "255.255.255.0":
                    n.pop("subnet_mask")
            else:
                for pc in (n.get("ports") or {}).values():
                    if pc.get("subnet_mask") == "255.255.255.0":
                        pc.pop("subnet_mask")
    elif k == "extra_nic":
        n = _pick(hosts, tw[1])
        if n is not None and "network_interfaces" not in n:
            nic = {"ip_address": tw[2]}
            nic["subnet_mask"] = tw[3] or "255.255.255.0"
            n["network_interfaces"] = {2: nic}
    elif k == "second_nic_link":
        # a multi-homed host: second NIC in its own subnet, wired to a free port of the host's switch; the new link is
        # listed first or last (list order is semantic, both are well-formed scenarios)
        n = _pick(hosts, tw[1])
        links = cfg["simulation"]["network"]["links"]
        if n is not None and "network_interfaces" not in n:
            mine = [l for l in links if l["endpoint_b_hostname"] == n["hostname"]]
            if mine:
                sw = mine[0]["endpoint_a_hostname"]
                used = {l["endpoint_a_port"] for l in links if l["endpoint_a_hostname"] == sw} | {
                    l["endpoint_b_port"] for l in links if l["endpoint_b_hostname"] == sw}
                free = [p for p in range(1, 9) if p not in used]
                if free:
                    n["network_interfaces"] = {2: {"ip_address": f"10.77.{len(links)}.2", "subnet_mask": "255.255.255.0"}}
                    new = {"endpoint_a_hostname": sw, "endpoint_a_port": free[-1], "endpoint_b_hostname": n["hostname"],
                           "endpoint_b_port": 2}
                    if tw[2]:
                        links.insert(0, new)
                    else:
                        links.append(new)
    elif k == "links_order":
        links = cfg["simulation"]["network"]["links"]
        if tw[1] == "reverse":
            links.reverse()
        elif tw[1] == "rotate" and links:
            links.append(links.pop(0))
        else:
            hostnames = {n["hostname"] for n in hosts}
            links.sort(key=lambda l: 0 if (l["endpoint_a_hostname"] in hostnames or l["endpoint_b_hostname"] in hostnames) else 1)
    elif k == "sw_option":
        kind, typ, opt, vals = SW_OPTIONS[tw[2] % len(SW_OPTIONS)]
        n = _pick(hosts, tw[1])
        if n is not None:
            lst = n.setdefault(kind, [])
            s = next((x for x in lst if x["type"] == typ), None)
            if s is None:
                s = {"type": typ}
                lst.append(s)
            s.setdefault("options", {})[opt] = vals[tw[3] % len(vals)]
    elif k == "add_sw":
        kind, typ = ADD_SW[tw[2] % len(ADD_SW)]
        n = _pick(hosts, tw[1])
        if n is not None:
            lst = n.setdefault(kind, [])
            if not any(x["type"] == typ for x in lst):
                lst.append({"type": typ})
    elif k == "num_ports":
        sw = [n for n in nodes if n["type"] == "switch"]
        n = _pick(sw, tw[1])
        if n is not None and tw[2] >= 8:
            n["num_ports"] = tw[2]
    elif k == "drop_durations":
        n = _pick(nodes, tw[1])
        n.pop("start_up_duration", None)
        n.pop("shut_down_duration", None)
    elif k == "node_set":
        ns = {"type": "office-lan", "lan_name": f"LAN{len(cfg['simulation']['network'].get('node_sets', []))}",
              "subnet_base": 60 + len(cfg["simulation"]["network"].get("node_sets", [])), "pcs_ip_block_start": 10,
              "num_pcs": tw[1], "include_router": tw[2]}
        if tw[3] is not None:
            ns["bandwidth"] = tw[3]
        cfg["simulation"]["network"].setdefault("node_sets", []).append(ns)
    else:
        raise ValueError(tw)


def build(spec: Dict, tweaks: List[List]) -> Dict:
    from . import gen_scenario

    cfg, _meta = gen_scenario.build(spec)
    for tw in tweaks:
        apply_tweak(cfg, tw)
    return cfg


RAISING_TWEAKS = {
    "C20-defaults-startup-key-typo": lambda tw: tw[0] == "defaults" and tw[1] == "node_start_up_duration" and tw[3] == "top",
    "C20-office-lan-without-router-crashes": lambda tw: tw[0] == "node_set" and tw[2] is False,
    "C20-multihomed-link-order-recursion": lambda tw: tw[0] == "second_nic_link" and tw[2] is True,
}


# ---------------------------------------------------------------------------------------------------------------------
# bounded-exhaustive part: every tweak of a fixed alphabet, alone, on one rich scenario of each family


def _h(kind, sw, **kw):
    d = {"kind": kind, "sw": sorted(sw), "up": 0, "down": 0, "off": False, "users": 1, "files": 1}
    d.update(kw)
    return d


_OBS = {"num_services": 1, "num_applications": 1, "num_folders": 1, "num_files": 1, "num_nics": 1, "include_nmne": False,
        "include_num_access": False, "include_users": False, "fs_scan": False, "svc_scan": False, "app_scan": False,
        "traffic": False, "num_rules": 2, "num_ports": 1, "links": True, "missing": False, "flatten": False,
        "masking": False, "ip_list_full": True}
_AG = {"green": 1, "red": "none", "red_start": 0, "red_freq": 1, "extra_blue": False, "thresholds": False}


def base_spec(family: str) -> Dict:
    srv = _h("server", ["db", "web", "dns", "ftp"])
    cli = _h("computer", ["dbc", "dos", "c2b", "dmbot"])
    srv2 = _h("server", ["ntp", "ftp"])
    zones = {"LAN": [[srv, cli, srv2]], "ROUTED": [[srv, cli], [srv2]], "DMZ": [[srv], [srv2], [cli]]}[family]
    return {"family": family, "zones": zones, "routes": "default", "mask": 24, "bw": None, "net_dev_up": 0, "nmne": None,
            "max_len": 8, "seed": 1, "obs": dict(_OBS), "agents": dict(_AG), "acl_deny": True, "defaults": None}


_RULE = {"action": "DENY", "protocol": "TCP", "src_ip": "192.168.10.2", "src_wildcard_mask": "0.0.0.3",
         "dst_ip": "192.168.11.2", "dst_wildcard_mask": None, "src_port": "HTTP", "dst_port": "POSTGRES_SERVER"}
ALPHABET: List[List] = (
    [["fixing_duration", h, j, 4] for h in range(3) for j in range(3)]
    + [["listen_on_ports", h, j, ["SMB", 631]] for h in range(3) for j in (0, 3)]
    + [["defaults", k, v, w] for k in DEFAULT_KEYS for v in (0, 1, 2, 5) for w in ("top", "simulation")]
    + [["acl_rule", r, l, pos, dict(_RULE)] for r in (0, 1) for l in range(6) for pos in (0, 1, 23)]
    + [["route", r, "172.16.5.0", m, "192.168.10.2", me] for r in (0, 1) for m in (None, "255.255.255.240") for me in (None, 7, 1.5)]
    + [["default_route", r, "10.0.0.9"] for r in (0, 1)]
    + [["bandwidth", l, bw] for l in range(5) for bw in (10, 250.5)]
    + [["operating_state", n, st_] for n in range(9) for st_ in ("OFF", "BOOTING", "SHUTTING_DOWN")]
    + [["file", h, "docs", "notes", 69, "TXT"] for h in range(3)] + [["file", 0, "downloads", "b.pdf", 1024, None]]
    + [["folder", h, "empty_folder"] for h in range(3)]
    + [["user", n, "jane.doe", "1234", adm] for n in range(7) for adm in (None, True)]
    + [["fw_acl_drop", "external_inbound_acl"], ["fw_acl_drop", "external_outbound_acl"]]
    + [["drop_mask", n] for n in range(5)]
    + [["extra_nic", h, "10.1.1.1", m] for h in range(3) for m in (None, "255.255.0.0")]
    + [["second_nic_link", h, False] for h in range(3)]
    + [["links_order", o] for o in ("reverse", "rotate", "hosts_first")]
    + [["sw_option", h, o, v] for h in (0, 1) for o in range(len(SW_OPTIONS)) for v in (0, 1)]
    + [["add_sw", h, a] for h in (0, 1) for a in range(len(ADD_SW))]
    + [["num_ports", 0, 12], ["num_ports", 1, 24]]
    + [["drop_durations", n] for n in range(9)]
    + [["node_set", n, r, bw] for n in (2, 8, 23, 24, 30, 50) for r in (True, False) for bw in (None, 40, 150)]
)

# combinations whose members only matter together
PAIRS: List[List[List]] = (
    [[["defaults", "service_fix_duration", 1, "top"], ["fixing_duration", h, j, 4]] for h in range(3) for j in range(2)]
    + [[["defaults", k, 1, "top"], ["drop_durations", n]] for k in ("node_shut_down_duration",) for n in range(9)]
    + [[["defaults", k, 2, "simulation"]] + [["drop_durations", n] for n in range(9)] for k in DEFAULT_KEYS]
    + [[["defaults", "folder_scan_duration", 2, "top"], ["folder", h, "empty_folder"]] for h in range(3)]
    + [[["extra_nic", h, "10.1.1.1", None], ["operating_state", n, "OFF"]] for h in range(2) for n in range(4)]
    + [[["add_sw", h, a], ["sw_option", h, o, 0]] for h in (0, 1) for a in (0, 8) for o in (0, 6)]
)
