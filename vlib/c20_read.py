"""Inventory read from the built PrimaiteGame object graph (same keys as ref_config.derive). Observe-only."""
from __future__ import annotations

from typing import Any, Dict

from .ref_config import ip


def _enum_name(x):
    return getattr(x, "name", x)


def _ports(x):
    return sorted(int(p) for p in (x or ()))


# software name -> {option: getter(software)}; the getters read the attribute the software USES at run time where the
# class copies the option out of its config (ref: class bodies in src/primaite/simulator/system/**)
def _opt_getters(name: str):
    cfg = lambda a: (lambda s: getattr(s.config, a))  # noqa: E731
    att = lambda a: (lambda s: getattr(s, a))  # noqa: E731
    table = {
        "database-service": {"backup_server_ip": att("backup_server_ip"), "db_password": att("password")},
        "dns-client": {"dns_server": att("dns_server")},
        "dns-server": {"domain_mapping": att("dns_table")},
        "ftp-server": {"server_password": att("server_password")},
        "ntp-client": {"ntp_server_ip": att("ntp_server")},
        "web-browser": {"target_url": cfg("target_url")},
        "database-client": {"db_server_ip": att("server_ip_address"), "server_password": att("server_password")},
        "data-manipulation-bot": {"server_ip": att("server_ip_address"), "server_password": att("server_password"),
                                  "payload": att("payload"), "port_scan_p_of_success": att("port_scan_p_of_success"),
                                  "data_manipulation_p_of_success": att("data_manipulation_p_of_success"),
                                  "repeat": att("repeat")},
        "ransomware-script": {"server_ip": att("server_ip_address"), "server_password": att("server_password"),
                              "payload": att("payload")},
        "dos-bot": {"target_ip_address": att("target_ip_address"), "target_port": att("target_port"),
                    "payload": att("payload"), "repeat": att("repeat"),
                    "port_scan_p_of_success": att("port_scan_p_of_success"), "dos_intensity": att("dos_intensity"),
                    "max_sessions": att("max_sessions")},
        "c2-beacon": {"c2_server_ip_address": cfg("c2_server_ip_address"),
                      "keep_alive_frequency": cfg("keep_alive_frequency"),
                      "masquerade_protocol": cfg("masquerade_protocol"), "masquerade_port": cfg("masquerade_port")},
    }
    return table.get(name, {})


def _norm(v: Any) -> Any:
    import ipaddress

    if v is None or isinstance(v, (bool, int, str)):
        return v
    if isinstance(v, float):
        return round(v, 9)
    if isinstance(v, (ipaddress.IPv4Address,)):
        return str(v)
    if isinstance(v, dict):
        return {str(k): _norm(x) for k, x in v.items()}
    if hasattr(v, "name") and hasattr(v, "value"):
        return v.name
    return str(v)


def rule_tuple(r) -> tuple:
    return (
        _enum_name(r.action),
        r.protocol,
        ip(r.src_ip_address),
        ip(r.src_wildcard_mask),
        ip(r.dst_ip_address),
        ip(r.dst_wildcard_mask),
        None if r.src_port is None else int(r.src_port),
        None if r.dst_port is None else int(r.dst_port),
    )


def read(game) -> Dict[tuple, Any]:
    from primaite.simulator.network.hardware.nodes.host.host_node import HostNode
    from primaite.simulator.network.hardware.nodes.network.firewall import Firewall
    from primaite.simulator.network.hardware.nodes.network.router import Router
    from primaite.simulator.system.applications.application import Application

    out: Dict[tuple, Any] = {}
    net = game.simulation.network
    hostnames = [n.config.hostname for n in net.nodes.values()]
    for node in net.nodes.values():
        h = node.config.hostname
        if hostnames.count(h) > 1:
            out[("dupnode", h)] = hostnames.count(h)
        out[("node", h)] = getattr(type(node), "_discriminator", type(node).__name__)
        out[("state", h)] = node.operating_state.name
        out[("dur", h, "start_up")] = int(node.config.start_up_duration)
        out[("dur", h, "shut_down")] = int(node.config.shut_down_duration)
        out[("dur", h, "node_scan")] = int(node.config.node_scan_duration)
        out[("ifcount", h)] = len(node.network_interface)
        if len(node.network_interfaces) != len(node.network_interface):
            out[("ifcount-disagree", h)] = (len(node.network_interfaces), len(node.network_interface))
        for pn, ni in node.network_interface.items():
            if hasattr(ni, "ip_address"):
                out[("if", h, int(pn))] = (ip(ni.ip_address), ip(ni.subnet_mask))
            else:
                out[("if", h, int(pn))] = "l2"
        if isinstance(node, HostNode):
            out[("gw", h)] = ip(node.config.default_gateway)
            out[("dns", h)] = ip(node.config.dns_server)
        if isinstance(node, Router):
            routes: Dict[tuple, list] = {}
            for r in node.route_table.routes:
                k = ("route", h, ip(r.address), ip(r.subnet_mask), ip(r.next_hop_ip_address))
                routes.setdefault(k, []).append(round(float(r.metric), 9))
            for k, ms in routes.items():
                out[k] = sorted(ms)
            dr = node.route_table.default_route
            out[("defroute", h)] = ip(dr.next_hop_ip_address) if dr is not None else None
            if isinstance(node, Firewall):
                for ln in ("internal_inbound_acl", "internal_outbound_acl", "dmz_inbound_acl", "dmz_outbound_acl",
                           "external_inbound_acl", "external_outbound_acl"):
                    for pos, r in enumerate(getattr(node, ln).acl):
                        if r is not None:
                            out[("acl", h, ln, pos)] = rule_tuple(r)
            else:
                for pos, r in enumerate(node.acl.acl):
                    if r is not None:
                        out[("acl", h, "acl", pos)] = rule_tuple(r)
            wap = getattr(node, "wireless_access_point", None)
            if wap is not None and hasattr(wap, "frequency"):
                out[("wifi", h)] = getattr(wap.frequency, "name", str(wap.frequency))

        # software: every instance held by the node (node.services / node.applications), by name
        insts: Dict[str, list] = {}
        for s in list(node.services.values()) + list(node.applications.values()):
            insts.setdefault(s.name, []).append(s)
        for name, lst in insts.items():
            out[("swcount", h, name)] = len(lst)
            routed = node.software_manager.software.get(name)
            s = routed if routed is not None else lst[0]
            if routed is None:
                out[("sw-unrouted", h, name)] = True
            out[("sw", h, name)] = "application" if isinstance(s, Application) else "service"
            out[("swopt", h, name, "fixing_duration")] = int(s.config.fixing_duration)
            out[("swopt", h, name, "listen_on_ports")] = _ports(getattr(s, "listen_on_ports", ()))
            for o, get in _opt_getters(name).items():
                out[("swopt", h, name, o)] = _norm(get(s))
            if hasattr(s, "restart_duration"):
                out[("swdur", h, name, "restart")] = int(s.restart_duration)
        for name in node.software_manager.software:
            if name not in insts:
                out[("sw-not-on-node", h, name)] = True

        um = node.software_manager.software.get("user-manager")
        if um is not None:
            for uname, u in um.users.items():
                out[("user", h, str(uname))] = (str(u.password), bool(u.is_admin))

        fs = node.file_system
        for fo in fs.folders.values():
            out[("folder", h, fo.name)] = True
            out[("folderdur", h, fo.name, "scan")] = int(fo.scan_duration)
            out[("folderdur", h, fo.name, "restore")] = int(fo.restore_duration)
            for fi in fo.files.values():
                out[("file", h, fo.name, fi.name)] = (int(fi.sim_size or 0), _enum_name(fi.file_type))

    # effective NMNE configuration: what the built interfaces use (class-level state set by the loader)
    seen = []
    for node in net.nodes.values():
        for ni in node.network_interfaces.values():
            d = ni.nmne_config.model_dump()
            if d not in seen:
                seen.append(d)
    if not seen:
        from primaite.simulator.network.hardware.base import NetworkInterface

        seen.append(NetworkInterface.nmne_config.model_dump())
    if len(seen) > 1:
        out[("nmne-disagree",)] = len(seen)
    for field, v in seen[0].items():
        out[("nmne", field)] = [str(x) for x in v] if isinstance(v, list) else bool(v)
    from primaite.game.agent.observations import NICObservation

    out[("nmne-obs",)] = bool(NICObservation.capture_nmne)
    for freq in list(net.airspace.frequencies):
        out[("airspace", freq)] = round(float(net.airspace.get_frequency_max_capacity_mbps(freq)), 6)

    for l in net.links.values():
        a, b = l.endpoint_a, l.endpoint_b
        e = sorted([(a.parent.config.hostname, int(a.port_num)), (b.parent.config.hostname, int(b.port_num))])
        k = ("link", e[0][0], e[0][1], e[1][0], e[1][1])
        if k in out:
            out[("duplink",) + k[1:]] = True
        out[k] = round(float(l.bandwidth), 9)

    for ref, ag in game.agents.items():
        out[("agent", ref)] = ag.config.type
        out[("agent", ref, "team")] = ag.config.team
        amap = ag.action_manager.action_map
        out[("agent", ref, "n_actions")] = len(amap)
        for i, ent in amap.items():
            out[("agent", ref, "action", int(i))] = str(ent[0])
        out[("agent", ref, "obs_type")] = ag.config.observation_space.type
        if ag.config.ref != ref:
            out[("agent-ref-disagree", ref)] = ag.config.ref
    return out
