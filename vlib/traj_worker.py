"""Child interpreter for C03/C04: run a batch of trajectory cases under one environment variant and dump digests.

usage: python -m vlib.traj_worker <batch.json> <out.json>
The variant (entropy stream, clock, logging) is in the batch file; PYTHONHASHSEED is fixed by the parent in the
child's environment (it can only be chosen at interpreter start).
"""
from __future__ import annotations

import hashlib
import json
import os
import sys
import traceback


def canon(x):
    import numpy as np

    if isinstance(x, dict):
        return {str(k): canon(v) for k, v in x.items()}
    if isinstance(x, (list, tuple)):
        return [canon(v) for v in x]
    if isinstance(x, np.ndarray):
        return [canon(v) for v in x.tolist()]
    if isinstance(x, (np.integer,)):
        return int(x)
    if isinstance(x, (np.floating, float)):
        return round(float(x), 9)
    if isinstance(x, (str, int, bool)) or x is None:
        return x
    return str(x)


def step_digest(obs, reward, game, norm_state):
    agents = {}
    for name, ag in game.agents.items():
        if ag.history:
            h = ag.history[-1]
            agents[name] = [h.action, canon(norm_state(h.parameters)), h.response.status, canon(norm_state(h.response.data)),
                            None if h.reward is None else round(float(h.reward), 9)]
    out = {"obs": canon(obs), "reward": round(float(reward), 9), "agents": agents}
    # the action mask a masking-enabled learning agent would be given now (part of what the environment tells a policy)
    for name in getattr(game, "rl_agents", {}):
        ag = game.agents.get(name)
        if ag is not None and getattr(ag.config.agent_settings, "action_masking", False):
            try:
                out.setdefault("masks", {})[name] = [int(x) for x in game.action_mask(name)]
            except Exception as e:
                out.setdefault("masks", {})[name] = f"raised {type(e).__name__}"
    return out


def run_one(case, variant):
    from . import entropy, envdrive, simutil

    ent = variant.get("entropy", {})
    entropy.reset(**ent)
    if case.get("no_logging") and variant.get("logging"):
        variant = {k: v for k, v in variant.items() if k != "logging"}  # too slow with DEBUG logs; hash seed still varies
    cfg, meta = envdrive.case_cfg(case)
    log_on = {"save_agent_actions": True, "save_step_metadata": False, "save_pcap_logs": True,
              "save_sys_logs": True, "save_agent_logs": True, "sys_log_level": "DEBUG",
              "agent_log_level": "DEBUG", "write_sys_log_to_terminal": False,
              "write_agent_log_to_terminal": False}
    if isinstance(cfg, str):
        # episode-scheduled scenario folder: work on a scratch copy whose base scenario gets an io_settings block
        # appended (a later duplicate top-level key wins in YAML), so the logging variant can differ from the base one
        import shutil
        import tempfile

        import yaml

        tmp = tempfile.mkdtemp(prefix="sched_", dir=os.environ.get("HOME", "/tmp"))
        dst = os.path.join(tmp, "scenario")
        shutil.copytree(cfg, dst)
        sched = yaml.safe_load(open(os.path.join(dst, "schedule.yaml")))
        base = os.path.join(dst, sched["base_scenario"])
        io = log_on if variant.get("logging") else dict(envdrive.IO_OFF)
        with open(base, "a") as f:
            f.write("\n\n" + yaml.safe_dump({"io_settings": io}))
        cfg = dst
        use_env = True
    else:
        if variant.get("logging"):
            cfg["io_settings"] = log_on
        if case.get("cfg_seed") is not None:
            cfg["game"]["seed"] = case["cfg_seed"]
        use_env = envdrive.has_proxy(cfg)
    out = {"episodes": [], "error": None}
    try:
        if case.get("rvc"):
            # reset-vs-construction in a pristine process: the FIRST environment constructed in this interpreter is
            # stepped without reset; a second one is reset(seed) first. Both must behave the same.
            import copy

            from primaite.session.environment import PrimaiteGymEnv

            acts = [op for op in envdrive.expand_ops(case["ops"], meta) if op[0] != "reset"]
            cfg["game"]["seed"] = case["seed"]
            for mode in ("construct", "reset"):
                entropy.reset(**ent)
                env = PrimaiteGymEnv(env_config=copy.deepcopy(cfg))
                cur = {"start": mode, "steps": []}
                if mode == "reset":
                    entropy.reset(**ent)
                    obs, _ = env.reset(seed=case["seed"])
                else:
                    obs = env._get_obs()
                cur["first_obs"] = canon(obs)
                out["episodes"].append(cur)
                for op in acts:
                    a = envdrive.resolve_action(op, env.action_space.n, meta)
                    obs, reward, term, trunc, info = env.step(a)
                    cur["steps"].append(step_digest(obs, reward, env.game, simutil.norm_state))
            return out
        if use_env:
            from primaite.session.environment import PrimaiteGymEnv

            env = PrimaiteGymEnv(env_config=cfg)
            cur = None
            if case.get("pre_reset_episode"):
                cur = {"start": "construct", "steps": []}
                out["episodes"].append(cur)
            for op in envdrive.expand_ops(case["ops"], meta):
                if op[0] == "reset":
                    obs, _ = env.reset(seed=op[1]) if op[1] is not None else env.reset()
                    cur = {"start": ["reset", op[1]], "first_obs": canon(obs), "steps": []}
                    out["episodes"].append(cur)
                    if (variant.get("state_digest") or case.get("state_digest")):
                        cur["state0"] = hashlib.sha1(json.dumps(canon(simutil.norm_state(env.game.simulation.describe_state())), sort_keys=True).encode()).hexdigest()
                    if variant.get("state_full0"):
                        cur["state_full0"] = canon(simutil.norm_state(env.game.simulation.describe_state()))
                else:
                    if cur is None:
                        cur = {"start": "construct", "steps": []}
                        out["episodes"].append(cur)
                    a = envdrive.resolve_action(op, env.action_space.n, meta)
                    obs, reward, term, trunc, info = env.step(a)
                    dg = step_digest(obs, reward, env.game, simutil.norm_state)
                    if (variant.get("state_digest") or case.get("state_digest")):
                        dg["state"] = hashlib.sha1(json.dumps(canon(simutil.norm_state(env.game.simulation.describe_state())), sort_keys=True).encode()).hexdigest()
                    cur["steps"].append(dg)
            env.close()
        else:
            # scripted-only scenario: documented loop is set_random_seed + PrimaiteGame.step()
            from primaite.game.game import PrimaiteGame
            from primaite.session.environment import set_random_seed

            for op in case["ops"]:
                if op[0] == "reset":
                    seed = op[1] if op[1] is not None else (cfg["game"].get("seed") or 0)
                    entropy.reset(**ent)
                    set_random_seed(seed, False)
                    import copy

                    game = PrimaiteGame.from_config(copy.deepcopy(cfg))
                    cur = {"start": ["reset", seed], "steps": []}
                    out["episodes"].append(cur)
                else:
                    game.step()
                    blue_r = 0.0
                    dg = step_digest(None, blue_r, game, simutil.norm_state)
                    dg["state"] = hashlib.sha1(json.dumps(canon(simutil.norm_state(game.simulation.describe_state())), sort_keys=True).encode()).hexdigest()
                    cur["steps"].append(dg)
    except Exception as e:
        out["error"] = {"sig": simutil.exc_sig(e), "msg": simutil.exc_msg(e), "tb": traceback.format_exc()[-1500:]}
    return out


def main():
    batch_path, out_path = sys.argv[1], sys.argv[2]
    with open(batch_path) as f:
        batch = json.load(f)
    work = os.environ.get("VERIF_CHILD_HOME")
    if work:
        os.makedirs(work, exist_ok=True)
        os.environ["HOME"] = work
        for k, v in (("XDG_DATA_HOME", ".local/share"), ("XDG_CONFIG_HOME", ".config"), ("XDG_STATE_HOME", ".local/state"),
                     ("XDG_CACHE_HOME", ".cache")):
            os.environ[k] = os.path.join(work, v)
    import logging
    import warnings

    warnings.filterwarnings("ignore")
    alt = os.environ.get("VERIF_REPO")
    if alt:
        sys.path.insert(0, os.path.join(alt, "src"))
    import primaite  # noqa: F401
    import primaite.game.game  # noqa: F401
    import primaite.session.environment  # noqa: F401

    from . import entropy

    variant = batch["variant"]
    if not variant.get("logging"):
        logging.disable(logging.CRITICAL)
    else:
        logging.getLogger().setLevel(logging.DEBUG)
        for h in logging.getLogger("primaite").handlers:
            if isinstance(h, logging.StreamHandler) and not isinstance(h, logging.FileHandler):
                h.setLevel(logging.CRITICAL)  # keep the terminal quiet; the file handler stays on DEBUG
    if not variant.get("real_entropy"):
        entropy.install()
    results = [run_one(c, variant) for c in batch["cases"]]
    with open(out_path, "w") as f:
        json.dump({"hashseed": os.environ.get("PYTHONHASHSEED"), "results": results}, f)


if __name__ == "__main__":
    main()
