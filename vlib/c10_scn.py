"""C10 scenario builders (DESIGN §C10): a minimal agents-only game for sharing graphs, and a small fixed LAN with a
web server, a database server and one client host per agent for the run-time reward checks.

Everything here is a pure function of primitives (what a case stores); nothing is random.
"""
from __future__ import annotations

from typing import Dict, List, Optional

from .simutil import base_cfg, computer, link, switch

WEB, DB, WEB_IP, DB_IP = "web", "db", "192.168.1.12", "192.168.1.14"
DB_FOLDER, DB_FILE = "database", "database.db"
MAX_AGENTS = 4

URLS = {
    "users": f"http://{WEB_IP}/users/",  # needs the web server's database connection
    "index": f"http://{WEB_IP}/",  # 200 while the web server answers
    "missing": f"http://{WEB_IP}/nope",  # 404
    "dead": "http://192.168.1.99/",  # nobody there
}


def agent_name(i: int) -> str:
    return f"ag{i}"


def host_name(i: int) -> str:
    return f"c{i}"


# ---------------------------------------------------------------------------------------------------------------------
# sharing-graph games (load-time part)


def graph_agent(name: str, deps: List[str], kind: str = "probabilistic-agent") -> Dict:
    a = {
        "ref": name,
        "team": "GREEN",
        "type": kind,
        "action_space": {"action_map": {0: {"action": "do-nothing", "options": {}}}},
        "reward_function": {
            "reward_components": [
                {"type": "shared-reward", "weight": 1.0, "options": {"agent_name": d}} for d in deps
            ]
        },
    }
    if kind == "probabilistic-agent":
        a["agent_settings"] = {"action_probabilities": {0: 1.0}}
    else:
        a["team"] = "BLUE"
    return a


def graph_cfg(names: List[str], edges: List[List[int]], order: List[int]) -> Dict:
    """edges [i, j]: agent i has a shared-reward component naming agent j (i depends on j). order = declaration order."""
    deps = {i: [] for i in range(len(names))}
    for i, j in edges:
        deps[i].append(names[j])
    agents = [graph_agent(names[i], deps[i]) for i in order]
    return base_cfg([], [], agents=agents)


# ---------------------------------------------------------------------------------------------------------------------
# run-time scenario

OWN_ACTIONS = 5  # the first five entries of every action map act on the agent's own host only


def own_action_map(h: str) -> List[Dict]:
    return [
        {"action": "do-nothing", "options": {}},
        {"action": "node-application-execute", "options": {"node_name": h, "application_name": "web-browser"}},
        {"action": "node-application-execute", "options": {"node_name": h, "application_name": "database-client"}},
        {"action": "host-nic-disable", "options": {"node_name": h, "nic_num": 1}},
        {"action": "host-nic-enable", "options": {"node_name": h, "nic_num": 1}},
    ]


def blue_extra_actions() -> List[Dict]:
    f = {"node_name": DB, "folder_name": DB_FOLDER, "file_name": DB_FILE}
    return [
        {"action": "node-service-stop", "options": {"node_name": WEB, "service_name": "web-server"}},
        {"action": "node-service-start", "options": {"node_name": WEB, "service_name": "web-server"}},
        {"action": "node-service-stop", "options": {"node_name": DB, "service_name": "database-service"}},
        {"action": "node-service-start", "options": {"node_name": DB, "service_name": "database-service"}},
        {"action": "node-file-corrupt", "options": dict(f)},
        {"action": "node-file-repair", "options": dict(f)},
        {"action": "node-file-delete", "options": dict(f)},
        {"action": "node-file-restore", "options": dict(f)},
        {"action": "host-nic-disable", "options": {"node_name": WEB, "nic_num": 1}},
        {"action": "host-nic-enable", "options": {"node_name": WEB, "nic_num": 1}},
        {"action": "node-shutdown", "options": {"node_name": DB}},
        {"action": "node-startup", "options": {"node_name": DB}},
        # uninstalling the application a component watches: its owner's execute request is then answered `unreachable`
        {"action": "node-application-remove", "options": {"node_name": host_name(1), "application_name": "database-client"}},
        {"action": "node-application-install", "options": {"node_name": host_name(1), "application_name": "database-client"}},
        {"action": "node-application-remove", "options": {"node_name": host_name(1), "application_name": "web-browser"}},
        {"action": "node-application-install", "options": {"node_name": host_name(1), "application_name": "web-browser"}},
        {"action": "node-application-remove", "options": {"node_name": host_name(0), "application_name": "database-client"}},
        {"action": "node-application-remove", "options": {"node_name": host_name(0), "application_name": "web-browser"}},
    ]


def component_cfg(c: Dict) -> Dict:
    """Case-level component description -> scenario syntax (as in the shipped files: type / weight / options)."""
    t = c["type"]
    o: Dict = {}
    if t == "database-file-integrity":
        o = {"node_hostname": DB, "folder_name": DB_FOLDER, "file_name": c.get("file", DB_FILE)}
    elif t == "web-server-404-penalty":
        o = {"node_hostname": WEB, "service_name": "web-server"}
    elif t in ("webpage-unavailable-penalty", "green-admin-database-unreachable-penalty"):
        o = {"node_hostname": host_name(c["host"])}
    elif t == "shared-reward":
        o = {"agent_name": agent_name(c["agent"])}
    elif t == "action-penalty":
        o = {"action_penalty": c["ap"], "do_nothing_penalty": c["dn"]}
    if "sticky" in c and c["sticky"] is not None:
        o["sticky"] = bool(c["sticky"])
    d = {"type": t}
    if c.get("weight") is not None:  # weight omitted -> documented default 1.0
        d["weight"] = c["weight"]
    if o or t != "dummy":
        d["options"] = o
    return d


def runtime_cfg(agents: List[Dict], order: List[int], hosts: List[Dict], db_password: Optional[str]) -> Dict:
    """agents[i] = {"comps": [...]} is agent ag<i> living on host c<i>; ag0 is the proxy (RL) agent, the rest scripted.

    hosts[i] = {"url": key of URLS, "pw": bool (client configured with the right database password),
    "noapp": None | "web-browser" | "database-client" (application left out of the host's scenario entry)}.
    """
    n = len(agents)
    nodes = [switch("sw", 8, start_up_duration=0, shut_down_duration=0)]
    links = []
    dbo: Dict = {}
    if db_password:
        dbo["db_password"] = db_password
    web_client = {"db_server_ip": DB_IP}
    if db_password:
        web_client["server_password"] = db_password
    nodes.append(computer(WEB, WEB_IP, kind="server", start_up_duration=1, shut_down_duration=1,
                          services=[{"type": "web-server"}],
                          applications=[{"type": "database-client", "options": web_client}]))
    nodes.append(computer(DB, DB_IP, kind="server", start_up_duration=1, shut_down_duration=1,
                          services=[{"type": "database-service", "options": dbo} if dbo else {"type": "database-service"}]))
    links += [link("sw", 1, WEB, 1), link("sw", 2, DB, 1)]
    for i in range(n):
        h = hosts[i]
        co: Dict = {"db_server_ip": DB_IP}
        if db_password:
            co["server_password"] = db_password if h["pw"] else "wrong-" + db_password
        apps = [{"type": "web-browser", "options": {"target_url": URLS[h["url"]]}},
                {"type": "database-client", "options": co}]
        apps = [a for a in apps if a["type"] != h.get("noapp")]  # "never installed": execute is answered `unreachable`
        nodes.append(computer(host_name(i), f"192.168.1.{20 + i}", start_up_duration=1, shut_down_duration=1,
                              applications=apps))
        links.append(link("sw", 3 + i, host_name(i), 1))

    acfg = []
    for i in order:
        a = agents[i]
        amap = own_action_map(host_name(i))
        comps = [component_cfg(c) for c in a["comps"]]
        if i == 0:
            amap = amap + blue_extra_actions()
            d = {
                "ref": agent_name(i), "team": "BLUE", "type": "proxy-agent",
                "observation_space": {"type": "custom", "options": {"components": [
                    {"type": "nodes", "label": "NODES", "options": {
                        "hosts": [{"hostname": WEB, "services": [{"service_name": "web-server"}]}, {"hostname": DB}],
                        "num_services": 1, "num_applications": 0, "num_folders": 0, "num_files": 0, "num_nics": 1,
                        "include_num_access": False, "include_nmne": False}}]}},
                "action_space": {"action_map": {k: v for k, v in enumerate(amap)}},
                "reward_function": {"reward_components": comps},
                "agent_settings": {"flatten_obs": True, "action_masking": False},
            }
        else:
            p = 1.0 / len(amap)
            d = {
                "ref": agent_name(i), "team": "GREEN", "type": "probabilistic-agent",
                "agent_settings": {"action_probabilities": {k: p for k in range(len(amap))}},
                "action_space": {"action_map": {k: v for k, v in enumerate(amap)}},
                "reward_function": {"reward_components": comps},
            }
        acfg.append(d)
    return base_cfg(nodes, links, agents=acfg, max_len=256, seed=7)
