"""Re-serialisation of a scenario dict for C20 Oracle B: same document, different formatting / mapping-key order.

``variant_text(cfg, perm, style, scope)`` is a pure function of its arguments. Only *mappings* are permuted (list
order is semantic). ``strict_equal`` is the harness-side proof that the variant parses back to the same document.
"""
from __future__ import annotations

import random
from typing import Any, Optional, Tuple

import yaml

SCOPES = ["top", "game", "agent.action_map", "agent.action_options", "agent.observation", "agent.reward",
          "agent.action_probabilities", "agent.settings", "agent.other", "node.acl", "node.ports", "node.software",
          "node.other", "links", "other"]


def scope_of(path: Tuple) -> str:
    """Which part of the scenario a mapping at `path` belongs to (path = keys / list indexes from the root)."""
    if not path:
        return "top"
    p0 = path[0]
    if p0 == "game":
        return "game"
    if p0 == "agents":
        rest = path[2:]
        if not rest:
            return "agent.other"
        if rest[0] == "action_space":
            if len(rest) == 2 and rest[1] == "action_map":
                return "agent.action_map"
            return "agent.action_options"
        if rest[0] == "observation_space":
            return "agent.observation"
        if rest[0] == "reward_function":
            return "agent.reward"
        if rest[0] == "agent_settings":
            if len(rest) == 2 and rest[1] == "action_probabilities":
                return "agent.action_probabilities"
            return "agent.settings"
        return "agent.other"
    if p0 == "simulation":
        if "links" in path[:3]:
            return "links"
        if "nodes" in path[:3]:
            rest = path[4:]  # simulation, network, nodes, i, ...
            if not rest:
                return "node.other"
            if rest[0] == "acl":
                return "node.acl"
            if rest[0] in ("ports", "network_interfaces", "router_interface", "wireless_access_point"):
                return "node.ports"
            if rest[0] in ("services", "applications"):
                return "node.software"
            return "node.other"
        return "other"
    return "other"


def shuffled(obj: Any, rng: random.Random, scope: Optional[str], keep=(), path: Tuple = ()) -> Any:
    """Permute the mappings that lie in `scope` (None = everywhere) and not in one of the `keep` scopes."""
    if isinstance(obj, dict):
        items = [(k, shuffled(v, rng, scope, keep, path + (k,))) for k, v in obj.items()]
        here = scope_of(path)
        if (scope is None or scope == here) and here not in keep:
            rng.shuffle(items)
        return dict(items)
    if isinstance(obj, list):
        return [shuffled(v, rng, scope, keep, path + (i,)) for i, v in enumerate(obj)]
    return obj


class _NoAlias(yaml.SafeDumper):
    def ignore_aliases(self, data):
        return True


def dump(obj: Any, style: dict) -> str:
    """style: flow in {None (mixed), False (block), True (flow)}, quote in {None, '"', "'"}, aliases bool, indent, width."""
    dumper = yaml.SafeDumper if style.get("aliases") else _NoAlias
    return yaml.dump(obj, Dumper=dumper, sort_keys=False, default_flow_style=style.get("flow", False),
                     default_style=style.get("quote"), indent=style.get("indent", 2), width=style.get("width", 100),
                     allow_unicode=True)


BASE_STYLE = {"flow": False, "quote": None, "aliases": False, "indent": 2, "width": 100}


def variant_text(cfg: dict, perm: Optional[int], style: dict, scope: Optional[str] = None, keep=()) -> str:
    """perm None = keep the key order; otherwise permute the mappings in `scope` (None = all) with seed perm."""
    obj = cfg
    if perm is not None:
        obj = shuffled(cfg, random.Random(perm), scope, tuple(keep))
    return dump(obj, style)


def strict_equal(a: Any, b: Any) -> bool:
    """Deep equality that also compares scalar types (True != 1, 1 != 1.0) and ignores mapping order only."""
    if type(a) is not type(b):
        return False
    if isinstance(a, dict):
        if len(a) != len(b):
            return False
        for k, v in a.items():
            if k not in b:
                return False
            # the key types must agree as well (1 vs True hash alike)
            kb = next(x for x in b if x == k)
            if type(kb) is not type(k) or not strict_equal(v, b[k]):
                return False
        return True
    if isinstance(a, list):
        return len(a) == len(b) and all(strict_equal(x, y) for x, y in zip(a, b))
    return a == b


def order_differs(a: Any, b: Any) -> bool:
    """True when some mapping of b enumerates its keys in another order than the same mapping of a."""
    if isinstance(a, dict):
        if list(a.keys()) != list(b.keys()):
            return True
        return any(order_differs(v, b[k]) for k, v in a.items())
    if isinstance(a, list):
        return any(order_differs(x, y) for x, y in zip(a, b))
    return False
