"""Small builders and drivers shared by the checks."""
from __future__ import annotations

import copy
import os
import random
import re
import traceback
from typing import Any, Dict, List, Optional

import numpy as np

from . import entropy

IO_OFF = {
    "save_agent_actions": False,
    "save_step_metadata": False,
    "save_pcap_logs": False,
    "save_sys_logs": False,
    "save_agent_logs": False,
    "write_sys_log_to_terminal": False,
    "write_agent_log_to_terminal": False,
}

ALL_PORTS = ["ARP", "DNS", "FTP", "HTTP", "NTP", "POSTGRES_SERVER", "SSH"]
ALL_PROTOCOLS = ["ICMP", "TCP", "UDP"]


def base_cfg(nodes: List[Dict], links: List[Dict], agents: Optional[List[Dict]] = None, max_len: int = 64,
             seed: Optional[int] = None, extra_game: Optional[Dict] = None, defaults: Optional[Dict] = None,
             network_extra: Optional[Dict] = None) -> Dict:
    game = {"max_episode_length": max_len, "ports": list(ALL_PORTS), "protocols": list(ALL_PROTOCOLS)}
    if seed is not None:
        game["seed"] = seed
    if extra_game:
        game.update(extra_game)
    net = {"nodes": nodes, "links": links}
    if network_extra:
        net.update(network_extra)
    cfg = {"io_settings": dict(IO_OFF), "game": game, "agents": agents or [], "simulation": {"network": net}}
    if defaults:
        cfg["defaults"] = defaults
    return cfg


def computer(hostname: str, ip: str, mask: str = "255.255.255.0", gw: Optional[str] = None, kind: str = "computer",
             **kw) -> Dict:
    d = {"type": kind, "hostname": hostname, "ip_address": ip, "subnet_mask": mask}
    if gw:
        d["default_gateway"] = gw
    d.update(kw)
    return d


def switch(hostname: str, num_ports: int = 8, **kw) -> Dict:
    d = {"type": "switch", "hostname": hostname, "num_ports": num_ports}
    d.update(kw)
    return d


def link(a: str, ap: int, b: str, bp: int, bandwidth: Optional[float] = None) -> Dict:
    d = {"endpoint_a_hostname": a, "endpoint_a_port": ap, "endpoint_b_hostname": b, "endpoint_b_port": bp}
    if bandwidth is not None:
        d["bandwidth"] = bandwidth
    return d


def lan_cfg(n_hosts: int = 2, **kw) -> Dict:
    """One switch, n computers 192.168.1.(10+i)."""
    nodes = [switch("sw", 8, start_up_duration=0, shut_down_duration=0)]
    links = []
    for i in range(n_hosts):
        nodes.append(computer(f"h{i}", f"192.168.1.{10 + i}", start_up_duration=0, shut_down_duration=0))
        links.append(link("sw", i + 1, f"h{i}", 1))
    return base_cfg(nodes, links, **kw)


def seed_all(seed: int):
    random.seed(seed)
    np.random.seed(seed)


def new_game(cfg: Dict, seed: int = 0):
    """Build a PrimaiteGame from a scenario dict with harness-controlled RNG and entropy."""
    from primaite.game.game import PrimaiteGame
    from primaite.simulator.system.core.packet_capture import PacketCapture

    entropy.reset()
    seed_all(seed)
    PacketCapture.clear()
    return PrimaiteGame.from_config(copy.deepcopy(cfg))


def new_env(cfg: Dict):
    from primaite.session.environment import PrimaiteGymEnv

    entropy.reset()
    return PrimaiteGymEnv(env_config=copy.deepcopy(cfg))


def tick(game, n: int = 1):
    for _ in range(n):
        game.step()


def exc_sig(exc: BaseException) -> str:
    """Bucket an exception by (type, innermost primaite frame)."""
    tb = traceback.extract_tb(exc.__traceback__)
    where = "?"
    if isinstance(exc, RecursionError):
        # the innermost frame of a recursion overflow is arbitrary; bucket by the cycle instead: the primaite
        # functions that occur most often in the traceback identify which recursion it was
        import collections

        cnt = collections.Counter(
            f"{os.path.basename(fr.filename)}:{fr.name}" for fr in tb if "/primaite/" in fr.filename
        )
        if cnt:
            top = max(cnt.values())
            cyc = sorted(k for k, v in cnt.items() if v >= top * 0.6)
            return "RecursionError@" + "+".join(cyc[:4])
    for fr in reversed(tb):
        if "/primaite/" in fr.filename:
            where = f"{os.path.basename(fr.filename)}:{fr.name}"
            break
    return f"{type(exc).__name__}@{where}"


def exc_msg(exc: BaseException) -> str:
    return "".join(traceback.format_exception_only(type(exc), exc)).strip()[:300]


_UUID = re.compile(r"[0-9a-f]{8}-[0-9a-f]{4}-[0-9a-f]{4}-[0-9a-f]{4}-[0-9a-f]{12}")
_MAC = re.compile(r"^(?:[0-9a-f]{2}:){5}[0-9a-f]{2}$")
_MAC_IN = re.compile(r"\b(?:[0-9a-f]{2}:){5}[0-9a-f]{2}\b")


def norm_state(state: Any, drop_keys=()) -> Any:
    """Canonical form of a describe_state() tree in which opaque identifiers are replaced by first-appearance labels."""
    labels: Dict[str, str] = {}

    def lab(kind, s):
        k = (kind, s)
        if k not in labels:
            labels[k] = f"<{kind}{sum(1 for x in labels if x[0] == kind)}>"
        return labels[k]

    def subst(s: str) -> str:
        if _MAC.match(s):
            return lab("mac", s)
        s = _MAC_IN.sub(lambda m: lab("mac", m.group(0)), s)
        return _UUID.sub(lambda m: lab("id", m.group(0)), s)

    def go(x):
        if isinstance(x, dict):
            out = {}
            for k, v in x.items():
                if k in drop_keys:
                    continue
                kk = subst(k) if isinstance(k, str) else (k.name if hasattr(k, "name") and not isinstance(k, (int, float)) else k)
                out[str(kk)] = go(v)
            return out
        if isinstance(x, (list, tuple)):
            return [go(v) for v in x]
        if isinstance(x, (set, frozenset)):
            return sorted((go(v) for v in x), key=repr)
        if isinstance(x, str):
            return subst(x)
        if isinstance(x, float):
            return round(x, 9)
        if isinstance(x, (int, bool)) or x is None:
            return x
        if hasattr(x, "isoformat"):
            return "<time>"
        return subst(str(x))

    return go(state)
