"""C09's case generator: gen_scenario.spec_strategy specs, optionally steered towards the observable quantities that the
plain family reaches too rarely (measured: NMNE never, ACL rows / application health / logins in <1 % of cases), and
op lists weighted towards actions that move observed leaves.  A steered spec is still a plain spec dict that
gen_scenario.build() turns into a scenario; nothing here touches the scenario dict itself.
"""
from __future__ import annotations

from hypothesis import strategies as st

from . import gen_scenario
from .gen_scenario import CLIENT_SW

# category weights for ['cat', c, j] ops (envdrive.resolve_action picks the j-th action of that category)
WEIGHTED_CATS = (
    ["idle"] * 3 + ["scan"] * 2 + ["service"] * 4 + ["app"] * 4 + ["file"] * 4 + ["folder"] * 3 + ["acl"] * 4
    + ["port"] * 1 + ["nic"] * 2 + ["power"] * 2 + ["user"] * 1 + ["session"] * 3 + ["nmap"] * 1 + ["missing"] * 1
)


def ops_strategy(max_ops: int = 30):
    step = st.tuples(st.just("step"), st.integers(0, 10**6)).map(list)
    cat = st.tuples(st.just("cat"), st.sampled_from(WEIGHTED_CATS), st.integers(0, 200)).map(list)
    reset = st.tuples(st.just("reset"), st.sampled_from([None, None, 1, 7])).map(list)
    one = st.one_of(*([cat] * 16), *([step] * 3), reset)
    return st.lists(one, min_size=1, max_size=max_ops)


@st.composite
def steered_spec(draw, **kw):
    spec = draw(gen_scenario.spec_strategy(**kw))
    steer = draw(st.sampled_from(["none", "none", "attack", "attack", "acl", "sizes"]))
    o = spec["obs"]
    if steer == "attack":
        # a reachable database + a data-manipulation bot driven by a red agent: malicious frames (NMNE), traffic,
        # compromised software/files behind scan-gated health
        spec["nmne"] = True
        o["include_nmne"] = True
        o["num_nics"] = max(o["num_nics"], 1)
        o["num_applications"] = max(o["num_applications"], 1)
        o["num_services"] = max(o["num_services"], 1)
        spec["seed"] -= spec["seed"] % 2  # even seed: the generated database has no password
        spec["acl_deny"] = False
        srv = spec["zones"][0][0]
        srv["sw"] = sorted(set(srv["sw"]) | {"db"})
        srv["off"] = False
        att = spec["zones"][-1][-1]
        if att is srv:
            att = spec["zones"][0][1]
        att["kind"] = "computer"
        att["off"] = False
        keep = [t for t in att["sw"] if t in CLIENT_SW and t != "dmbot"][:2]
        att["sw"] = sorted(keep + ["dmbot"])
        spec["agents"]["red"] = draw(st.sampled_from(["periodic", "dm"]))
        spec["agents"]["red_start"] = draw(st.integers(0, 2))
        spec["agents"]["red_freq"] = draw(st.integers(1, 2))
        spec["net_dev_up"] = 0
    elif steer == "acl":
        o["num_rules"] = max(o["num_rules"], 3)
        if spec["family"] == "LAN":
            spec["family"] = "ROUTED"
            spec["zones"] = [spec["zones"][0]]
    elif steer == "sizes":
        for k in ("num_services", "num_applications", "num_folders", "num_files", "num_nics"):
            o[k] = max(o[k], 1)
        o["include_num_access"] = True
        o["include_users"] = True
    spec["steer"] = steer
    return spec


@st.composite
def case_strategy(draw, max_ops: int = 30, **kw):
    spec = draw(steered_spec(**kw))
    ops = draw(ops_strategy(max_ops))
    return {"src": "gen", "spec": spec, "ops": ops}
