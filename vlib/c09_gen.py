"""C09's case generator: gen_scenario.spec_strategy specs, optionally steered towards the observable quantities that the
plain family reaches too rarely (measured: NMNE never, ACL rows / application health / logins in <1 % of cases), and
op lists weighted towards actions that move observed leaves.  A steered spec is still a plain spec dict that
gen_scenario.build() turns into a scenario; nothing here touches the scenario dict itself.

The `gated_off` steer adds a *phrase* in front of the op list: "publish non-default scan-gated health on one host
(folder scan run to completion, file / service / application scan, OS scan), and only then make that host leave ON
(node-shutdown or node-reset) and keep observing it for a few steps, then power it on again".
That is the history in which "every component of a node that is not ON reads as the default encoding" can fail through
state the observation keeps between steps; random op lists almost never produce it (a scan, >= 3 undisturbed steps, a
power action on the same host). The phrase is a list of plain ['step', action index] ops: the indices are looked up in
the action list that gen_scenario.build(spec) produces for this very spec.
"""
from __future__ import annotations

from typing import Dict, List, Optional

from hypothesis import strategies as st

from . import gen_scenario
from .gen_scenario import CLIENT_SW

# steer -> share of the generated cases (parts of 32)
STEERS = {"gated_off": 6, "nic_toggle": 6, "acl": 6, "attack": 5, "none": 5, "sizes": 4}

# category weights for ['cat', c, j] ops (envdrive.resolve_action picks the j-th action of that category)
WEIGHTED_CATS = (
    ["idle"] * 3 + ["scan"] * 2 + ["service"] * 4 + ["app"] * 4 + ["file"] * 4 + ["folder"] * 3 + ["acl"] * 4
    + ["port"] * 1 + ["nic"] * 2 + ["power"] * 2 + ["user"] * 1 + ["session"] * 3 + ["nmap"] * 1 + ["missing"] * 1
)


def ops_strategy(max_ops: int = 30, min_ops: int = 1):
    """Weighted by a drawn selector (st.one_of collapses repeated identical branches, so repetition is no weight):
    1/24 resets, 3/24 raw steps over the whole action space, 3/24 workflows on one component, 17/24 category ops."""

    def mk(t):
        k, a, cat, j, seed, verbs = t
        if k < 1:
            return ["reset", seed]
        if k < 4:
            return ["step", a]
        if k < 7:
            return ["wf", j, verbs]
        return ["cat", cat, j]

    op = st.tuples(st.integers(0, 23), st.integers(0, 10**6), st.sampled_from(WEIGHTED_CATS), st.integers(0, 200),
                   st.sampled_from([None, None, 1, 7]), st.lists(st.integers(0, 30), min_size=2, max_size=4)).map(mk)
    return st.lists(op, min_size=min_ops, max_size=max_ops)


def action_index(meta: Dict, action: str, **options) -> Optional[int]:
    for i, a in enumerate(meta["actions"]):
        if a["action"] == action and all(a["options"].get(k) == v for k, v in options.items()):
            return i
    return None


@st.composite
def gated_off_phrase(draw, spec: Dict, host_index: int) -> List[List]:
    """scan(s) on one host -> wait for completion -> host leaves ON -> keep observing -> power on again -> observe."""
    _, meta = gen_scenario.build(spec)
    h = meta["hosts"][host_index]
    n = h["name"]

    def idx(action, **o):
        return action_index(meta, action, node_name=n, **o)

    scans = {
        "folder": idx("node-folder-scan", folder_name="docs"),
        "file": idx("node-file-scan", folder_name="docs"),
        "service": idx("node-service-scan"),
        "app": idx("node-application-scan"),
        "os": idx("node-os-scan"),
    }
    have = [k for k, v in scans.items() if v is not None]
    chosen = draw(st.lists(st.sampled_from(have), min_size=1, max_size=len(have), unique=True))
    if "folder" in have and "folder" not in chosen and draw(st.integers(0, 3)) > 0:
        chosen.append("folder")  # the only kind whose observation keeps its own memory: in 3 of 4 phrases
    idle = 0
    ops: List[List] = [["step", scans[k]] for k in chosen]
    # a folder scan publishes after folder_scan_duration (3, or 1 with the defaults block) ticks, an OS scan after
    # node_scan_duration; 0..4 idle steps cover "completed" and, deliberately, "not yet completed"
    ops += [["step", idle] for _ in range(draw(st.sampled_from([0, 2, 3, 3, 3, 4])))]
    leave = draw(st.sampled_from(["shutdown", "shutdown", "reset"]))
    ops.append(["step", idx("node-shutdown" if leave == "shutdown" else "node-reset")])
    # SHUTTING_DOWN / OFF (/ BOOTING after a node reset) while observed
    ops += [["step", idle] for _ in range(draw(st.integers(2, 5)))]
    if draw(st.booleans()):
        ops.append(["step", idx("node-startup")])
        # BOOTING, then ON again: the published values are back
        ops += [["step", idle] for _ in range(draw(st.integers(1, 4)))]
    return [o for o in ops if o[1] is not None]


def _setup_attack(spec: Dict, draw) -> None:
    """A reachable password-less database + a data-manipulation bot (and the database-client it sends its query
    through) driven by a red agent: malicious frames (NMNE), traffic, compromised software/files behind scan-gated health."""
    o = spec["obs"]
    spec["nmne"] = True
    o["include_nmne"] = True
    o["num_nics"] = max(o["num_nics"], 1)
    o["num_applications"] = max(o["num_applications"], 1)
    o["num_services"] = max(o["num_services"], 1)
    spec["seed"] -= spec["seed"] % 2  # even seed: the generated database has no password
    spec["acl_deny"] = False
    srv = spec["zones"][0][0]
    srv["sw"] = sorted(set(srv["sw"]) | {"db"})
    srv["off"] = False
    att = spec["zones"][-1][-1]
    if att is srv:
        att = spec["zones"][0][1]
    att["kind"] = "computer"
    att["off"] = False
    keep = [t for t in att["sw"] if t in CLIENT_SW and t not in ("dmbot", "dbc")][:1]
    att["sw"] = sorted(keep + ["dbc", "dmbot"])
    spec["agents"]["red"] = draw(st.sampled_from(["periodic", "dm"]))
    spec["agents"]["red_start"] = draw(st.integers(0, 2))
    spec["agents"]["red_freq"] = draw(st.integers(1, 2))
    spec["net_dev_up"] = 0


@st.composite
def nic_toggle_phrase(draw, spec: Dict) -> List[List]:
    """While the attack is running every step: disable the NIC of the attacked (or the attacking) host, keep observing
    the disabled interface for 1-3 steps, enable it again, observe 1-3 quiet-or-not steps; two or three rounds, so that
    some disable lands in a step in which the interface has already captured frames."""
    _, meta = gen_scenario.build(spec)
    flat = [h["name"] for h in meta["hosts"]]
    srv = flat[0]
    att = next((h["name"] for h in meta["hosts"] if "data-manipulation-bot" in h["apps"]), flat[-1])
    ops: List[List] = [["step", 0] for _ in range(draw(st.integers(1, 5)))]  # port scan / connection stages pass
    for _ in range(draw(st.integers(2, 3))):
        n = draw(st.sampled_from([srv, srv, att]))
        dis = action_index(meta, "host-nic-disable", node_name=n, nic_num=1)
        ena = action_index(meta, "host-nic-enable", node_name=n, nic_num=1)
        if dis is None or ena is None:
            continue
        ops.append(["step", dis])
        ops += [["step", 0] for _ in range(draw(st.integers(1, 3)))]
        ops.append(["step", ena])
        ops += [["step", 0] for _ in range(draw(st.integers(1, 3)))]
    return ops


@st.composite
def sessions_phrase(draw, spec: Dict) -> List[List]:
    """Several remote logins onto one host in a row (remote_sessions counts 0..3, capped), then a log-off."""
    _, meta = gen_scenario.build(spec)
    login = action_index(meta, "node-session-remote-login", password="admin")
    logoff = action_index(meta, "node-session-remote-logoff")
    if login is None:
        return []
    ops = [["step", login] for _ in range(draw(st.integers(2, 4)))]
    ops += [["step", 0] for _ in range(draw(st.integers(0, 2)))]
    if logoff is not None and draw(st.booleans()):
        ops.append(["step", logoff])
    return ops


# ---------------------------------------------------------------------------------------------------------------------
# extra blue actions (C09 only): ACL rules that set one of {address, wildcard mask} on a side and leave the other open.
# gen_scenario's shared action list only has (ip, NONE) on the source side and (ip, mask) on the destination side; a
# rule's address id and wildcard id are independent leaves, so every combination per side has to occur.
# A case carries them as case["extra_actions"]; c09.run_case appends them to the defender's action_map (apply_extras).

WC_LISTED = ("0.0.0.255", "0.0.0.1")  # both are in the generated wildcard_list
WC_UNLISTED = "0.0.255.255"


def acl_extra_actions(meta: Dict) -> List[Dict]:
    hosts = meta["hosts"]
    ip0, ipn = hosts[0]["ip"], hosts[-1]["ip"]
    #            src_ip src_wildcard   dst_ip dst_wildcard
    variants = [("ALL", WC_LISTED[0], "ALL", WC_LISTED[1]),   # mask without address, both sides
                (ip0, "NONE", "ALL", WC_LISTED[0]),           # address without mask / mask without address
                ("ALL", WC_LISTED[1], ipn, "NONE"),           # the mirror image
                (ipn, WC_LISTED[1], ip0, WC_LISTED[0]),       # both set on both sides
                ("ALL", WC_UNLISTED, "ALL", "NONE")]          # a mask that is not in wildcard_list -> 1
    out: List[Dict] = []

    def rule(i, v, **target):
        return {"action": target.pop("_a"), "cat": "acl", "options": dict(
            target, position=i, permission="PERMIT" if i % 2 == 0 else "DENY", src_ip=v[0], src_wildcard=v[1],
            src_port="ALL", dst_ip=v[2], dst_wildcard=v[3], dst_port="ALL", protocol_name="ALL" if i % 2 == 0 else "udp")}

    for r in meta["routers"]:
        for k, v in enumerate(variants):
            out.append(rule(k % 3, v, _a="router-acl-add-rule", target_router=r))
        for pos in (0, 2):
            out.append({"action": "router-acl-remove-rule", "cat": "acl", "options": {"target_router": r, "position": pos}})
    for f in meta["firewalls"]:
        k = 0
        for pn in ("internal", "dmz", "external"):
            for di in ("inbound", "outbound"):
                for pos in (0, 1):
                    out.append(rule(pos, variants[k % len(variants)], _a="firewall-acl-add-rule",
                                    target_firewall_nodename=f, firewall_port_name=pn, firewall_port_direction=di))
                    k += 1
                out.append({"action": "firewall-acl-remove-rule", "cat": "acl",
                            "options": {"target_firewall_nodename": f, "firewall_port_name": pn,
                                        "firewall_port_direction": di, "position": 0}})
    return out


def apply_extras(cfg: Dict, meta: Optional[Dict], extras: Optional[List[Dict]]) -> None:
    """Append case['extra_actions'] to the proxy agent's action_map and to meta['actions'] (same indices)."""
    if not extras or meta is None:
        return
    blue = next(a for a in cfg["agents"] if a.get("type") == "proxy-agent")
    amap = blue["action_space"]["action_map"]
    n = len(meta["actions"])
    for k, e in enumerate(extras):
        amap[n + k] = {"action": e["action"], "options": dict(e["options"])}
    meta["actions"] = list(meta["actions"]) + [dict(e) for e in extras]


@st.composite
def acl_phrase(draw, spec: Dict, extras: List[Dict]) -> List[List]:
    """A run of the extra ACL actions (rules with every address/mask combination per side, removals) with the
    occasional idle step in between."""
    if not extras:
        return []
    _, meta = gen_scenario.build(spec)
    base = len(meta["actions"])
    ops: List[List] = []
    for k in draw(st.lists(st.integers(0, len(extras) - 1), min_size=3, max_size=8)):
        ops.append(["step", base + k])
        if draw(st.integers(0, 3)) == 0:
            ops.append(["step", 0])
    return ops


@st.composite
def steered_spec(draw, steer: Optional[str] = None, **kw):
    spec = draw(gen_scenario.spec_strategy(**kw))
    if steer is None:
        steer = draw(st.sampled_from(list(STEERS)))
    o = spec["obs"]
    if steer in ("attack", "nic_toggle"):
        _setup_attack(spec, draw)
        if steer == "nic_toggle":
            # red acts in every step from step 0/1 on and BEFORE blue inside a step, so frames are captured by an
            # interface that blue disables later in the same step; NMNE and monitored traffic are both observed
            spec["agents"]["red_freq"] = 1
            spec["agents"]["red_start"] = draw(st.integers(0, 1))
            spec["agents"]["blue_last"] = True
            o["traffic"] = True
            spec["max_len"] = max(spec["max_len"], 24)
    elif steer == "acl":
        o["num_rules"] = max(o["num_rules"], 3)
        if spec["family"] == "LAN":
            spec["family"] = "ROUTED"
            spec["zones"] = [spec["zones"][0]]
    elif steer == "sizes":
        for k in ("num_services", "num_applications", "num_folders", "num_files", "num_nics"):
            o[k] = max(o[k], 1)
        o["include_num_access"] = True
        o["include_users"] = True
        flat = [h for z in spec["zones"] for h in z]
        flat[0]["off"] = flat[-1]["off"] = False  # both ends of the generated remote-login actions are up
        spec["acl_deny"] = False
    elif steer == "gated_off":
        # everything scan-gated and observed; the target host is ON, has a folder with a file and some software, and
        # takes 0..3 ticks to shut down (0 = straight to OFF)
        for k in ("num_services", "num_applications", "num_folders", "num_files"):
            o[k] = max(o[k], 1)
        o["fs_scan"] = o["svc_scan"] = o["app_scan"] = True
        o["missing"] = False
        spec["max_len"] = max(spec["max_len"], 24)  # the phrase must fit into one episode
        flat = [h for z in spec["zones"] for h in z]
        hi = draw(st.integers(0, len(flat) - 1))
        h = flat[hi]
        h["off"] = False
        h["files"] = max(h["files"], 1)
        if not h["sw"]:
            h["sw"] = ["ftp", "web"] if h["kind"] == "server" else ["browser", "dnsc"]
        spec["gated_host"] = hi
    spec["steer"] = steer
    return spec


@st.composite
def case_strategy(draw, max_ops: int = 30, steer: Optional[str] = None, **kw):
    """steer=None draws the steer; the check passes each steer explicitly with a fixed quota, because with ~30 examples
    per worker Hypothesis' sampled_from is far from uniform (measured: the `acl` steer got 2 of 256 cases at one seed)."""
    spec = draw(steered_spec(steer=steer, **kw))
    if spec["steer"] == "gated_off":
        head = draw(gated_off_phrase(spec, spec["gated_host"]))
        tail = draw(ops_strategy(max(max_ops - len(head), 1), min_ops=0))
        return {"src": "gen", "spec": spec, "ops": head + tail}
    if spec["steer"] == "nic_toggle":
        head = draw(nic_toggle_phrase(spec))
        tail = draw(ops_strategy(max(max_ops - len(head), 1), min_ops=0))
        return {"src": "gen", "spec": spec, "ops": head + tail}
    if spec["steer"] == "acl":
        _, meta = gen_scenario.build(spec)
        extras = acl_extra_actions(meta)
        head = draw(acl_phrase(spec, extras))
        tail = draw(ops_strategy(max(max_ops - len(head), 1), min_ops=0 if head else 1))
        case = {"src": "gen", "spec": spec, "ops": head + tail}
        if extras:
            case["extra_actions"] = extras
        return case
    if spec["steer"] == "sizes":
        head = draw(sessions_phrase(spec))
        tail = draw(ops_strategy(max(max_ops - len(head), 1), min_ops=0 if head else 1))
        return {"src": "gen", "spec": spec, "ops": head + tail}
    return {"src": "gen", "spec": spec, "ops": draw(ops_strategy(max_ops))}
