"""C09's case generator: gen_scenario.spec_strategy specs, optionally steered towards the observable quantities that the
plain family reaches too rarely (measured: NMNE never, ACL rows / application health / logins in <1 % of cases), and
op lists weighted towards actions that move observed leaves.  A steered spec is still a plain spec dict that
gen_scenario.build() turns into a scenario; nothing here touches the scenario dict itself.

The `gated_off` steer adds a *phrase* in front of the op list: "publish non-default scan-gated health on one host
(folder scan run to completion, file / service / application scan, OS scan), and only then make that host leave ON
(node-shutdown or node-reset) and keep observing it for a few steps, then power it on again".
That is the history in which "every component of a node that is not ON reads as the default encoding" can fail through
state the observation keeps between steps; random op lists almost never produce it (a scan, >= 3 undisturbed steps, a
power action on the same host). The phrase is a list of plain ['step', action index] ops: the indices are looked up in
the action list that gen_scenario.build(spec) produces for this very spec.
"""
from __future__ import annotations

from typing import Dict, List, Optional

from hypothesis import strategies as st

from . import gen_scenario
from .gen_scenario import CLIENT_SW

# steer -> share of the generated cases (parts of 32)
STEERS = {"gated_off": 5, "nic_toggle": 5, "acl": 5, "boot_stale": 5, "attack": 4, "none": 4, "sizes": 4}

# category weights for ['cat', c, j] ops (envdrive.resolve_action picks the j-th action of that category)
WEIGHTED_CATS = (
    ["idle"] * 3 + ["scan"] * 2 + ["service"] * 4 + ["app"] * 4 + ["file"] * 4 + ["folder"] * 3 + ["acl"] * 4
    + ["port"] * 1 + ["nic"] * 2 + ["power"] * 2 + ["user"] * 1 + ["session"] * 3 + ["nmap"] * 1 + ["missing"] * 1
)


def ops_strategy(max_ops: int = 30, min_ops: int = 1):
    """Weighted by a drawn selector (st.one_of collapses repeated identical branches, so repetition is no weight):
    1/24 resets, 3/24 raw steps over the whole action space, 3/24 workflows on one component, 17/24 category ops."""

    def mk(t):
        k, a, cat, j, seed, verbs = t
        if k < 1:
            return ["reset", seed]
        if k < 4:
            return ["step", a]
        if k < 7:
            return ["wf", j, verbs]
        return ["cat", cat, j]

    op = st.tuples(st.integers(0, 23), st.integers(0, 10**6), st.sampled_from(WEIGHTED_CATS), st.integers(0, 200),
                   st.sampled_from([None, None, 1, 7]), st.lists(st.integers(0, 30), min_size=2, max_size=4)).map(mk)
    return st.lists(op, min_size=min_ops, max_size=max_ops)


def action_index(meta: Dict, action: str, **options) -> Optional[int]:
    for i, a in enumerate(meta["actions"]):
        if a["action"] == action and all(a["options"].get(k) == v for k, v in options.items()):
            return i
    return None


# Phrases are written as NAMED ops ['act', action name, full options]: c09.run_case resolves them to the index the
# action has in this build of the scenario (resolve_named_ops), so a stored case / finding replay keeps its meaning when
# the shared action list of gen_scenario grows or is reordered (an index-based replay of mine silently turned from
# "corrupt the file" into "resume a service" that way and stopped guarding its fix).
IDLE = ["act", "do-nothing", {}]


def named(meta: Dict, action: str, **options) -> Optional[List]:
    i = action_index(meta, action, **options)
    return None if i is None else ["act", action, dict(meta["actions"][i]["options"])]


def idles(n: int) -> List[List]:
    return [list(IDLE) for _ in range(n)]


def resolve_named_ops(ops: List[List], cfg: Dict, meta: Optional[Dict]) -> List[List]:
    """['act', name, options] -> ['step', index]; an action the scenario's map does not hold is appended to it."""
    out = []
    for op in ops:
        if op[0] != "act":
            out.append(op)
            continue
        if meta is None:
            continue
        _, name, options = op
        idx = next((i for i, a in enumerate(meta["actions"]) if a["action"] == name and a["options"] == options), None)
        if idx is None:
            apply_extras(cfg, meta, [{"action": name, "options": options, "cat": "named"}])
            idx = len(meta["actions"]) - 1
        out.append(["step", idx])
    return out


@st.composite
def gated_off_phrase(draw, spec: Dict, host_index: int) -> List[List]:
    """[corrupt a file + OS scan ->] scan(s) on one host -> wait for completion -> host leaves ON -> keep observing ->
    power on again -> observe."""
    _, meta = gen_scenario.build(spec)
    h = meta["hosts"][host_index]
    n = h["name"]

    def act(action, **o):
        return named(meta, action, node_name=n, **o)

    ops: List[List] = []
    if spec.get("os_scan_first"):
        # the node-wide scan refreshes the visible health of files AND folders when it completes (node_scan_duration = 2
        # with the defaults block): a corrupt file makes the folder's last-scanned health CORRUPT without a folder scan
        pre = [act("node-file-corrupt", folder_name="docs"), act("node-os-scan")]
        if draw(st.booleans()):
            pre.reverse()
        ops += pre + idles(draw(st.sampled_from([2, 3, 3, 4])))
    scans = {
        "folder": act("node-folder-scan", folder_name="docs"),
        "file": act("node-file-scan", folder_name="docs"),
        "service": act("node-service-scan"),
        "app": act("node-application-scan"),
        "os": act("node-os-scan"),
    }
    have = [k for k, v in scans.items() if v is not None]
    chosen = draw(st.lists(st.sampled_from(have), min_size=1, max_size=len(have), unique=True))
    if "folder" in have and "folder" not in chosen and draw(st.integers(0, 3)) > 0:
        chosen.append("folder")  # the only kind whose observation keeps its own memory: in 3 of 4 phrases
    ops += [scans[k] for k in chosen]
    # a folder scan publishes after folder_scan_duration (3, or 1 with the defaults block) ticks, an OS scan after
    # node_scan_duration; 0..4 idle steps cover "completed" and, deliberately, "not yet completed"
    ops += idles(draw(st.sampled_from([0, 2, 3, 3, 3, 4])))
    leave = draw(st.sampled_from(["shutdown", "shutdown", "reset"]))
    ops.append(act("node-shutdown" if leave == "shutdown" else "node-reset"))
    # SHUTTING_DOWN / OFF (/ BOOTING after a node reset) while observed
    ops += idles(draw(st.integers(2, 5)))
    if draw(st.booleans()):
        ops.append(act("node-startup"))
        # BOOTING, then ON again: the published values are back
        ops += idles(draw(st.integers(1, 4)))
    return [o for o in ops if o is not None]


def _setup_attack(spec: Dict, draw) -> None:
    """A reachable password-less database + a data-manipulation bot (and the database-client it sends its query
    through) driven by a red agent: malicious frames (NMNE), traffic, compromised software/files behind scan-gated health."""
    o = spec["obs"]
    spec["nmne"] = True
    o["include_nmne"] = True
    o["num_nics"] = max(o["num_nics"], 1)
    o["num_applications"] = max(o["num_applications"], 1)
    o["num_services"] = max(o["num_services"], 1)
    spec["seed"] -= spec["seed"] % 2  # even seed: the generated database has no password
    spec["acl_deny"] = False
    srv = spec["zones"][0][0]
    srv["sw"] = sorted(set(srv["sw"]) | {"db"})
    srv["off"] = False
    att = spec["zones"][-1][-1]
    if att is srv:
        att = spec["zones"][0][1]
    att["kind"] = "computer"
    att["off"] = False
    keep = [t for t in att["sw"] if t in CLIENT_SW and t not in ("dmbot", "dbc")][:1]
    att["sw"] = sorted(keep + ["dbc", "dmbot"])
    spec["agents"]["red"] = draw(st.sampled_from(["periodic", "dm"]))
    spec["agents"]["red_start"] = draw(st.integers(0, 2))
    spec["agents"]["red_freq"] = draw(st.integers(1, 2))
    spec["net_dev_up"] = 0


def _attacker(meta: Dict) -> str:
    return next((h["name"] for h in meta["hosts"] if "data-manipulation-bot" in h["apps"]), meta["hosts"][-1]["name"])


@st.composite
def nic_toggle_phrase(draw, spec: Dict) -> List[List]:
    """While the attack is running every step: disable the NIC of the attacked (or the attacking) host, keep observing
    the disabled interface for 1-3 steps, enable it again, observe 1-3 quiet-or-not steps; two or three rounds, so that
    some disable lands in a step in which the interface has already captured frames."""
    _, meta = gen_scenario.build(spec)
    srv = meta["hosts"][0]["name"]
    att = _attacker(meta)
    ops: List[List] = idles(draw(st.integers(1, 5)))  # port scan / connection stages pass
    for _ in range(draw(st.integers(2, 3))):
        n = draw(st.sampled_from([srv, srv, att]))
        dis = named(meta, "host-nic-disable", node_name=n, nic_num=1)
        ena = named(meta, "host-nic-enable", node_name=n, nic_num=1)
        if dis is None or ena is None:
            continue
        ops.append(dis)
        ops += idles(draw(st.integers(1, 3)))
        ops.append(ena)
        ops += idles(draw(st.integers(1, 3)))
    return ops


@st.composite
def boot_stale_phrase(draw, spec: Dict) -> List[List]:
    """Per-step counters must be zero in a step in which nothing ran. Red executes the bot on the attacker host in every
    step and acts BEFORE blue, so the step in which blue powers that host off has already counted executions (and, with a
    green agent on it, file creations); then the host is off for a while and is started again: in the step in which it
    finishes booting it is ON, nothing has run on it, and every per-step counter must read 0. One or two rounds."""
    _, meta = gen_scenario.build(spec)
    att = _attacker(meta)
    ops: List[List] = idles(draw(st.integers(1, 3)))
    for _ in range(draw(st.integers(1, 2))):
        leave = draw(st.sampled_from(["node-shutdown", "node-shutdown", "node-reset"]))
        ops.append(named(meta, leave, node_name=att))
        ops += idles(draw(st.integers(1, 5)))  # shut-down duration 0..3 (+ boot after a reset)
        if leave == "node-shutdown":
            ops.append(named(meta, "node-startup", node_name=att))
        ops += idles(draw(st.integers(2, 5)))  # start-up duration 0..3, then ON again and the attack resumes
    return [o for o in ops if o is not None]


@st.composite
def sessions_phrase(draw, spec: Dict) -> List[List]:
    """Several remote logins onto one host in a row (remote_sessions counts 0..3, capped), then a log-off; or, with
    spec['long_off'], a local session on a host that is then off for longer than the 30-step session time-out."""
    _, meta = gen_scenario.build(spec)
    if spec.get("long_off"):
        cmd = named(meta, "node-send-local-command")
        if cmd is None:
            return []
        n = cmd[2]["node_name"]
        ops = [cmd] + idles(1) + [named(meta, "node-shutdown", node_name=n)] + idles(32)
        ops += [named(meta, "node-startup", node_name=n)] + idles(5)
        return [o for o in ops if o is not None]
    login = named(meta, "node-session-remote-login", password="admin")
    logoff = named(meta, "node-session-remote-logoff")
    if login is None:
        return []
    ops = [list(login) for _ in range(draw(st.integers(2, 4)))]
    ops += idles(draw(st.integers(0, 2)))
    if logoff is not None and draw(st.booleans()):
        ops.append(logoff)
    return ops


# ---------------------------------------------------------------------------------------------------------------------
# extra blue actions (C09 only): ACL rules that set one of {address, wildcard mask} on a side and leave the other open.
# gen_scenario's shared action list only has (ip, NONE) on the source side and (ip, mask) on the destination side; a
# rule's address id and wildcard id are independent leaves, so every combination per side has to occur.
# A case carries them as case["extra_actions"]; c09.run_case appends them to the defender's action_map (apply_extras).

WC_LISTED = ("0.0.0.255", "0.0.0.1")  # both are in the generated wildcard_list
WC_UNLISTED = "0.0.255.255"


def acl_extra_actions(meta: Dict) -> List[Dict]:
    hosts = meta["hosts"]
    ip0, ipn = hosts[0]["ip"], hosts[-1]["ip"]
    #            src_ip src_wildcard   dst_ip dst_wildcard
    variants = [("ALL", WC_LISTED[0], "ALL", WC_LISTED[1]),   # mask without address, both sides
                (ip0, "NONE", "ALL", WC_LISTED[0]),           # address without mask / mask without address
                ("ALL", WC_LISTED[1], ipn, "NONE"),           # the mirror image
                (ipn, WC_LISTED[1], ip0, WC_LISTED[0]),       # both set on both sides
                ("ALL", WC_UNLISTED, "ALL", "NONE")]          # a mask that is not in wildcard_list -> 1
    out: List[Dict] = []

    def rule(i, v, **target):
        return {"action": target.pop("_a"), "cat": "acl", "options": dict(
            target, position=i, permission="PERMIT" if i % 2 == 0 else "DENY", src_ip=v[0], src_wildcard=v[1],
            src_port="ALL", dst_ip=v[2], dst_wildcard=v[3], dst_port="ALL", protocol_name="ALL" if i % 2 == 0 else "udp")}

    for r in meta["routers"]:
        for k, v in enumerate(variants):
            out.append(rule(k % 3, v, _a="router-acl-add-rule", target_router=r))
        for pos in (0, 2):
            out.append({"action": "router-acl-remove-rule", "cat": "acl", "options": {"target_router": r, "position": pos}})
    for f in meta["firewalls"]:
        k = 0
        for pn in ("internal", "dmz", "external"):
            for di in ("inbound", "outbound"):
                for pos in (0, 1):
                    out.append(rule(pos, variants[k % len(variants)], _a="firewall-acl-add-rule",
                                    target_firewall_nodename=f, firewall_port_name=pn, firewall_port_direction=di))
                    k += 1
                out.append({"action": "firewall-acl-remove-rule", "cat": "acl",
                            "options": {"target_firewall_nodename": f, "firewall_port_name": pn,
                                        "firewall_port_direction": di, "position": 0}})
    return out


def apply_extras(cfg: Dict, meta: Optional[Dict], extras: Optional[List[Dict]]) -> None:
    """Append case['extra_actions'] to the proxy agent's action_map and to meta['actions'] (same indices)."""
    if not extras or meta is None:
        return
    blue = next(a for a in cfg["agents"] if a.get("type") == "proxy-agent")
    amap = blue["action_space"]["action_map"]
    n = len(meta["actions"])
    for k, e in enumerate(extras):
        amap[n + k] = {"action": e["action"], "options": dict(e["options"])}
    meta["actions"] = list(meta["actions"]) + [dict(e) for e in extras]


@st.composite
def acl_phrase(draw, spec: Dict, extras: List[Dict]) -> List[List]:
    """A run of the extra ACL actions (rules with every address/mask combination per side, removals) with the
    occasional idle step in between."""
    if not extras:
        return []
    ops: List[List] = []
    for k in draw(st.lists(st.integers(0, len(extras) - 1), min_size=3, max_size=8)):
        ops.append(["act", extras[k]["action"], dict(extras[k]["options"])])
        if draw(st.integers(0, 3)) == 0:
            ops += idles(1)
    return ops


@st.composite
def steered_spec(draw, steer: Optional[str] = None, **kw):
    spec = draw(gen_scenario.spec_strategy(**kw))
    if steer is None:
        steer = draw(st.sampled_from(list(STEERS)))
    o = spec["obs"]
    if steer in ("attack", "nic_toggle", "boot_stale"):
        _setup_attack(spec, draw)
        if steer == "boot_stale":
            # red executes the bot every step and before blue; the attacker host's applications, folder, files and
            # per-step file-system counters are all observed; a green agent may add file creations on the same host
            spec["agents"]["red"] = "periodic"
            spec["agents"]["red_freq"] = 1
            spec["agents"]["red_start"] = draw(st.integers(0, 1))
            spec["agents"]["blue_last"] = True
            spec["agents"]["green"] = max(spec["agents"]["green"], 1)
            o["num_applications"] = 3
            o["num_folders"] = max(o["num_folders"], 1)
            o["num_files"] = max(o["num_files"], 1)
            o["include_num_access"] = True
            o["missing"] = False
            spec["max_len"] = max(spec["max_len"], 28)
            # the boot rule of the reader only speaks about hosts that take >= 1 tick to boot
            for h in (x for z in spec["zones"] for x in z):
                if "dmbot" in h["sw"]:
                    h["up"] = max(h["up"], 1)
        if steer == "nic_toggle":
            # red acts in every step from step 0/1 on and BEFORE blue inside a step, so frames are captured by an
            # interface that blue disables later in the same step; NMNE and monitored traffic are both observed
            spec["agents"]["red_freq"] = 1
            spec["agents"]["red_start"] = draw(st.integers(0, 1))
            spec["agents"]["blue_last"] = True
            o["traffic"] = True
            spec["max_len"] = max(spec["max_len"], 24)
    elif steer == "acl":
        o["num_rules"] = max(o["num_rules"], 3)
        if spec["family"] == "LAN":
            spec["family"] = "ROUTED"
            spec["zones"] = [spec["zones"][0]]
    elif steer == "sizes":
        for k in ("num_services", "num_applications", "num_folders", "num_files", "num_nics"):
            o[k] = max(o[k], 1)
        o["include_num_access"] = True
        o["include_users"] = True
        flat = [h for z in spec["zones"] for h in z]
        flat[0]["off"] = flat[-1]["off"] = False  # both ends of the generated remote-login actions are up
        spec["acl_deny"] = False
        if draw(st.integers(0, 3)) == 0:
            spec["long_off"] = True  # local session, then the host is off for longer than the session time-out
            spec["max_len"] = 45
    elif steer == "gated_off":
        # everything scan-gated and observed; the target host is ON, has a folder with a file and some software, and
        # takes 0..3 ticks to shut down (0 = straight to OFF)
        for k in ("num_services", "num_applications", "num_folders", "num_files"):
            o[k] = max(o[k], 1)
        o["fs_scan"] = o["svc_scan"] = o["app_scan"] = True
        o["missing"] = False
        spec["max_len"] = max(spec["max_len"], 24)  # the phrase must fit into one episode
        flat = [h for z in spec["zones"] for h in z]
        hi = draw(st.integers(0, len(flat) - 1))
        h = flat[hi]
        h["off"] = False
        h["files"] = max(h["files"], 1)
        if not h["sw"]:
            h["sw"] = ["ftp", "web"] if h["kind"] == "server" else ["browser", "dnsc"]
        spec["gated_host"] = hi
        if draw(st.booleans()):
            spec["os_scan_first"] = True
            spec["defaults"] = {"folder_scan_duration": 1, "folder_restore_duration": 1, "node_scan_duration": 2,
                                "service_fix_duration": 1, "service_restart_duration": 1}
    spec["steer"] = steer
    return spec


@st.composite
def case_strategy(draw, max_ops: int = 30, steer: Optional[str] = None, **kw):
    """steer=None draws the steer; the check passes each steer explicitly with a fixed quota, because with ~30 examples
    per worker Hypothesis' sampled_from is far from uniform (measured: the `acl` steer got 2 of 256 cases at one seed)."""
    spec = draw(steered_spec(steer=steer, **kw))
    if spec["steer"] == "gated_off":
        head = draw(gated_off_phrase(spec, spec["gated_host"]))
        tail = draw(ops_strategy(max(max_ops - len(head), 1), min_ops=0))
        return {"src": "gen", "spec": spec, "ops": head + tail}
    if spec["steer"] == "boot_stale":
        head = draw(boot_stale_phrase(spec))
        tail = draw(ops_strategy(max(max_ops - len(head), 1), min_ops=0))
        return {"src": "gen", "spec": spec, "ops": head + tail}
    if spec["steer"] == "nic_toggle":
        head = draw(nic_toggle_phrase(spec))
        tail = draw(ops_strategy(max(max_ops - len(head), 1), min_ops=0))
        return {"src": "gen", "spec": spec, "ops": head + tail}
    if spec["steer"] == "acl":
        _, meta = gen_scenario.build(spec)
        extras = acl_extra_actions(meta)
        head = draw(acl_phrase(spec, extras))
        devs = list(meta["routers"]) + list(meta["firewalls"])
        if head and devs and draw(st.booleans()):
            # ... and then the device that now holds rules in observed positions leaves ON (SHUTTING_DOWN for a few steps,
            # OFF, sometimes BOOTING again): every list of a device that is not on reads as empty rows
            dev = draw(st.sampled_from(devs))
            head += [["act", "node-shutdown", {"node_name": dev}]] + idles(draw(st.integers(1, 5)))
            if draw(st.booleans()):
                head += [["act", "node-startup", {"node_name": dev}]] + idles(draw(st.integers(1, 4)))
            spec["max_len"] = max(spec["max_len"], len(head) + 4)
        tail = draw(ops_strategy(max(max_ops - len(head), 1), min_ops=0 if head else 1))
        case = {"src": "gen", "spec": spec, "ops": head + tail}
        if extras:
            case["extra_actions"] = extras
        return case
    if spec["steer"] == "sizes":
        head = draw(sessions_phrase(spec))
        tail = draw(ops_strategy(max(min(max_ops, 30) - len(head), 1), min_ops=0 if head else 1))
        return {"src": "gen", "spec": spec, "ops": head + tail}
    return {"src": "gen", "spec": spec, "ops": draw(ops_strategy(max_ops))}
