"""C06 helpers: topology spec -> scenario dict, the A-B path (a true cut of a tree), and block realisation.

Nothing here imports primaite.  A *spec* is a dict of primitives (what Hypothesis generates, what replay files store):

    {"fam": "LAN1"|"LAN2"|"R1"|"R2"|"DMZ",
     "za": zone of the attacker, "zb": zone of the victim   (DMZ: "ext"|"int"|"dmz"; R1/R2/LAN2: 0|1; LAN1: 0),
     "extra": [zone, ...]           silent third hosts (never send on their own)
     "dur": shut-down/start-up duration of every node (>=1 while the instant power-off finding is open)
     "routes": "static"|"default0"|"default1"   (R2: which router, if any, uses a default route; never both)
     "a_sw": [...tokens preinstalled on A...], "b_sw": [...optional software on B...], "db_pw": bool, "nmne": bool,
     "block": {"mech": "acl"|"nic"|"swport"|"l3port"|"link"|"off", ...}, "when": "before"|"after", "via": "config"|"request"}

Families (all trees, every link bandwidth 1e6):
    LAN1  hA - sw0 - hB
    LAN2  hA - sw0 - sw1 - hB
    R1    hA - sw0 - r0 - sw1 - hB                  (one router, two subnets)
    R2    hA - sw0 - r0 - r1 - sw1 - hB             (two routers, /30 transit, static routes or ONE default route)
    DMZ   ext: sw_ext, int: sw_int, dmz: sw_dmz around firewall fw; A and B in two different zones
"""
from __future__ import annotations

from typing import Any, Dict, List, Optional, Tuple

from .simutil import ALL_PORTS, ALL_PROTOCOLS, IO_OFF

BW = 1_000_000.0
A, B = "hA", "hB"
FW_PORT = {"ext": 1, "int": 2, "dmz": 3}
FW_PORT_NAME = {"ext": "external_port", "int": "internal_port", "dmz": "dmz_port"}
FW_ZONE_NAME = {"ext": "external", "int": "internal", "dmz": "dmz"}
ZONE_NET = {"ext": "192.168.30", "int": "192.168.10", "dmz": "192.168.20", 0: "192.168.10", 1: "192.168.11"}
FW_LISTS = ("internal_inbound_acl", "internal_outbound_acl", "dmz_inbound_acl", "dmz_outbound_acl",
            "external_inbound_acl", "external_outbound_acl")

ACL_SHAPES = ("exact-src", "exact-dst", "exact-both", "wild-src", "wild-dst", "wild-both", "any", "proto3",
              "proto3-src", "proto3-dst", "port-dst", "port-src", "port-both")
# port-specific deny rules block one service, not the host: they are complete blocks only for traffic of that service
# (the check restricts the post-block repertoire to it and verifies by observation that hA emitted nothing else towards hB)
PORT_SHAPES = ("port-dst", "port-src", "port-both")
SVC_PORT = {"db": ("POSTGRES_SERVER", 5432), "ftp": ("FTP", 21), "ssh": ("SSH", 22), "http": ("HTTP", 80)}
PP_PROTOS = ("tcp", "ALL")
PP_ADDRS = ("none", "src", "dst", "both")
A_TOKENS = ("dmbot", "ransom", "dos", "c2s", "c2b")
B_TOKENS = ("web", "c2b", "c2s")


def fw_lists_on_path(za: str, zb: str) -> List[Tuple[str, str]]:
    """The two rule lists the documentation says a frame from zone za to zone zb is checked against, in order.

    docs/source/simulation_components/network/nodes/firewall.rst: <zone> outbound = leaving the zone, <zone> inbound =
    entering it; for the external zone "inbound" = arriving from the external network, "outbound" = leaving towards it.
    Returned as (port name, direction) as the firewall-acl-add-rule action names them.
    """
    first = ("external", "inbound") if za == "ext" else (FW_ZONE_NAME[za], "outbound")
    second = ("external", "outbound") if zb == "ext" else (FW_ZONE_NAME[zb], "inbound")
    return [first, second]


def _permit_all() -> Dict[int, Dict]:
    return {20: {"action": "PERMIT", "protocol": "ICMP"}, 21: {"action": "PERMIT", "protocol": "TCP"},
            22: {"action": "PERMIT", "protocol": "UDP"}}


WILD_MASKS = ("0.0.0.255", "0.0.0.15", "0.0.0.3", "0.0.0.1", "0.0.255.255")
WILD_BASES = ("net", "own", "other")


def _ip2int(s: str) -> int:
    a, b, c, d = (int(x) for x in s.split("."))
    return (a << 24) | (b << 16) | (c << 8) | d


def _int2ip(n: int) -> str:
    return f"{(n >> 24) & 255}.{(n >> 16) & 255}.{(n >> 8) & 255}.{n & 255}"


def wild_base(ip: str, mask: str, kind: str, off: int = 0) -> str:
    """A base address for a wildcard rule that covers `ip` under `mask` (the mask applies to base and candidate alike).

    net   = the normalised base (wildcard bits zero);
    own   = the covered host's own address (un-normalised unless its wildcard bits happen to be zero);
    other = another address inside the range (wildcard bits taken from `off`, never all zero, never the host's own).
    """
    n, m = _ip2int(ip), _ip2int(mask)
    net = n & ~m & 0xFFFFFFFF
    if kind == "net":
        return _int2ip(net)
    if kind == "own":
        return ip
    k = (off * 37 + 1) & m
    if k == 0:
        k = m
    if (net | k) == n:
        k = ((k + 1) & m) or m
        if (net | k) == n:
            k = m & ~(n & m) & 0xFFFFFFFF or m
    return _int2ip(net | k)


def acl_rules(shape: str, ip_a: str, ip_b: str, wc: Optional[Dict] = None, pp: Optional[Dict] = None) -> List[Dict]:
    """Deny rule(s) that together match every IP frame from A to B. Keys as the *action* names them.

    `wc` (wildcard shapes only): {"mask", "src_base", "dst_base", "off"}; absent = normalised /24 range.
    `pp` (port shapes only): {"svc": db|ftp|ssh|http, "proto": tcp|ALL, "addr": none|src|dst|both}; the rule names the
    service's port as destination port only, source port only, or both (the unnamed side stays "ALL").
    """
    wc = wc or {}
    wmask = wc.get("mask", "0.0.0.255")
    net_a = wild_base(ip_a, wmask, wc.get("src_base", "net"), int(wc.get("off", 0)))
    net_b = wild_base(ip_b, wmask, wc.get("dst_base", "net"), int(wc.get("off", 0)) + 3)
    base = {"src_ip": "ALL", "src_wildcard": "NONE", "dst_ip": "ALL", "dst_wildcard": "NONE", "protocol_name": "ALL",
            "src_port": "ALL", "dst_port": "ALL"}

    def r(**kw):
        d = dict(base)
        d.update(kw)
        return d

    if shape == "exact-src":
        return [r(src_ip=ip_a)]
    if shape == "exact-dst":
        return [r(dst_ip=ip_b)]
    if shape == "exact-both":
        return [r(src_ip=ip_a, dst_ip=ip_b)]
    if shape == "wild-src":
        return [r(src_ip=net_a, src_wildcard=wmask)]
    if shape == "wild-dst":
        return [r(dst_ip=net_b, dst_wildcard=wmask)]
    if shape == "wild-both":
        return [r(src_ip=net_a, src_wildcard=wmask, dst_ip=net_b, dst_wildcard=wmask)]
    if shape == "any":
        return [r()]
    if shape == "proto3":
        return [r(protocol_name=p) for p in ("tcp", "udp", "icmp")]
    if shape == "proto3-src":
        return [r(protocol_name=p, src_ip=ip_a) for p in ("icmp", "udp", "tcp")]
    if shape == "proto3-dst":
        return [r(protocol_name=p, dst_ip=ip_b) for p in ("udp", "tcp", "icmp")]
    if shape in PORT_SHAPES:
        pp = pp or {}
        port = SVC_PORT[pp.get("svc", "db")][1]
        kw: Dict[str, Any] = {"protocol_name": pp.get("proto", "tcp")}
        if shape in ("port-dst", "port-both"):
            kw["dst_port"] = port
        if shape in ("port-src", "port-both"):
            kw["src_port"] = port
        if pp.get("addr", "none") in ("src", "both"):
            kw["src_ip"] = ip_a
        if pp.get("addr", "none") in ("dst", "both"):
            kw["dst_ip"] = ip_b
        return [r(**kw)]
    raise ValueError(shape)


PORT_NAME = {v[1]: v[0] for v in SVC_PORT.values()}


def rule_covers(rule: Dict, proto: str, src_ip: str, dst_ip: str, src_port: Optional[int], dst_port: Optional[int]) -> bool:
    """Independent reading of one exact-address rule (used for port shapes): unset field = any."""
    if rule["protocol_name"] != "ALL" and rule["protocol_name"] != proto:
        return False
    if rule["src_ip"] != "ALL" and rule["src_ip"] != src_ip:
        return False
    if rule["dst_ip"] != "ALL" and rule["dst_ip"] != dst_ip:
        return False
    if rule["src_port"] != "ALL" and rule["src_port"] != src_port:
        return False
    if rule["dst_port"] != "ALL" and rule["dst_port"] != dst_port:
        return False
    return True


def _cfg_rule(rule: Dict) -> Dict:
    """The same rule with the keys the scenario loader reads."""
    d: Dict[str, Any] = {"action": "DENY"}
    if rule["protocol_name"] != "ALL":
        d["protocol"] = rule["protocol_name"].upper()
    if rule["src_ip"] != "ALL":
        d["src_ip"] = rule["src_ip"]
    if rule["src_wildcard"] != "NONE":
        d["src_wildcard_mask"] = rule["src_wildcard"]
    if rule["dst_ip"] != "ALL":
        d["dst_ip"] = rule["dst_ip"]
    if rule["dst_wildcard"] != "NONE":
        d["dst_wildcard_mask"] = rule["dst_wildcard"]
    if rule.get("src_port", "ALL") != "ALL":
        d["src_port"] = PORT_NAME[rule["src_port"]]
    if rule.get("dst_port", "ALL") != "ALL":
        d["dst_port"] = PORT_NAME[rule["dst_port"]]
    return d


def host_ip(spec: Dict, who: str) -> str:
    fam = spec["fam"]
    if fam in ("LAN1", "LAN2"):
        net = ZONE_NET[0]
    else:
        net = ZONE_NET[spec["za"] if who == A else spec["zb"]]
    return f"{net}.{10 if who == A else 20}"


def plan(spec: Dict) -> Dict:
    """Names, addresses and the ordered A->B path of the family: links, switch ports, layer-3 ports, devices, ACLs."""
    fam = spec["fam"]
    za, zb = spec["za"], spec["zb"]
    P: Dict[str, Any] = {"ip_a": host_ip(spec, A), "ip_b": host_ip(spec, B)}
    links: List[List] = []      # [a, ap, b, bp] on the path, in A->B order
    swports: List[List] = []    # [switch, port]
    l3ports: List[List] = []    # [device, port]
    devices: List[str] = []     # switches and routers on the path
    acls: List[Dict] = []       # ACL lists on the path
    if fam == "LAN1":
        links = [[A, 1, "sw0", 1], ["sw0", 2, B, 1]]
        swports = [["sw0", 1], ["sw0", 2]]
        devices = ["sw0"]
        P["sw_of"] = {A: ("sw0", 1), B: ("sw0", 2)}
    elif fam == "LAN2":
        links = [[A, 1, "sw0", 1], ["sw0", 8, "sw1", 8], ["sw1", 1, B, 1]]
        swports = [["sw0", 1], ["sw0", 8], ["sw1", 8], ["sw1", 1]]
        devices = ["sw0", "sw1"]
        P["sw_of"] = {A: ("sw0", 1), B: ("sw1", 1)}
    elif fam == "R1":
        pa, pb = (1, 2) if za == 0 else (2, 1)
        swa, swb = f"sw{za}", f"sw{zb}"
        links = [[A, 1, swa, 1], [swa, 8, "r0", pa], ["r0", pb, swb, 8], [swb, 1, B, 1]]
        swports = [[swa, 1], [swa, 8], [swb, 8], [swb, 1]]
        l3ports = [["r0", pa], ["r0", pb]]
        devices = [swa, "r0", swb]
        acls = [{"dev": "r0", "kind": "router"}]
        P["sw_of"] = {A: (swa, 1), B: (swb, 1)}
    elif fam == "R2":
        ra, rb = f"r{za}", f"r{zb}"
        swa, swb = f"sw{za}", f"sw{zb}"
        links = [[A, 1, swa, 1], [swa, 8, ra, 1], [ra, 2, rb, 2], [rb, 1, swb, 8], [swb, 1, B, 1]]
        swports = [[swa, 1], [swa, 8], [swb, 8], [swb, 1]]
        l3ports = [[ra, 1], [ra, 2], [rb, 2], [rb, 1]]
        devices = [swa, ra, rb, swb]
        acls = [{"dev": ra, "kind": "router"}, {"dev": rb, "kind": "router"}]
        P["sw_of"] = {A: (swa, 1), B: (swb, 1)}
    elif fam == "DMZ":
        swa, swb = f"sw_{za}", f"sw_{zb}"
        links = [[A, 1, swa, 1], [swa, 8, "fw", FW_PORT[za]], ["fw", FW_PORT[zb], swb, 8], [swb, 1, B, 1]]
        swports = [[swa, 1], [swa, 8], [swb, 8], [swb, 1]]
        l3ports = [["fw", FW_PORT[za]], ["fw", FW_PORT[zb]]]
        devices = [swa, "fw", swb]
        acls = [{"dev": "fw", "kind": "firewall", "port": pn, "dir": di} for pn, di in fw_lists_on_path(za, zb)]
        P["sw_of"] = {A: (swa, 1), B: (swb, 1)}
    else:
        raise ValueError(fam)
    P.update(links=links, swports=swports, l3ports=l3ports, devices=devices, acls=acls)
    return P


def block_target(spec: Dict) -> Dict:
    """Resolve the generated indices of spec['block'] against the path (indices are taken modulo the list length)."""
    P = plan(spec)
    b = spec["block"]
    m = b["mech"]
    out: Dict[str, Any] = {"mech": m}
    if m == "acl":
        acl = P["acls"][b.get("which", 0) % len(P["acls"])]
        out.update(acl=acl, rules=acl_rules(b["shape"], P["ip_a"], P["ip_b"], b.get("wc"), b.get("pp")),
                   pos=int(b.get("pos", 0)), shape=b["shape"])
    elif m == "nic":
        out.update(node=A if b.get("side", "A") == "A" else B)
    elif m == "swport":
        sw, port = P["swports"][b.get("which", 0) % len(P["swports"])]
        out.update(node=sw, port=port)
    elif m == "l3port":
        dev, port = P["l3ports"][b.get("which", 0) % len(P["l3ports"])]
        out.update(node=dev, port=port)
    elif m == "link":
        out.update(link=P["links"][b.get("which", 0) % len(P["links"])])
    elif m == "off":
        cands = [B] + P["devices"]
        out.update(node=cands[b.get("which", 0) % len(cands)])
    else:
        raise ValueError(m)
    return out


def applicable(spec: Dict) -> bool:
    """Is the generated block realisable in this family / at this time (decided here so the strategy stays simple)."""
    P = plan(spec)
    m = spec["block"]["mech"]
    if m == "acl" and not P["acls"]:
        return False
    if m == "l3port" and not P["l3ports"]:
        return False
    if m == "link" and (spec["when"] != "before" or spec.get("via") != "config"):
        return False
    if m in ("nic", "swport", "l3port") and spec.get("via") == "config":
        return False  # the scenario format has no "interface disabled" key; these are requests
    if m == "off" and spec.get("via") == "config" and block_target(spec)["node"] != B:
        return False
    if spec["when"] == "after" and spec.get("via") == "config":
        return False
    if spec.get("via") == "api" and m != "acl":
        return False  # the Python API realisation exists for rule lists only
    return True


def block_requests(spec: Dict) -> List[Dict]:
    """The block as a list of agent actions ({"action", "options"}), formed into requests by the check."""
    t = block_target(spec)
    m = t["mech"]
    if m == "acl":
        acl = t["acl"]
        out = []
        for i, rule in enumerate(t["rules"]):
            opts = dict(rule, permission="DENY", position=t["pos"] + i)
            if acl["kind"] == "router":
                out.append({"action": "router-acl-add-rule", "options": dict(opts, target_router=acl["dev"])})
            else:
                out.append({"action": "firewall-acl-add-rule",
                            "options": dict(opts, target_firewall_nodename=acl["dev"], firewall_port_name=acl["port"],
                                            firewall_port_direction=acl["dir"])})
        return out
    if m == "nic":
        return [{"action": "host-nic-disable", "options": {"node_name": t["node"], "nic_num": 1}}]
    if m in ("swport", "l3port"):
        return [{"action": "network-port-disable", "options": {"target_nodename": t["node"], "port_num": t["port"]}}]
    if m == "off":
        return [{"action": "node-shutdown", "options": {"node_name": t["node"]}}]
    raise ValueError(m)


# ---------------------------------------------------------------------------------------------------------------------


def build(spec: Dict, with_block: bool = True) -> Tuple[Dict, Dict]:
    """spec -> (scenario dict, meta). `with_block=False` gives the unblocked control scenario."""
    fam = spec["fam"]
    P = plan(spec)
    dur = int(spec.get("dur", 1))
    ip_a, ip_b = P["ip_a"], P["ip_b"]
    in_cfg = with_block and spec["when"] == "before" and spec.get("via") == "config"
    tgt = block_target(spec) if in_cfg else None
    common = {"start_up_duration": dur, "shut_down_duration": dur}
    nodes: List[Dict] = []
    links: List[Dict] = []

    def link(a, ap, b, bp):
        if tgt and tgt["mech"] == "link":
            la = tgt["link"]
            if (a, ap, b, bp) == tuple(la) or (b, bp, a, ap) == tuple(la):
                return
        links.append({"endpoint_a_hostname": a, "endpoint_a_port": ap, "endpoint_b_hostname": b, "endpoint_b_port": bp,
                      "bandwidth": BW})

    def cfg_acl(dev: str, port: Optional[str] = None, di: Optional[str] = None) -> Dict[int, Dict]:
        acl = _permit_all()
        if tgt and tgt["mech"] == "acl":
            a = tgt["acl"]
            if a["dev"] == dev and a.get("port") == port and a.get("dir") == di:
                for i, rule in enumerate(tgt["rules"]):
                    acl[tgt["pos"] + i] = _cfg_rule(rule)
        return acl

    gw: Dict[Any, Optional[str]] = {}
    # -- network devices
    if fam == "LAN1":
        nodes.append({"type": "switch", "hostname": "sw0", "num_ports": 8, **common})
        sw_zone = {0: "sw0"}
        gw = {0: None}
    elif fam == "LAN2":
        nodes.append({"type": "switch", "hostname": "sw0", "num_ports": 8, **common})
        nodes.append({"type": "switch", "hostname": "sw1", "num_ports": 8, **common})
        link("sw0", 8, "sw1", 8)
        sw_zone = {0: "sw0", 1: "sw1"}
        gw = {0: None, 1: None}
    elif fam == "R1":
        nodes.append({"type": "router", "hostname": "r0", "num_ports": 3, **common,
                      "ports": {1: {"ip_address": f"{ZONE_NET[0]}.1", "subnet_mask": "255.255.255.0"},
                                2: {"ip_address": f"{ZONE_NET[1]}.1", "subnet_mask": "255.255.255.0"}},
                      "acl": cfg_acl("r0")})
        for z in (0, 1):
            nodes.append({"type": "switch", "hostname": f"sw{z}", "num_ports": 8, **common})
            link(f"sw{z}", 8, "r0", z + 1)
        sw_zone = {0: "sw0", 1: "sw1"}
        gw = {0: f"{ZONE_NET[0]}.1", 1: f"{ZONE_NET[1]}.1"}
    elif fam == "R2":
        for z in (0, 1):
            o = 1 - z
            rc = {"type": "router", "hostname": f"r{z}", "num_ports": 3, **common,
                  "ports": {1: {"ip_address": f"{ZONE_NET[z]}.1", "subnet_mask": "255.255.255.0"},
                            2: {"ip_address": f"10.0.0.{1 + z}", "subnet_mask": "255.255.255.252"}},
                  "acl": cfg_acl(f"r{z}")}
            if spec.get("routes") == f"default{z}":
                rc["default_route"] = {"next_hop_ip_address": f"10.0.0.{1 + o}"}
            else:
                rc["routes"] = [{"address": f"{ZONE_NET[o]}.0", "subnet_mask": "255.255.255.0",
                                 "next_hop_ip_address": f"10.0.0.{1 + o}", "metric": 0}]
            nodes.append(rc)
            nodes.append({"type": "switch", "hostname": f"sw{z}", "num_ports": 8, **common})
            link(f"sw{z}", 8, f"r{z}", 1)
        link("r0", 2, "r1", 2)
        sw_zone = {0: "sw0", 1: "sw1"}
        gw = {0: f"{ZONE_NET[0]}.1", 1: f"{ZONE_NET[1]}.1"}
    else:  # DMZ
        acl = {}
        for name in FW_LISTS:
            zone, di = name.rsplit("_acl", 1)[0].rsplit("_", 1)
            acl[name] = cfg_acl("fw", zone, di)
        nodes.append({"type": "firewall", "hostname": "fw", **common,
                      "ports": {FW_PORT_NAME[z]: {"ip_address": f"{ZONE_NET[z]}.1", "subnet_mask": "255.255.255.0"}
                                for z in ("ext", "int", "dmz")},
                      "acl": acl})
        for z in ("ext", "int", "dmz"):
            nodes.append({"type": "switch", "hostname": f"sw_{z}", "num_ports": 8, **common})
            link(f"sw_{z}", 8, "fw", FW_PORT[z])
        sw_zone = {z: f"sw_{z}" for z in ("ext", "int", "dmz")}
        gw = {z: f"{ZONE_NET[z]}.1" for z in ("ext", "int", "dmz")}

    za = spec["za"] if fam != "LAN1" else 0
    zb = spec["zb"] if fam != "LAN1" else 0

    # -- victim B (first host in the node list: its own per-tick work runs right after the harness pins the entropy)
    pw = "pw" if spec.get("db_pw") else None
    b_sw = list(spec.get("b_sw", []))
    b_services: List[Dict] = [{"type": "database-service", "options": {"db_password": pw}} if pw else {"type": "database-service"},
                              {"type": "ftp-server"}]
    b_apps: List[Dict] = []
    if "web" in b_sw:
        b_services.append({"type": "web-server"})
    # no database-client on the victim: it listens on the database-service's port and would shadow it in the victim's
    # port map (that is C13's open finding, not this property's business)
    if "c2b" in b_sw:
        b_apps.append({"type": "ransomware-script", "options": {"server_ip": ip_b}})
        b_apps.append({"type": "c2-beacon", "options": {"c2_server_ip_address": ip_a,
                                                        "keep_alive_frequency": int(spec.get("kaf", 3))}})
    if "c2s" in b_sw and "c2b" not in b_sw:
        b_apps.append({"type": "c2-server"})
    nb = {"type": "server", "hostname": B, "ip_address": ip_b, "subnet_mask": "255.255.255.0", **common,
          "services": b_services,
          "folders": [{"folder_name": "docs", "files": [{"file_name": "secret.txt"}]}],
          "users": [{"username": "u0", "password": "p0", "is_admin": False}]}
    if b_apps:
        nb["applications"] = b_apps
    if gw[zb]:
        nb["default_gateway"] = gw[zb]
    if tgt and tgt["mech"] == "off" and tgt["node"] == B:
        nb["operating_state"] = "OFF"

    # -- attacker A
    a_sw = list(spec.get("a_sw", []))
    o = {"db_server_ip": ip_b}
    if pw:
        o["server_password"] = pw
    a_apps: List[Dict] = [{"type": "database-client", "options": o}]
    if "dmbot" in a_sw:
        a_apps.append({"type": "data-manipulation-bot",
                       "options": {"port_scan_p_of_success": 1.0, "data_manipulation_p_of_success": 1.0,
                                   "payload": "DELETE", "server_ip": ip_b, **({"server_password": pw} if pw else {})}})
    if "ransom" in a_sw:
        a_apps.append({"type": "ransomware-script", "options": {"server_ip": ip_b, **({"server_password": pw} if pw else {})}})
    if "dos" in a_sw:
        # no target in the scenario: a configured dos-bot attacks on every tick by itself, and the idle run must be idle;
        # the `configure dos` operation gives it its target
        a_apps.append({"type": "dos-bot", "options": {"payload": "SPOOF DATA", "port_scan_p_of_success": 1.0,
                                                      "max_sessions": 8, "repeat": True}})
    if "c2s" in a_sw:
        a_apps.append({"type": "c2-server"})
    if "c2b" in a_sw and "c2s" not in a_sw:
        a_apps.append({"type": "c2-beacon", "options": {"c2_server_ip_address": ip_b, "keep_alive_frequency": 2}})
    na = {"type": "computer", "hostname": A, "ip_address": ip_a, "subnet_mask": "255.255.255.0", **common,
          "services": [{"type": "ftp-client"}], "applications": a_apps,
          "folders": [{"folder_name": "loot", "files": [{"file_name": "a.txt"}]}]}
    if gw[za]:
        na["default_gateway"] = gw[za]

    hosts = [nb, na]
    # third hosts
    port_next = {z: 2 for z in sw_zone}
    if fam == "LAN1":
        port_next[0] = 3
    extras = []
    for i, z in enumerate(spec.get("extra", [])):
        if z not in sw_zone:
            z = list(sw_zone)[0]
        name = f"hC{i}"
        nc = {"type": "computer", "hostname": name, "ip_address": f"{ZONE_NET[z] if fam not in ('LAN1', 'LAN2') else ZONE_NET[0]}.{30 + i}",
              "subnet_mask": "255.255.255.0", **common}
        if gw[z]:
            nc["default_gateway"] = gw[z]
        hosts.append(nc)
        extras.append((name, z, port_next[z]))
        port_next[z] += 1

    nodes = [nb] + nodes + hosts[1:]
    # host links (A and B use the ports recorded in the plan)
    sa, pa_ = P["sw_of"][A]
    sb, pb_ = P["sw_of"][B]
    link(A, 1, sa, pa_)
    link(sb, pb_, B, 1)
    for name, z, port in extras:
        link(sw_zone[z], port, name, 1)

    game = {"max_episode_length": 256, "ports": list(ALL_PORTS), "protocols": list(ALL_PROTOCOLS)}
    net: Dict[str, Any] = {"nodes": nodes, "links": links}
    if spec.get("nmne") is not None:
        net["nmne_config"] = {"capture_nmne": bool(spec["nmne"]), "nmne_capture_keywords": ["DELETE", "ENCRYPT", "SPOOF"]}
    cfg = {"metadata": {"version": 3.0}, "io_settings": dict(IO_OFF), "game": game, "agents": [],
           "simulation": {"network": net}}
    meta = dict(P, extras=[e[0] for e in extras], pw=pw, dur=dur, kaf=int(spec.get("kaf", 3)))
    return cfg, meta
