"""C10 — reward = weighted sum of components; shared rewards use same-step values; cycles rejected (DESIGN §C10)."""
from __future__ import annotations

import itertools
import math
from typing import Any, Dict, List, Optional, Tuple

from hypothesis import strategies as st

import primaite.session.environment  # noqa: F401  (pulled in once by the parent so that forked workers do not each pay for it)

from .. import c10_scn as S
from ..harness import CaseResult, Ctx, enum_run, hyp_run
from ..simutil import exc_msg, exc_sig, new_env, new_game

ID = "C10"
WORKERS = {"quick": 8, "thorough": 16}
SHRINK_KEY = ["ops", "edges"]
RULE = (
    "three case kinds. kind=unit: a webpage-unavailable / green-admin-database-unreachable component (sticky or not) "
    "fed every sequence up to length 3 (thorough: 4) over {no own request, own execute request answered success / "
    "failure / unreachable / pending} with the state a simulation shows in that situation; database-file-integrity fed "
    "every file situation (six FileSystemItemHealthStatus values, file absent) alone and in ordered pairs; "
    "web-server-404-penalty (sticky or not) fed every multiset of <=2 (thorough <=3) HTTP status codes per step over "
    "{200,400,401,404,405,500} (or none) in every sequence of <=2 steps; action-penalty for every penalty pair; dummy. "
    "Non-trivial unit case = contains an unreachable/pending answer, a file status other than GOOD/COMPROMISED, or a "
    "mixed / non-200-404 code list. kind=graph: a digraph of shared-reward dependencies (edge i->j: agent i has a shared-reward "
    "component naming agent j; self-loops allowed) over n scripted do-nothing agents on an empty network, declared in a "
    "given order; enumerated exhaustively (all digraphs incl. self-loops on <=3 agents under all declaration orders; "
    "thorough adds all 4096 loop-free digraphs on 4 agents under 8 of the 24 orders each plus every one of them with "
    "one self-loop, and random digraphs on 5-7 agents). Non-trivial graph case = >=2 edges and (cyclic or declaration "
    "order not already dependencies-first); distinct by (n, edges, order). kind=run: a LAN with a web server, a "
    "database server and one client host per agent (2-4 agents: ag0 = proxy/RL agent, others probabilistic agents whose "
    "RNG is replaced by a scripted choice), generated reward configs (0-5 components per agent from all 7 shipped "
    "types, weights incl. 0/negative/omitted, sticky true/false/omitted, acyclic sharing; a watched application may be "
    "missing from a host from the start or be uninstalled/re-installed by ag0 so that own execute requests are answered "
    "`unreachable` as well as `failure`), a declaration order, and an "
    "op list of steps (one action index per agent) and resets. Non-trivial run case = sharing chain of depth >=2 AND "
    "declaration order not already dependencies-first AND some agent's reward differs between two consecutive steps; "
    "distinct by case hash."
)
ASSUMPTIONS = [
    "a probabilistic agent whose action probabilities are all positive can emit any action sequence, so replacing its "
    "numpy Generator by a scripted `choice` stays inside the documented behaviour (harness-owned entropy)",
    "component return values are observed by class-level wrappers around `calculate` (observe-only, installed for the "
    "duration of a case in the check process)",
    "sticky reference (docs/source/rewards.rst + component docstrings): value changes only on a qualifying event "
    "(web-server-404: the web server produced response codes this step -> mean of +1 for 200 / -1 for 404 / 0 otherwise; "
    "webpage-unavailable / green-admin-database-unreachable: the agent's own execute request for that application on "
    "the configured host, for all four response statuses: success -> +1, failure / unreachable -> -1, pending -> not "
    "positive (positive only on success)); without an event sticky keeps the last "
    "value and non-sticky returns 0; with the sticky flag omitted only event steps are checked; while the watched "
    "application is not installed a sticky webpage-unavailable-penalty may keep its value or drop to 0 (docs silent)",
    "database-file-integrity reference: GOOD -> +1, COMPROMISED -> -1 (docstring, UC7 notebook, unit scale of all shipped "
    "components); NONE / CORRUPT / RESTORING / REPAIRING / file not in the state -> not positive (no document names a "
    "value, the code returns 0); at run time the file's status is read from a fresh post-step describe_state()",
    "no shipped reward component reads a SoftwareHealthState or a node/service operating state, so there is nothing "
    "to enumerate for those",
    "`pending` cannot be produced for an application execute request by the simulator (its handlers answer through "
    "RequestResponse.from_bool), so that status is exercised at component level only (kind=unit)",
    "the metamorphic relation is asserted only for 'iso' cases, in which every agent's actions touch only its own client "
    "host (browser / db-client execute, own NIC off/on) so the order in which agents act cannot matter",
    "any exception from PrimaiteGame.from_config on a cyclic sharing graph counts as rejection",
]

TOL = 1e-9


def _close(a: float, b: float, scale: float = 0.0) -> bool:
    return abs(a - b) <= TOL * max(1.0, abs(a), abs(b), scale)


# ---------------------------------------------------------------------------------------------------------------------
# independent graph facts (Warshall closure — not the DFS used by primaite.game.science)


def closure(n: int, edges: List[List[int]]) -> List[List[bool]]:
    r = [[False] * n for _ in range(n)]
    for i, j in edges:
        r[i][j] = True
    for k in range(n):
        for i in range(n):
            if r[i][k]:
                for j in range(n):
                    if r[k][j]:
                        r[i][j] = True
    return r


def is_cyclic(n: int, edges: List[List[int]]) -> bool:
    r = closure(n, edges)
    return any(r[i][i] for i in range(n))


def chain_depth(n: int, edges: List[List[int]]) -> int:
    """Longest path (in edges) of an acyclic graph."""
    memo: Dict[int, int] = {}
    adj = {i: [j for a, j in edges if a == i] for i in range(n)}

    def d(i):
        if i not in memo:
            memo[i] = 0
            memo[i] = max([1 + d(j) for j in adj[i]] or [0])
        return memo[i]

    return max([d(i) for i in range(n)] or [0])


def decl_is_topological(order: List[int], edges: List[List[int]]) -> bool:
    pos = {a: p for p, a in enumerate(order)}
    return all(pos[j] < pos[i] for i, j in edges)


# ---------------------------------------------------------------------------------------------------------------------
# kind = graph


def run_graph(case: Dict) -> CaseResult:
    res = CaseResult()
    n, edges, order = case["n"], [list(e) for e in case["edges"]], list(case["order"])
    names = case.get("names") or [S.agent_name(i) for i in range(n)]
    cyclic = is_cyclic(n, edges)
    selfloop = any(i == j for i, j in edges)
    res.label(f"graph:n={n}", "graph:cyclic" if cyclic else "graph:acyclic")
    topo_decl = decl_is_topological(order, edges) if not cyclic else False
    res.nontrivial = ("g", n, tuple(sorted(map(tuple, edges))), tuple(order)) if (
        len(edges) >= 2 and (cyclic or not topo_decl)) else False
    cfg = S.graph_cfg(names, edges, order)
    try:
        game = new_game(cfg)
    except Exception as e:
        if not cyclic:
            res.violate(f"raise:load-acyclic:{exc_sig(e)}", f"acyclic sharing graph {edges} order {order} rejected: {exc_msg(e)}")
        else:
            res.label("graph:rejected:" + type(e).__name__)
        return res
    if cyclic:
        kind = "self-loop" if selfloop else "cycle"
        res.violate(f"cyclic-accepted:{kind}", f"sharing graph {edges} (n={n}, order {order}) is cyclic but the scenario loaded")
        return res
    calc = list(game._reward_calculation_order)
    if sorted(calc) != sorted(names[i] for i in range(n)):
        res.violate("calc-order:not-a-permutation", f"graph {edges} order {order}: _reward_calculation_order={calc}")
        return res
    pos = {a: p for p, a in enumerate(calc)}
    for i, j in edges:
        if not pos[names[j]] < pos[names[i]]:
            res.violate("calc-order:dependency-after-dependant",
                        f"graph {edges} order {order}: {names[i]} depends on {names[j]} but order is {calc}")
            break
    if not topo_decl:
        res.label("graph:decl-not-topological")
    return res


# ---------------------------------------------------------------------------------------------------------------------
# kind = run


class _Script:
    """Stands in for numpy's Generator in a ProbabilisticAgent: the next choice is supplied by the case."""

    def __init__(self):
        self.k = 0

    def choice(self, n, p=None):
        return int(self.k) % int(n)


class _Recorder:
    """Class-level observe-only wrappers around every registered reward component's calculate()."""

    def __init__(self):
        self.values: Dict[int, List[float]] = {}
        self._saved: List[Tuple[type, Any]] = []

    def install(self):
        from primaite.game.agent.rewards import AbstractReward

        rec = self
        for cls in set(AbstractReward._registry.values()):
            if "calculate" not in cls.__dict__:
                continue
            orig = cls.__dict__["calculate"]

            def wrapped(self_, *a, _orig=orig, **kw):
                v = _orig(self_, *a, **kw)
                rec.values.setdefault(id(self_), []).append(v)
                return v

            self._saved.append((cls, orig))
            setattr(cls, "calculate", wrapped)

    def uninstall(self):
        for cls, orig in self._saved:
            setattr(cls, "calculate", orig)
        self._saved = []


STATUSES = ["success", "failure", "unreachable", "pending"]
FILE_HEALTH = {"NONE": 0, "GOOD": 1, "COMPROMISED": 2, "CORRUPT": 3, "RESTORING": 4, "REPAIRING": 5}
FILE_SITUATIONS = list(FILE_HEALTH) + ["ABSENT"]
HTTP_CODES = [200, 400, 401, 404, 405, 500]


def file_integrity_ref(situation: str):
    """database-file-integrity (docstring: 'rewards the agent for maintaining the integrity of a database file';
    UC7 notebook: 'negative reward when the database.db file ... enters into a COMPROMISED state'; unit scale +-1 as every
    shipped component): GOOD -> +1, COMPROMISED -> -1, every other status (NONE, CORRUPT, RESTORING, REPAIRING) and a file
    that is not in the state -> not positive (no document gives these a value; the code returns 0)."""
    if situation == "GOOD":
        return (lambda v: v == 1), "1"
    if situation == "COMPROMISED":
        return (lambda v: v == -1), "-1"
    return (lambda v: v <= 0), "<= 0 (not positive)"


def codes_ref(codes: List[int]) -> float:
    return sum(1.0 if c == 200 else -1.0 if c == 404 else 0.0 for c in codes) / len(codes)


def file_situation(state: Dict, host: str, folder: str, fname: str) -> str:
    """Own traversal of a describe_state() tree."""
    try:
        f = state["network"]["nodes"][host]["file_system"]["folders"][folder]["files"][fname]
    except (KeyError, TypeError):
        return "ABSENT"
    inv = {v: k for k, v in FILE_HEALTH.items()}
    return inv.get(f.get("health_status"), "ABSENT")


def action_component_ref(status: Optional[str], sticky: Optional[bool], mem: float, app_absent: bool, absent_resets: bool):
    """Reference for the two components driven by the agent's own execute request (rewards.rst + docstrings).

    status = response status of the own execute request this step, None when there was no such request.
    Rule: positive only on success: success -> +1, failure / unreachable -> -1, pending -> not positive (the docs name
    no value for an unresolved request: 0 and -1 are both accepted). No request: sticky keeps the last value (a component
    that reads the application's state may alternatively drop to 0 while that application is not installed, the docs
    are silent; for the same reason it may answer 0 instead of +1 for a successful request when the application is gone
    from the post-step state), non-sticky returns 0, flag omitted -> unchecked.
    Returns (event label, predicate on v, text of what was expected).
    """
    if status is not None:
        if status == "success":
            if app_absent and absent_resets:
                # the request succeeded, but another agent uninstalled the application later in the same step: the
                # component reads the outcome from the post-step state, which no longer reports the application, and
                # documents "could not be calculated ... Returning 0.0" for that situation
                return "event-success", (lambda v: _close(v, 1.0) or v == 0.0), "1.0 or 0.0 (application absent after the step)"
            return "event-success", (lambda v: _close(v, 1.0)), "1.0"
        if status == "pending":
            return "event-pending", (lambda v: v <= 0.0), "<= 0"
        return f"event-{status}", (lambda v: _close(v, -1.0)), "-1.0"
    if sticky is None:
        return "noevent", (lambda v: True), "unchecked"
    if sticky:
        if app_absent and absent_resets:
            return "noevent", (lambda v: _close(v, mem) or v == 0.0), f"{mem!r} or 0.0 (application absent)"
        return "noevent", (lambda v: _close(v, mem)), repr(mem)
    return "noevent", (lambda v: v == 0.0), "0.0"


def _own_request(host: str, app: str) -> List[str]:
    return ["network", "node", host, "application", app, "execute"]


def _web_codes(game) -> List[int]:
    node = game.simulation.network.get_node_by_hostname(S.WEB)
    svc = node.software_manager.software.get("web-server")
    if svc is None:
        return []
    return [c.value for c in svc.response_codes_this_timestep]


def resolve_actions(case: Dict, acts: List[int]) -> List[int]:
    n = case["n"]
    n_blue = S.OWN_ACTIONS if case.get("iso") else S.OWN_ACTIONS + len(S.blue_extra_actions())
    out = []
    for i in range(n):
        k = int(acts[i]) if i < len(acts) else 0
        out.append(k % (n_blue if i == 0 else S.OWN_ACTIONS))
    return out


def play(case: Dict, order: List[int], res: CaseResult, tag: str = "") -> Optional[Dict]:
    """Run the case under one declaration order with all per-step oracles on. Returns per-agent reward sequences."""
    n = case["n"]
    agents_c = case["agents"]
    cfg = S.runtime_cfg(agents_c, order, case["hosts"], case.get("dbpw"))
    names = [S.agent_name(i) for i in range(n)]
    blue = names[0]
    rec = _Recorder()
    rec.install()

    def viol(sig: str, msg: str):  # one message per signature and case (the run continues behind a violation)
        if all(s_ != sig for s_, _ in res.violations):
            res.violate(sig, msg)

    try:
        try:
            env = new_env(cfg)
        except Exception as e:
            viol(f"raise:build:{exc_sig(e)}", f"{tag}build: {exc_msg(e)}")
            return None
        scripts = {nm: _Script() for nm in names[1:]}
        seqs: Dict[str, List] = {nm: [] for nm in names}
        stats = {"varied": False, "episodes": 0, "steps": 0, "events": 0, "sticky_holds": 0, "nonzero_shared": 0}
        memory: Dict[Tuple[str, int], float] = {}
        prev_reward: Dict[str, Optional[float]] = {}

        def do_reset(i, op) -> bool:
            try:
                env.reset()
            except Exception as e:
                viol(f"raise:reset:{exc_sig(e)}", f"{tag}op#{i} {op}: {exc_msg(e)}")
                return False
            for nm, sc in scripts.items():
                env.game.agents[nm].rng = sc
            memory.clear()
            prev_reward.clear()
            stats["episodes"] += 1
            for nm in names:
                rf = env.game.agents[nm].reward_function
                if rf.total_reward != 0 or rf.current_reward != 0:
                    viol("episode-start-reward-not-zero", f"{tag}op#{i}: {nm} total={rf.total_reward} cur={rf.current_reward}")
                    return False
            return True

        ops = [["reset"]] + [list(o) for o in case["ops"]]
        for i, op in enumerate(ops):
            if op[0] == "reset":
                if not do_reset(i, op):
                    return None
                continue
            acts = resolve_actions(case, op[1])
            for k, nm in enumerate(names):
                if k:
                    scripts[nm].k = acts[k]
            rec.values.clear()
            game = env.game
            try:
                out = env.step(acts[0])
            except Exception as e:
                viol(f"raise:step:{exc_sig(e)}", f"{tag}op#{i} {op}: {exc_msg(e)}")
                return None
            stats["steps"] += 1
            when = f"{tag}op#{i} acts={acts} ep={stats['episodes']}"
            codes = _web_codes(game)
            fresh_state = None
            cur = {nm: game.agents[nm].reward_function.current_reward for nm in names}
            # reward returned to the RL loop
            if out[1] != cur[blue]:
                viol("env-step-reward-differs", f"{when}: env.step returned {out[1]!r}, {blue}.current_reward={cur[blue]!r}")
            for ai, nm in enumerate(names):
                ag = game.agents[nm]
                rf = ag.reward_function
                comps = rf.reward_components
                ccfg = agents_c[ai]["comps"]
                if len(comps) != len(ccfg):
                    viol("components-not-as-configured", f"{when}: {nm} has {len(comps)} components, configured {len(ccfg)}")
                    return None
                last = ag.history[-1]
                total, scale = 0.0, 0.0
                for ci, ((comp, w), cc) in enumerate(zip(comps, ccfg)):
                    t = cc["type"]
                    w_cfg = 1.0 if cc.get("weight") is None else cc["weight"]
                    if w != w_cfg:
                        viol("weight-not-as-configured", f"{when}: {nm}#{ci} {t} weight {w} configured {w_cfg}")
                    vals = rec.values.get(id(comp))
                    if not vals:
                        viol(f"component-not-evaluated:{t}", f"{when}: {nm}#{ci} {t} was not evaluated in this step")
                        continue
                    v = vals[-1]
                    total += w_cfg * v
                    scale += abs(w_cfg * v)
                    sticky = cc.get("sticky")
                    skey = "default" if sticky is None else ("sticky" if sticky else "nonsticky")
                    if t == "shared-reward":
                        tgt = S.agent_name(cc["agent"])
                        if not _close(v, cur[tgt]):
                            viol("shared-reward-not-same-step",
                                        f"{when}: {nm}#{ci} got {v!r} from {tgt} whose reward for this step is {cur[tgt]!r} "
                                        f"(previous step {prev_reward.get(tgt)!r}); declaration order {order}")
                        if v != 0:
                            stats["nonzero_shared"] += 1
                    elif t == "dummy":
                        if v != 0:
                            viol("component-value:dummy", f"{when}: {nm}#{ci} dummy returned {v!r}")
                    elif t == "action-penalty":
                        exp = cc["dn"] if last.action == "do-nothing" else cc["ap"]
                        if not _close(v, exp):
                            viol("component-value:action-penalty", f"{when}: {nm}#{ci} action {last.action}: {v!r} != {exp!r}")
                    elif t == "database-file-integrity":
                        # evaluated on the post-step state: a fresh instance on a fresh state must agree
                        if fresh_state is None:
                            fresh_state = game.get_sim_state()
                        v2 = type(comp)(config=comp.config).calculate(fresh_state, last)
                        if v != v2:
                            viol("component-not-post-step:database-file-integrity",
                                        f"{when}: {nm}#{ci} returned {v!r}, the post-step state gives {v2!r}")
                        sit = file_situation(fresh_state, S.DB, S.DB_FOLDER, cc.get("file", S.DB_FILE))
                        stats["file:" + sit] = stats.get("file:" + sit, 0) + 1
                        okf, exp_txt = file_integrity_ref(sit)
                        if not okf(v):
                            viol(f"component-value:database-file-integrity:{sit}",
                                 f"{when}: {nm}#{ci} watched file is {sit} after the step: returned {v!r}, reference {exp_txt}")
                    elif t == "web-server-404-penalty":
                        key = (nm, ci)
                        if codes:
                            exp = codes_ref(codes)
                            ev = "event"
                            stats["events"] += 1
                        elif sticky is None:
                            exp, ev = None, "noevent"
                        elif sticky:
                            exp, ev = memory.get(key, 0.0), "noevent"
                            if exp != 0:
                                stats["sticky_holds"] += 1
                        else:
                            exp, ev = 0.0, "noevent"
                        if exp is not None and not _close(v, exp):
                            viol(f"sticky-model:{t}:{skey}:{ev}", f"{when}: {nm}#{ci} codes={codes} returned {v!r}, reference {exp!r}")
                        memory[key] = v if exp is None else exp
                    elif t in ("webpage-unavailable-penalty", "green-admin-database-unreachable-penalty"):
                        key = (nm, ci)
                        app = "web-browser" if t == "webpage-unavailable-penalty" else "database-client"
                        hname = S.host_name(cc["host"])
                        event = list(last.request) == _own_request(hname, app)
                        status = last.response.status if event else None
                        node = game.simulation.network.get_node_by_hostname(hname)
                        absent = node.software_manager.software.get(app) is None
                        mem = memory.get(key, 0.0)
                        ev, ok, exp_txt = action_component_ref(status, sticky, mem, absent, t == "webpage-unavailable-penalty")
                        if event:
                            stats["events"] += 1
                            stats["status:" + status] = stats.get("status:" + status, 0) + 1
                        elif sticky and mem != 0:
                            stats["sticky_holds"] += 1
                        if not ok(v):
                            viol(f"sticky-model:{t}:{skey}:{ev}",
                                        f"{when}: {nm}#{ci} host={hname} last action {last.action} "
                                        f"{list(last.request)} -> {last.response.status}: returned {v!r}, reference {exp_txt}")
                            # the reference's memory follows the reference where it names one value
                            memory[key] = {"event-success": 1.0, "event-failure": -1.0, "event-unreachable": -1.0}.get(
                                ev, 0.0 if (ev == "event-pending" or not sticky) else mem)
                        else:
                            memory[key] = v
                # weighted sum
                if not _close(rf.current_reward, total, scale):
                    viol("reward-not-weighted-sum", f"{when}: {nm} current_reward={rf.current_reward!r}, sum(w*v)={total!r}")
                # history + total
                if last.reward is None or last.reward != rf.current_reward:
                    viol("history-reward-differs", f"{when}: {nm} history[-1].reward={last.reward!r} current={rf.current_reward!r}")
                hs = [h.reward for h in ag.history]
                if any(h is None for h in hs):
                    viol("history-reward-missing", f"{when}: {nm} history rewards {hs}")
                else:
                    s = math.fsum(hs)
                    if not _close(rf.total_reward, s, math.fsum(abs(h) for h in hs)):
                        viol("total-not-sum-of-steps", f"{when}: {nm} total_reward={rf.total_reward!r}, sum(history)={s!r} ({len(hs)} steps)")
                seqs[nm].append((stats["episodes"], rf.current_reward))
                pr = prev_reward.get(nm)
                if pr is not None and pr != rf.current_reward:
                    stats["varied"] = True
                prev_reward[nm] = rf.current_reward
        return {"seqs": seqs, "stats": stats}
    finally:
        rec.uninstall()


def case_edges(case: Dict) -> List[List[int]]:
    e = []
    for i, a in enumerate(case["agents"]):
        for c in a["comps"]:
            if c["type"] == "shared-reward":
                e.append([i, c["agent"]])
    return e


def run_run(case: Dict) -> CaseResult:
    res = CaseResult()
    n = case["n"]
    edges = case_edges(case)
    if is_cyclic(n, edges):  # generator never produces these; a shrunk/hand-made case could
        raise ValueError("run case with cyclic sharing (covered by kind=graph)")
    order = list(case["order"])
    r1 = play(case, order, res)
    depth = chain_depth(n, edges)
    topo = decl_is_topological(order, edges)
    res.label(f"run:n={n}", f"run:depth={depth}", "run:iso" if case.get("iso") else "run:mix",
              "run:decl-topological" if topo else "run:decl-not-topological")
    for a in case["agents"]:
        for c in a["comps"]:
            res.label("comp:" + c["type"])
    if r1 is None:
        return res
    stt = r1["stats"]
    res.label(f"run:episodes={min(stt['episodes'], 4)}")
    if stt["varied"]:
        res.label("run:rewards-varied")
    if stt["events"]:
        res.label("run:has-sticky-event")
    if stt["sticky_holds"]:
        res.label("run:sticky-held-nonzero")
    if stt["nonzero_shared"]:
        res.label("run:nonzero-shared-value")
    for st_ in STATUSES:
        if stt.get("status:" + st_):
            res.label("run:own-execute-" + st_)
    for sit in FILE_SITUATIONS:
        if stt.get("file:" + sit):
            res.label("run:watched-file-" + sit)
    if case.get("iso") and case.get("order2"):
        order2 = list(case["order2"])
        res2 = CaseResult()
        r2 = play(case, order2, res2, tag="[order2] ")
        have = {s_ for s_, _ in res.violations}
        for s_, m_ in res2.violations:
            if s_ not in have:
                res.violate(s_, m_)
        if r2 is not None:
            res.label("run:metamorphic-compared")
            for nm in r1["seqs"]:
                a, b = r1["seqs"][nm], r2["seqs"][nm]
                bad = [k for k in range(min(len(a), len(b))) if a[k][0] != b[k][0] or not _close(a[k][1], b[k][1])]
                if len(a) != len(b) or bad:
                    k = bad[0] if bad else min(len(a), len(b))
                    res.violate("decl-order-changes-reward" + (":with-sharing" if edges else ":no-sharing"),
                                f"{nm}: step #{k}: order {order} gives {a[k] if k < len(a) else None}, order {order2} gives "
                                f"{b[k] if k < len(b) else None}")
                    break
    res.nontrivial = bool(depth >= 2 and not topo and stt["varied"])
    if res.nontrivial:
        res.label("run:nontrivial")
    return res


# ---------------------------------------------------------------------------------------------------------------------
# kind = unit: the two action-triggered components against every response status of the triggering action


def run_unit(case: Dict) -> CaseResult:
    """ops = sequence over {"none"} + STATUSES: what the agent's own execute request for the watched application was
    answered with in that step ("none" = the agent did something else). The state handed to the component is what a
    simulation shows in that situation: the browser history persists, gains a 200 / 404 / PENDING entry on success /
    failure / pending, and the application is missing from the node in a step answered `unreachable` (re-installed
    with an empty history afterwards)."""
    from primaite.game.agent.interface import AgentHistoryItem
    from primaite.game.agent.rewards import AbstractReward
    from primaite.interface.request import RequestResponse

    res = CaseResult()
    t, sticky, host = case["type"], case.get("sticky"), "c0"
    if t in ("database-file-integrity", "web-server-404-penalty", "action-penalty", "dummy"):
        return run_unit_state(case, res)
    app = "web-browser" if t == "webpage-unavailable-penalty" else "database-client"
    skey = "sticky" if sticky else "nonsticky"
    cls = AbstractReward._registry[t]
    try:
        comp = cls(config=cls.ConfigSchema(node_hostname=host, sticky=sticky))
    except Exception as e:
        res.violate(f"raise:unit-build:{exc_sig(e)}", exc_msg(e))
        return res
    hist: List[Dict] = []
    mem = 0.0
    for i, op in enumerate(case["ops"]):
        status = None if op == "none" else op
        absent = status == "unreachable"
        if status == "success":
            hist.append({"url": "u", "outcome": 200})
        elif status == "failure":
            # what a failed fetch leaves behind varies: an error page, an unreachable server, or nothing at all
            out = [404, 500, "SERVER_UNREACHABLE", None][i % 4]
            if out is not None:
                hist.append({"url": "u", "outcome": out})
        elif status == "pending":
            hist.append({"url": "u", "outcome": "PENDING"})
        elif absent:
            hist = []
        apps = {} if absent else {app: {"history": list(hist)} if app == "web-browser" else {}}
        state = {"network": {"nodes": {host: {"applications": apps}}}}
        if status is None:
            item = AgentHistoryItem(timestep=i, action="do-nothing", parameters={}, request=["do-nothing"],
                                    response=RequestResponse(status="success", data={}))
        else:
            item = AgentHistoryItem(timestep=i, action="node-application-execute",
                                    parameters={"node_name": host, "application_name": app},
                                    request=_own_request(host, app), response=RequestResponse(status=status, data={}))
        try:
            v = comp.calculate(state, item)
        except Exception as e:
            res.violate(f"raise:unit:{t}:{exc_sig(e)}", f"op#{i} {op}: {exc_msg(e)}")
            break
        ev, ok, exp_txt = action_component_ref(status, sticky, mem, absent, t == "webpage-unavailable-penalty")
        if not ok(v):
            res.violate(f"sticky-model:{t}:{skey}:{ev}", f"unit ops={case['ops']} op#{i} {op}: returned {v!r}, reference {exp_txt}")
            break
        mem = v
    res.label("unit:" + t)
    for st_ in STATUSES:
        if st_ in case["ops"]:
            res.label("unit:status-" + st_)
    res.nontrivial = ("u", t, sticky, tuple(case["ops"])) if any(o in ("unreachable", "pending") for o in case["ops"]) else False
    return res


def run_unit_state(case: Dict, res: CaseResult) -> CaseResult:
    """Components that read the simulation state (or only the action name): every value of what they read.

    database-file-integrity: ops = file situations (all six FileSystemItemHealthStatus values, ABSENT);
    web-server-404-penalty: ops = lists of HTTP codes the web server answered with in that step ([] = none);
    action-penalty: ops = action names; dummy: ops = anything."""
    from primaite.game.agent.interface import AgentHistoryItem
    from primaite.game.agent.rewards import AbstractReward
    from primaite.interface.request import RequestResponse

    t, sticky, host = case["type"], case.get("sticky"), "srv"
    cls = AbstractReward._registry[t]
    idle = AgentHistoryItem(timestep=0, action="do-nothing", parameters={}, request=["do-nothing"],
                            response=RequestResponse(status="success", data={}))
    try:
        if t == "database-file-integrity":
            comp = cls(config=cls.ConfigSchema(node_hostname=host, folder_name="database", file_name="database.db"))
        elif t == "web-server-404-penalty":
            comp = cls(config=cls.ConfigSchema(node_hostname=host, service_name="web-server", sticky=sticky))
        elif t == "action-penalty":
            comp = cls(config=cls.ConfigSchema(action_penalty=case["ap"], do_nothing_penalty=case["dn"]))
        else:
            comp = cls(config=cls.ConfigSchema())
    except Exception as e:
        res.violate(f"raise:unit-build:{exc_sig(e)}", exc_msg(e))
        return res
    mem = 0.0
    skey = "sticky" if sticky else "nonsticky"
    for i, op in enumerate(case["ops"]):
        item = idle
        if t == "database-file-integrity":
            files = {} if op == "ABSENT" else {"database.db": {"health_status": FILE_HEALTH[op], "visible_status": 0}}
            state = {"network": {"nodes": {host: {"file_system": {"folders": {"database": {"files": files}}}}}}}
        elif t == "web-server-404-penalty":
            state = {"network": {"nodes": {host: {"services": {"web-server": {"response_codes_this_timestep": list(op)}}}}}}
        else:
            state = {"network": {"nodes": {}}}
            if t == "action-penalty":
                item = AgentHistoryItem(timestep=i, action=op, parameters={}, request=[op],
                                        response=RequestResponse(status="success", data={}))
        try:
            v = comp.calculate(state, item)
        except Exception as e:
            res.violate(f"raise:unit:{t}:{exc_sig(e)}", f"op#{i} {op}: {exc_msg(e)}")
            break
        if t == "database-file-integrity":
            okf, exp_txt = file_integrity_ref(op)
            if not okf(v):
                res.violate(f"component-value:database-file-integrity:{op}", f"unit ops={case['ops']} op#{i}: returned {v!r}, reference {exp_txt}")
                break
        elif t == "web-server-404-penalty":
            if op:
                exp, ev = codes_ref(op), "event"
            else:
                exp, ev = (mem if sticky else 0.0), "noevent"
            if not _close(v, exp):
                res.violate(f"sticky-model:{t}:{skey}:{ev}", f"unit ops={case['ops']} op#{i} codes={op}: returned {v!r}, reference {exp!r}")
                break
            mem = exp
        elif t == "action-penalty":
            exp = case["dn"] if op == "do-nothing" else case["ap"]
            if not _close(v, exp):
                res.violate("component-value:action-penalty", f"unit op#{i} action {op}: {v!r} != {exp!r}")
                break
        elif v != 0:
            res.violate("component-value:dummy", f"unit op#{i}: dummy returned {v!r}")
            break
    res.label("unit:" + t)
    if t == "database-file-integrity":
        res.nontrivial = ("u", t, tuple(case["ops"])) if any(o not in ("GOOD", "COMPROMISED") for o in case["ops"]) else False
    elif t == "web-server-404-penalty":
        mixed = any(len(set(o)) > 1 for o in case["ops"])
        if mixed:
            res.label("unit:404-mixed-codes")
        res.nontrivial = ("u", t, sticky, json_key(case["ops"])) if mixed or any(c not in (200, 404) for o in case["ops"] for c in o) else False
    return res


def json_key(x):
    return tuple(tuple(o) if isinstance(o, list) else o for o in x)


def unit_cases(tier: str):
    q = tier == "quick"
    # database-file-integrity: every file situation, alone and in every ordered pair (the component must be stateless)
    for depth in (1, 2):
        for ops in itertools.product(FILE_SITUATIONS, repeat=depth):
            yield {"kind": "unit", "type": "database-file-integrity", "ops": list(ops)}
    # web-server-404-penalty: every multiset of <=2 (thorough <=3) codes per step, every sequence of <=2 steps
    per_step = [[]] + [list(c) for k in range(1, 3 if q else 4) for c in itertools.combinations_with_replacement(HTTP_CODES, k)]
    for sticky in (True, False):
        for depth in (1, 2):
            for ops in itertools.product(per_step, repeat=depth):
                yield {"kind": "unit", "type": "web-server-404-penalty", "sticky": sticky, "ops": [list(o) for o in ops]}
    for ap, dn in itertools.product(PENS, PENS):
        yield {"kind": "unit", "type": "action-penalty", "ap": ap, "dn": dn,
               "ops": ["do-nothing", "node-application-execute", "do-nothing", "node-file-scan"]}
    yield {"kind": "unit", "type": "dummy", "ops": ["x", "y"]}
    alphabet = ["none"] + STATUSES
    for t in ("green-admin-database-unreachable-penalty", "webpage-unavailable-penalty"):
        for sticky in (True, False):
            for depth in range(1, 4 if tier == "quick" else 5):
                for ops in itertools.product(alphabet, repeat=depth):
                    yield {"kind": "unit", "type": t, "sticky": sticky, "ops": list(ops)}


def run_case(case: Dict) -> CaseResult:
    if case.get("kind") == "graph":
        return run_graph(case)
    if case.get("kind") == "unit":
        return run_unit(case)
    return run_run(case)


# ---------------------------------------------------------------------------------------------------------------------
# generators

WEIGHTS = [0.0, 1.0, -1.0, 0.5, 0.25, -0.3, 2.5, 1e-3, None]
PENS = [-1.0, -0.3, 0.0, 0.1, 1.0]
OWN_BIAS = [0, 0, 1, 1, 1, 1, 2, 2, 2, 3, 4]


@st.composite
def comp_strategy(draw, n: int):
    t = draw(st.sampled_from(["dummy", "database-file-integrity", "web-server-404-penalty", "web-server-404-penalty",
                              "webpage-unavailable-penalty", "webpage-unavailable-penalty",
                              "green-admin-database-unreachable-penalty", "green-admin-database-unreachable-penalty",
                              "action-penalty"]))
    w = draw(st.one_of(st.sampled_from(WEIGHTS), st.floats(-4, 4, allow_nan=False, allow_infinity=False)))
    c: Dict[str, Any] = {"type": t, "weight": w}
    if t in ("web-server-404-penalty", "webpage-unavailable-penalty", "green-admin-database-unreachable-penalty"):
        c["sticky"] = draw(st.sampled_from([True, True, True, False, False, False, None]))
    if t == "database-file-integrity":
        c["file"] = draw(st.sampled_from([S.DB_FILE, S.DB_FILE, S.DB_FILE, "absent.db"]))
    if t == "action-penalty":
        c["ap"] = draw(st.sampled_from(PENS))
        c["dn"] = draw(st.sampled_from(PENS))
    return c


@st.composite
def run_case_strategy(draw, max_ops: int = 30):
    n = draw(st.sampled_from([2, 3, 3, 4, 4, 4]))
    iso = draw(st.booleans())
    topo = draw(st.permutations(list(range(n))))  # hidden dependencies-first order => the sharing graph is acyclic
    dense = draw(st.sampled_from([0.3, 0.6, 0.9]))
    agents = []
    comps_of: Dict[int, List[Dict]] = {i: [] for i in range(n)}
    for p, i in enumerate(topo):
        for q in range(p):
            if draw(st.floats(0, 1)) < dense:
                comps_of[i].append({"type": "shared-reward", "agent": topo[q],
                                    "weight": draw(st.sampled_from([1.0, 1.0, 0.5, -1.0, 2.0, 0.0, None]))})
    for i in range(n):
        own = draw(st.lists(comp_strategy(n), min_size=0, max_size=3))
        for c in own:
            if "host" not in c and c["type"] in ("webpage-unavailable-penalty", "green-admin-database-unreachable-penalty"):
                # mostly the agent's own host (events reachable), sometimes another agent's host
                c["host"] = i if draw(st.integers(0, 4)) else draw(st.integers(0, n - 1))
        allc = comps_of[i] + own
        allc = list(draw(st.permutations(allc))) if allc else []
        agents.append({"comps": allc})
    hosts = [{"url": draw(st.sampled_from(["users", "users", "index", "missing", "dead"])),
              "pw": draw(st.sampled_from([True, True, True, False])),
              "noapp": draw(st.sampled_from([None, None, None, None, None, "database-client", "web-browser"]))}
             for _ in range(n)]
    dbpw = draw(st.sampled_from([None, "pw"]))
    order = list(draw(st.permutations(list(range(n)))))
    order2 = list(draw(st.permutations(list(range(n))))) if iso else None
    blue_pool = OWN_BIAS if iso else OWN_BIAS + list(range(S.OWN_ACTIONS, S.OWN_ACTIONS + len(S.blue_extra_actions()))) * 2
    if not iso:  # corrupt / repair of the watched database file: six more shares each (a deleted file stays absent)
        blue_pool = blue_pool + [S.OWN_ACTIONS + 4, S.OWN_ACTIONS + 5] * 6
    acts = st.tuples(st.sampled_from(blue_pool), *[st.sampled_from(OWN_BIAS)] * (n - 1)).map(list)
    # one op in 12 is a reset (a selector, because st.one_of collapses repeated identical branches)
    op = st.tuples(st.integers(0, 11), acts).map(lambda t: ["reset"] if t[0] == 0 else ["step", t[1]])
    ops = draw(st.lists(op, min_size=8, max_size=max_ops))
    return {"kind": "run", "n": n, "iso": iso, "agents": agents, "hosts": hosts, "dbpw": dbpw, "order": order,
            "order2": order2, "ops": ops}


def all_digraphs(n: int, self_loops: bool):
    pairs = [(i, j) for i in range(n) for j in range(n) if self_loops or i != j]
    for bits in range(1 << len(pairs)):
        yield [[i, j] for b, (i, j) in enumerate(pairs) if bits >> b & 1]


def graph_cases(tier: str):
    for n in (1, 2, 3):
        orders = list(itertools.permutations(range(n)))
        for edges in all_digraphs(n, True):
            for o in orders:
                yield {"kind": "graph", "n": n, "edges": edges, "order": list(o)}
    if tier == "thorough":
        n = 4
        orders = list(itertools.permutations(range(n)))
        for gi, edges in enumerate(all_digraphs(n, False)):
            for k in range(8):
                yield {"kind": "graph", "n": n, "edges": edges, "order": list(orders[(gi * 5 + k * 3) % 24])}
            s = gi % n
            yield {"kind": "graph", "n": n, "edges": edges + [[s, s]], "order": list(orders[(gi * 7) % 24])}


@st.composite
def big_graph_strategy(draw):
    n = draw(st.integers(4, 7))
    mode = draw(st.sampled_from(["dag", "dag", "any"]))
    if mode == "dag":
        topo = draw(st.permutations(list(range(n))))
        p = draw(st.sampled_from([0.2, 0.5, 0.8]))
        edges = [[topo[a], topo[b]] for a in range(n) for b in range(a) if draw(st.floats(0, 1)) < p]
        if draw(st.integers(0, 3)) == 0 and n >= 2:  # close one cycle somewhere
            a, b = draw(st.integers(0, n - 1)), draw(st.integers(0, n - 1))
            edges.append([topo[min(a, b)], topo[max(a, b)]])
    else:
        edges = draw(st.lists(st.tuples(st.integers(0, n - 1), st.integers(0, n - 1)).map(list), max_size=2 * n, unique_by=tuple))
    order = list(draw(st.permutations(list(range(n)))))
    style = draw(st.sampled_from(["ag", "word"]))
    names = None if style == "ag" else [f"{w}_{i}" for i, w in enumerate(["defender", "green_user", "attacker", "admin", "b",
                                                                         "client_2_green_user", "z"][:n])]
    c = {"kind": "graph", "n": n, "edges": edges, "order": order}
    if names:
        c["names"] = names
    return c


def worker(ctx: Ctx):
    q = ctx.tier == "quick"
    enum_run(ctx, unit_cases(ctx.tier), run_case)
    enum_run(ctx, graph_cases(ctx.tier), run_case)
    ctx.extra["exhaustive"] = True
    ctx.extra["exhaustive_domain"] = (
        f"unit: 2 action-triggered components x sticky/non-sticky x all sequences up to length {3 if q else 4} over 5 "
        "per-step situations, file-integrity x 7 file situations (singles and ordered pairs), 404-penalty x sticky/non-sticky x "
        f"all code multisets of size <={2 if q else 3} over 6 codes in sequences of <=2 steps, action-penalty x 25 penalty pairs; "
        "sharing digraphs incl. self-loops on 1..3 agents x all declaration orders (2 + 32 + 3072 games)"
        + ("" if q else "; all 4096 loop-free digraphs on 4 agents x 8 of 24 declaration orders + each with one self-loop (36864 games)")
    )
    hyp_run(ctx, big_graph_strategy(), run_case, 30 if q else 600, sub=1)
    hyp_run(ctx, run_case_strategy(24 if q else 40), run_case, 30 if q else 300, sub=0)
