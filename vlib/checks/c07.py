"""C07 — ACL verdict = first matching rule by position, else the implicit action (DESIGN §C07).

Reference model: vlib/c07_ref.py (written from the statement, imports nothing from primaite).
Front doors: Python API (add_rule / remove_rule / is_permitted), request API exactly as formed by the
router-/firewall-acl-add-rule and -remove-rule actions (ActionManager.form_request), scenario-dict loading of a
router `acl:` block and the firewall's six lists through PrimaiteGame.from_config.
"""
from __future__ import annotations

import itertools
from typing import Any, Dict, List, Optional, Tuple

from hypothesis import strategies as st

from .. import entropy
from ..c07_ref import FIELDS, RefACL
from ..harness import CaseResult, Ctx, enum_run, hyp_run
from ..simutil import base_cfg, computer, exc_msg, exc_sig, link, new_env, new_game, seed_all

ID = "C07"
WORKERS = {"quick": 8, "thorough": 16}
SHRINK_KEY = "ops"
RULE = (
    "case = optional scenario-loaded rule lists (`init`) + op sequence (add/remove through the Python API or through the "
    "request formed by the acl agent actions, single probes, probe-all over a packet domain) on one of 9 lists: a router "
    "acl, the firewall's six lists, and two stand-alone AccessControlLists (implicit PERMIT / DENY). Every add/remove is "
    "followed by a describe_state read-back compared position by position with the reference model, every probe "
    "compares is_permitted's verdict, deciding rule and all hit counters with the model. Bounded-exhaustive: all "
    "single-rule lists over the covering field domain x all packets of the covering packet domain, all ordered "
    "two-rule lists over a reduced domain (both position orders); Hypothesis: lists of up to 24 rules built around focus "
    "packets so that rules overlap and shadow each other. Separate sub-domain `falsy`: port 0 (NONE) in a rule and the "
    "last position max_acl_rules-1 (oracle accepts every documented reading there). Traffic mode (`send` ops): a "
    "firewall with one host per zone; a frame sent by a zone's host must be judged by the two lists the documentation names "
    "for its (ingress zone, egress zone) pair - ingress side first, egress side only when permitted - asserted through the "
    "hit counters of all six lists and the port the firewall forwards on; all six pairs x permit/deny/implicit on each "
    "side x opposite catch-alls on the other lists are enumerated, each pair once with a directly attached destination and "
    "once with a destination in a subnet that is only routed through the egress zone's port (the egress port the route "
    "selects names the egress-side list); random disagreeing lists come from Hypothesis. Router traffic: frames driven "
    "through router r0 in both directions are judged by its one list - every packet, including UDP datagrams to port 219 "
    "with a non-ARP payload; only a genuine ARP packet (`send_arp`) moves no counter. Episode "
    "mode (`reset` ops): the scenario is built through PrimaiteGymEnv and after every env.reset() each list must again be "
    "exactly the scenario-loaded one (positions 0/21/22/23 enumerated on router and firewall lists), with verdicts and "
    "counters following the reference. Non-trivial (rule list, packet) "
    "pair = the packet is matched by >=2 rules with different actions, or the deciding rule combines a wildcard range "
    "with an unspecified field; `distinct_nontrivial` counts cases holding such a pair, `nontrivial_pairs_distinct` "
    "counts the pairs themselves (distinct by rule list and packet)."
)
ASSUMPTIONS = [
    "is_permitted(frame) is the observation point for a verdict (frames are built with the documented Frame/IPPacket/"
    "TCPHeader/UDPHeader/ICMPPacket constructors); forwarding after the verdict belongs to C06/C08",
    "a list's implicit action is read from describe_state()['implicit_action'] for router/firewall lists and set by the "
    "harness for the two stand-alone lists; a router starts with the two documented default rules (22: ARP ports, "
    "23: ICMP), firewall lists start empty",
    "read-back equality ignores uuid; 'changes only the addressed position' is judged on rule content and hit counters",
    "rule fields stay inside the documented domain: protocols tcp/udp/icmp, named ports, dotted-quad addresses and "
    "wildcard masks, positions 0..max_acl_rules-2; port 0 and position max_acl_rules-1 only in the falsy sub-domain",
    "traffic mode: which lists judge a packet is derived from docs/source (firewall.rst): external_inbound / "
    "internal_outbound / dmz_outbound for the zone a frame arrives from, then internal_inbound / dmz_inbound / "
    "external_outbound for the zone it leaves to; if the ingress-side list denies, a hit on the egress-side list's deciding "
    "rule is tolerated (not required); the firewall's ARP cache is pre-filled with the three hosts, hit counters present "
    "before the first read-back (ARP sent while the network is being built) are the baseline; ICMP on the wire is an echo "
    "reply with a payload so that the destination host stays silent; tcp/udp frames carry no payload (Frame.payload's "
    "default), also on UDP port 219, where only a frame whose payload is an ARPPacket counts as ARP; static routes use the "
    "zone's host as next hop (what matters is the egress port the route selects)",
    "episode mode: env.reset() rebuilds the simulation from the same scenario, so the model restarts from the scenario's "
    "rules (router defaults at 22/23 only where the scenario is silent) with zero hit counters",
    "port 0 (PORT_LOOKUP['NONE']) in a rule is convention-open: the oracle accepts 'specified port 0' or 'unspecified' "
    "as long as describe_state and the verdicts agree on one reading",
]

# ---------------------------------------------------------------------------------------------------------------------
# domain constants (documented names; nothing is imported from primaite for them)

FW_LISTS = ["internal_inbound", "internal_outbound", "dmz_inbound", "dmz_outbound", "external_inbound", "external_outbound"]
GAME_LISTS = ["router"] + [f"fw:{x}" for x in FW_LISTS]
ALL_LISTS = GAME_LISTS + ["acl:PERMIT", "acl:DENY"]
PORT_NAME = {0: "NONE", 21: "FTP", 22: "SSH", 53: "DNS", 80: "HTTP", 219: "ARP", 5432: "POSTGRES_SERVER", 8080: "HTTP_ALT"}
ROUTER_DEFAULTS = {
    22: dict(zip(FIELDS, ["PERMIT", None, None, None, None, None, 219, 219])),
    23: dict(zip(FIELDS, ["PERMIT", "icmp", None, None, None, None, None, None])),
}
A1, A2, B1, B2, OUT = "10.0.1.1", "10.0.1.77", "10.0.2.5", "10.0.2.9", "172.16.9.9"

# firewall zones for the traffic mode: zone -> (host name, host address, firewall port number). docs/source
# (simulation_components/network/nodes/firewall.rst, configuration/simulation/nodes/firewall.rst): traffic that enters from
# the external network is judged by external_inbound, traffic leaving the internal network / the DMZ by internal_outbound /
# dmz_outbound; traffic going towards the internal network / the DMZ / the external network is then judged by
# internal_inbound / dmz_inbound / external_outbound.
ZONES = {"external": ("hx", "10.9.1.10", 1), "internal": ("hi", "10.9.2.10", 2), "dmz": ("hd", "10.9.3.10", 3)}
INGRESS_LIST = {"external": "fw:external_inbound", "internal": "fw:internal_outbound", "dmz": "fw:dmz_outbound"}
EGRESS_LIST = {"external": "fw:external_outbound", "internal": "fw:internal_inbound", "dmz": "fw:dmz_inbound"}
ZONE_PAIRS = [(a, b) for a in ZONES for b in ZONES if a != b]
PROXY_AGENT = {
    "ref": "defender", "team": "BLUE", "type": "proxy-agent",
    "observation_space": {"type": "none", "options": {}},
    "action_space": {"action_map": {0: {"action": "do-nothing", "options": {}}}},
    "reward_function": {"reward_components": [{"type": "dummy"}]},
    "agent_settings": {"flatten_obs": False},
}


# subnets that are only *routed* through a firewall port (static route, next hop = the zone's host): the egress port the
# route selects says which zone the packet leaves to, hence which egress-side list judges it
ROUTED = {"external": "10.5.1.7", "internal": "10.5.2.7", "dmz": "10.5.3.7"}
# router traffic mode: one host on each side of router r0; a packet is judged by the router's single list
SIDES = {"ra": ("ra", A1, 1), "rb": ("rb", B1, 2)}


def zone_of(ip: str) -> Tuple[str, bool]:
    """(zone, routed?) of an address seen from the firewall."""
    for z, (_, addr, _) in ZONES.items():
        if ip.rsplit(".", 1)[0] == addr.rsplit(".", 1)[0]:
            return z, False
        if ip.rsplit(".", 1)[0] == ROUTED[z].rsplit(".", 1)[0]:
            return z, True
    raise ValueError(f"generator bug: {ip} is in no firewall zone")


def _packets(protos, srcs, dsts, sports, dports):
    out = []
    for p in protos:
        for s in srcs:
            for d in dsts:
                if p == "icmp":
                    out.append((p, s, d, None, None))
                else:
                    out.extend((p, s, d, sp, dp) for sp in sports for dp in dports)
    return out


_ADDR4, _PORT3 = [A1, A2, B1, OUT], [22, 80, 53]
PACKET_DOMAINS = {
    # covering packet domain: every combination of the values that tell the covering rule fields apart
    "cover": _packets(["tcp", "udp", "icmp"], _ADDR4, _ADDR4, _PORT3, _PORT3),
    # half of it (address pairs and port pairs on a checkerboard): used when the same single-rule list has already been
    # probed with the full domain through another door, to confirm the verdicts behind a request-/scenario-made rule
    "cover_diag": [p for p in _packets(["tcp", "udp", "icmp"], _ADDR4, _ADDR4, _PORT3, _PORT3)
                   if (_ADDR4.index(p[1]) + _ADDR4.index(p[2])) % 2 == 0
                   and (p[3] is None or (_PORT3.index(p[3]) + _PORT3.index(p[4])) % 3 == 0)],
    "reduced_q": _packets(["tcp", "udp"], [A1, A2, OUT], [B1, OUT], [22], [80, 22]),
    "reduced": _packets(["tcp", "udp", "icmp"], [A1, A2, B1, OUT], [B1, B2, OUT], [22], [80, 53]),
}


def rule_dict(r) -> Dict:
    return dict(zip(FIELDS, r))


# ---------------------------------------------------------------------------------------------------------------------
# the three front doors

_AM = None


def _am():
    global _AM
    if _AM is None:
        from primaite.game.agent.actions import ActionManager

        _AM = ActionManager()
    return _AM


def _list_address(name: str) -> Dict:
    if name == "router":
        return {"target_router": "r0"}
    zone, direction = name[3:].split("_")
    return {"target_firewall_nodename": "f0", "firewall_port_name": zone, "firewall_port_direction": direction}


def form_add(name: str, pos: int, rule: Dict) -> List:
    """The request exactly as the agent action forms it; the spelling of names alternates with the position."""
    named = pos % 2 == 0

    def port(v):
        return "ALL" if v is None else (PORT_NAME[v] if named else v)

    opts = {
        "position": pos,
        "permission": rule["action"],
        "protocol_name": "ALL" if rule["protocol"] is None else (rule["protocol"].upper() if named else rule["protocol"]),
        "src_ip": rule["src_ip"] or "ALL",
        "src_wildcard": rule["src_wc"] or "NONE",
        "src_port": port(rule["src_port"]),
        "dst_ip": rule["dst_ip"] or "ALL",
        "dst_wildcard": rule["dst_wc"] or "NONE",
        "dst_port": port(rule["dst_port"]),
    }
    opts.update(_list_address(name))
    return _am().form_request("router-acl-add-rule" if name == "router" else "firewall-acl-add-rule", opts)


def form_remove(name: str, pos: int) -> List:
    opts = {"position": pos}
    opts.update(_list_address(name))
    return _am().form_request("router-acl-remove-rule" if name == "router" else "firewall-acl-remove-rule", opts)


def rule_cfg(rule: Dict) -> Dict:
    """A rule as the shipped scenario files write it (named protocol/ports, src_ip/dst_ip/*_wildcard_mask keys)."""
    d: Dict[str, Any] = {"action": rule["action"]}
    if rule["protocol"] is not None:
        d["protocol"] = rule["protocol"].upper()
    for k, ck in (("src_ip", "src_ip"), ("src_wc", "src_wildcard_mask"), ("dst_ip", "dst_ip"), ("dst_wc", "dst_wildcard_mask")):
        if rule[k] is not None:
            d[ck] = rule[k]
    for k in ("src_port", "dst_port"):
        if rule[k] is not None:
            d[k] = PORT_NAME[rule[k]]
    return d


def scenario(init: Dict[str, List], hosts: bool = False, agent: bool = False) -> Dict:
    router = {
        "type": "router", "hostname": "r0", "num_ports": 2, "start_up_duration": 0, "shut_down_duration": 0,
        "ports": {1: {"ip_address": "10.0.1.254", "subnet_mask": "255.255.255.0"}},
    }
    if hosts:
        router["ports"][2] = {"ip_address": "10.0.2.254", "subnet_mask": "255.255.255.0"}
    if init.get("router"):
        router["acl"] = {int(p): rule_cfg(rule_dict(r)) for p, r in init["router"]}
    fw_acl: Dict[str, Any] = {}
    for x in FW_LISTS:
        rules = init.get(f"fw:{x}")
        if rules:
            fw_acl[f"{x}_acl"] = {int(p): rule_cfg(rule_dict(r)) for p, r in rules}
        elif not x.startswith("external"):  # the two external lists are documented as optional
            fw_acl[f"{x}_acl"] = {}
    fw = {
        "type": "firewall", "hostname": "f0", "start_up_duration": 0, "shut_down_duration": 0,
        "ports": {
            "external_port": {"ip_address": "10.9.1.1", "subnet_mask": "255.255.255.0"},
            "internal_port": {"ip_address": "10.9.2.1", "subnet_mask": "255.255.255.0"},
            "dmz_port": {"ip_address": "10.9.3.1", "subnet_mask": "255.255.255.0"},
        },
        "acl": fw_acl,
    }
    nodes, links = [router, fw], []
    if hosts:  # one host per firewall zone, wired to the firewall's external (1) / internal (2) / dmz (3) port
        for name, addr, port in ZONES.values():
            nodes.append(computer(name, addr, gw=addr.rsplit(".", 1)[0] + ".1", start_up_duration=0, shut_down_duration=0))
            links.append(link("f0", port, name, 1))
        fw["routes"] = [{"address": ROUTED[z].rsplit(".", 1)[0] + ".0", "subnet_mask": "255.255.255.0",
                         "next_hop_ip_address": ZONES[z][1]} for z in ZONES]
        for name, addr, port in SIDES.values():
            nodes.append(computer(name, addr, gw=addr.rsplit(".", 1)[0] + ".254", start_up_duration=0, shut_down_duration=0))
            links.append(link("r0", port, name, 1))
    return base_cfg(nodes, links, agents=[dict(PROXY_AGENT)] if agent else None)


def make_frame(pkt, src_mac: str = "aa:bb:cc:dd:ee:01", dst_mac: str = "aa:bb:cc:dd:ee:02", on_wire: bool = False,
               payload: Any = None):
    from primaite.simulator.network.protocols.icmp import ICMPPacket, ICMPType
    from primaite.simulator.network.transmission.data_link_layer import EthernetHeader, Frame
    from primaite.simulator.network.transmission.network_layer import IPPacket
    from primaite.simulator.network.transmission.transport_layer import TCPHeader, UDPHeader

    proto, src, dst, sport, dport = pkt
    kw = {
        "ethernet": EthernetHeader(src_mac_addr=src_mac, dst_mac_addr=dst_mac),
        "ip": IPPacket(src_ip_address=src, dst_ip_address=dst, protocol=proto),
    }
    if proto == "tcp":
        kw["tcp"] = TCPHeader(src_port=sport, dst_port=dport)
    elif proto == "udp":
        kw["udp"] = UDPHeader(src_port=sport, dst_port=dport)
    else:
        # on the wire an unsolicited echo *reply* is used, so that the destination host does not answer through the firewall
        kw["icmp"] = ICMPPacket(icmp_type=ICMPType.ECHO_REPLY) if on_wire else ICMPPacket()
        if on_wire:
            kw["payload"] = "c07-echo-payload-0123456"  # echo replies carry the request's payload
    if payload is not None:
        kw["payload"] = payload
    return Frame(**kw)


# ---------------------------------------------------------------------------------------------------------------------
# observation through describe_state


class Snap:
    __slots__ = ("rules", "hits", "implicit", "implicit_hits")

    def __init__(self, acl, act_name):
        s = acl.describe_state()
        self.rules, self.hits = {}, {}
        for pos, r in s["acl"].items():
            if r is None:
                continue
            self.rules[pos] = {
                "action": act_name[r["action"]], "protocol": r["protocol"],
                "src_ip": r["src_ip_address"], "src_wc": r["src_wildcard_mask"],
                "dst_ip": r["dst_ip_address"], "dst_wc": r["dst_wildcard_mask"],
                "src_port": r["src_port"], "dst_port": r["dst_port"],
            }
            self.hits[pos] = r["match_count"]
        self.implicit = act_name[s["implicit_action"]]
        self.implicit_hits = s["implicit_rule"]["match_count"]


def first_diff(exp: Optional[Dict], got: Optional[Dict]) -> str:
    if exp is None or got is None:
        return "presence"
    for f in FIELDS:
        if exp[f] != got[f]:
            return f
    return "?"


class ListUnderTest:
    """One AccessControlList + its reference model."""

    def __init__(self, name, acl, sim, act_name, cap):
        self.name, self.acl, self.sim, self.act_name = name, acl, sim, act_name
        s = Snap(acl, act_name)
        self.model = RefACL(s.implicit)
        self.slots = cap - 1  # positions 0..slots-1 are inside the documented capacity on every reading
        self.pos_of: Optional[Dict[int, int]] = None
        self.rules_key = None

    def snap(self) -> Snap:
        return Snap(self.acl, self.act_name)

    def dirty(self):
        self.pos_of, self.rules_key = None, None

    def compare(self, res: CaseResult, when: str, opkind: str, addressed=(), via: str = "") -> bool:
        """Read back describe_state and compare everything with the model. True if equal."""
        s, m, ok = self.snap(), self.model, True
        for pos in sorted(set(s.rules) | set(m.rules)):
            exp, got = m.rules.get(pos), s.rules.get(pos)
            if exp != got:
                ok = False
                if pos in addressed and opkind == "reset":
                    # one bucket per kind of list: the rule a scenario put there is not what the new episode has
                    res.violate(f"reset-rule-differs-from-scenario:{'router' if self.name == 'router' else 'firewall'}",
                                f"{when}: position {pos}: expected {exp}, state has {got}")
                elif pos in addressed:
                    res.violate(f"{opkind}-readback-mismatch:{via}:{first_diff(exp, got)}", f"{when}: position {pos}: expected {exp}, state has {got}")
                else:
                    res.violate(f"{opkind}-changed-other-position", f"{when}: position {pos}: expected {exp}, state has {got}")
            elif m.hits.get(pos) != s.hits.get(pos):
                ok = False
                res.violate(f"{opkind}-hit-counter-mismatch", f"{when}: position {pos}: expected {m.hits.get(pos)}, state has {s.hits.get(pos)}")
        if s.implicit != m.implicit:
            ok = False
            res.violate(f"{opkind}-changed-implicit-action", f"{when}: {m.implicit} -> {s.implicit}")
        if s.implicit_hits != m.implicit_hits:
            ok = False
            res.violate(f"{opkind}-implicit-hit-counter-mismatch", f"{when}: expected {m.implicit_hits}, state has {s.implicit_hits}")
        return ok


def py_add(acl, pos: int, rule: Dict):
    from primaite.simulator.network.hardware.nodes.network.router import ACLAction

    kw: Dict[str, Any] = {"action": ACLAction[rule["action"]], "position": pos}
    for k, ak in (("protocol", "protocol"), ("src_ip", "src_ip_address"), ("src_wc", "src_wildcard_mask"),
                  ("dst_ip", "dst_ip_address"), ("dst_wc", "dst_wildcard_mask"), ("src_port", "src_port"), ("dst_port", "dst_port")):
        if rule[k] is not None:
            kw[ak] = rule[k]
    return acl.add_rule(**kw)


# ---------------------------------------------------------------------------------------------------------------------


def run_case(case: Dict) -> CaseResult:
    from primaite.simulator.network.hardware.nodes.network.router import AccessControlList, ACLAction
    from primaite.simulator.system.core.sys_log import SysLog

    res = CaseResult()
    res.extra["nt"] = set()
    ops = case["ops"]
    init: Dict[str, List] = case.get("init") or {}
    cap = int(case.get("cap", 25))
    act_name = {a.value: a.name for a in ACLAction}
    LIST_OPS = ("add", "remove", "probe", "probe_all")
    has_send = any(op[0] in ("send", "send_arp") for op in ops)
    has_reset = any(op[0] == "reset" for op in ops)
    used = set(init) | {op[1] for op in ops if op[0] in LIST_OPS}
    if has_send:
        used |= {f"fw:{x}" for x in FW_LISTS} | {"router"}  # a frame on the wire may touch any list
    frames: Dict[Tuple, Any] = {}
    labels = set()
    game_lists = sorted(n for n in used if not n.startswith("acl:"))
    world: Dict[str, Any] = {"env": None, "sim": None, "hosts": {}, "ports": {}, "sent": []}
    objs: Dict[str, Any] = {}
    luts: Dict[str, ListUnderTest] = {}

    def attach(game):
        """(Re)bind the list objects of the current episode's simulation; wire up the traffic mode."""
        world["sim"] = game.simulation
        net = game.simulation.network
        objs["router"] = net.get_node_by_hostname("r0").acl
        fw = net.get_node_by_hostname("f0")
        for x in FW_LISTS:
            objs[f"fw:{x}"] = getattr(fw, f"{x}_acl")
        if has_send:
            arp = fw.software_manager.arp
            for zone, (hname, _, pnum) in ZONES.items():
                host, port = net.get_node_by_hostname(hname), fw.network_interface[pnum]
                world["hosts"][zone], world["ports"][zone] = host, port
                nic = host.network_interface[1]
                # the firewall knows where the three hosts live (what a ping in each direction would teach it)
                arp.add_arp_cache_entry(ip_address=nic.ip_address, mac_address=nic.mac_address, network_interface=port)

                def recorder(frame, *a, _zone=zone, _real=port.send_frame, **k):
                    world["sent"].append(_zone)
                    return _real(frame, *a, **k)

                object.__setattr__(port, "send_frame", recorder)  # observe-only wrapper on this instance
            r0 = net.get_node_by_hostname("r0")
            for side, (hname, _, pnum) in SIDES.items():
                host, port = net.get_node_by_hostname(hname), r0.network_interface[pnum]
                world["hosts"][side], world["ports"][side] = host, port
                nic = host.network_interface[1]
                r0.software_manager.arp.add_arp_cache_entry(ip_address=nic.ip_address, mac_address=nic.mac_address, network_interface=port)

                def recorder(frame, *a, _zone=side, _real=port.send_frame, **k):
                    world["sent"].append(_zone)
                    return _real(frame, *a, **k)

                object.__setattr__(port, "send_frame", recorder)

    def bind(opkind: str) -> bool:
        """Create model + list-under-test for every router/firewall list from the scenario's rules and compare."""
        for n in game_lists:
            lut = ListUnderTest(n, objs[n], world["sim"], act_name, 25)
            if n == "router":
                for p, r in ROUTER_DEFAULTS.items():
                    lut.model.add(p, r)
            for p, r in init.get(n, []):
                r = rule_dict(r)
                for f in ("src_port", "dst_port"):  # port 0 / NONE: the read-back decides the reading (see ASSUMPTIONS)
                    if r[f] == 0:
                        labels.add("falsy:port0")
                        got = lut.snap().rules.get(int(p), {}).get(f, "absent")
                        if got in (0, None):
                            r[f] = got
                lut.model.add(int(p), r)
            if n in init:
                labels.add("door:cfg")
            luts[n] = lut
            if has_send:
                # with hosts on the wire the construction of the network itself sends frames (ARP) through the firewall:
                # hits counted before the first read-back are the baseline, not something this property decides
                s0 = lut.snap()
                for p in lut.model.rules:
                    if p in s0.hits:
                        lut.model.hits[p] = s0.hits[p]
                lut.model.implicit_hits = s0.implicit_hits
            if not lut.compare(res, f"after {opkind} {n}", opkind, addressed={int(p) for p, _ in init.get(n, [])}, via="cfg"):
                return False
        return True

    # ---- build: scenario loading is the third front door (through PrimaiteGymEnv when the case has later episodes)
    if game_lists or has_reset:
        boundary = any(int(p) >= 24 for rules in init.values() for p, _ in rules)
        try:
            if has_reset or case.get("env"):
                world["env"] = new_env(scenario(init, hosts=has_send, agent=True))
                game = world["env"].game
            else:
                game = new_game(scenario(init, hosts=has_send))
        except Exception as e:
            if boundary and isinstance(e, ValueError):
                res.label("falsy:last-position:load-refused")  # documented: out-of-bounds position raises ValueError
            elif boundary:
                res.violate(f"raise:add@last-position:{exc_sig(e)}", f"loading {init} raised {exc_msg(e)}")
            else:
                res.violate(f"raise:load:{exc_sig(e)}", f"loading {init} raised {exc_msg(e)}")
            return res
        attach(game)
    else:
        entropy.reset()
        seed_all(0)
    for n in sorted(used):
        if n.startswith("acl:"):
            objs[n] = AccessControlList(name=n, implicit_action=ACLAction[n[4:]], max_acl_rules=cap, sys_log=SysLog("c07"))
            lut = ListUnderTest(n, objs[n], None, act_name, cap)
            if lut.model.implicit != n[4:]:
                res.violate("implicit-action-not-as-constructed", f"{n}: describe_state says {lut.model.implicit}")
                return res
            luts[n] = lut
    if not bind("load"):
        return res

    def frame_of(pkt):
        f = frames.get(pkt)
        if f is None:
            f = frames[pkt] = make_frame(pkt)
        return f

    def probe(lut: ListUnderTest, pkt, when) -> bool:
        m = lut.model
        if lut.pos_of is None:
            lut.pos_of = {id(r): i for i, r in enumerate(lut.acl.acl) if r is not None}
            lut.rules_key = hash(tuple((p, tuple(r.values())) for p, r in sorted(m.rules.items())) + (m.implicit,))
        try:
            permitted, rule = lut.acl.is_permitted(frame_of(pkt))
        except Exception as e:
            res.violate(f"raise:is_permitted:{exc_sig(e)}", f"{when}: {exc_msg(e)}")
            return False
        exp_perm, exp_pos = m.decide(pkt)
        matching = m.last_matching
        got_pos = None if rule is lut.acl.implicit_rule else lut.pos_of.get(id(rule), "unknown-rule")
        if bool(permitted) != exp_perm:
            res.violate("verdict-mismatch", f"{when}: rules {m.rules} implicit {m.implicit}: expected "
                        f"{'PERMIT' if exp_perm else 'DENY'} by {exp_pos}, got {'PERMIT' if permitted else 'DENY'} by {got_pos}")
            return False
        if got_pos != exp_pos:
            res.violate("deciding-rule-mismatch", f"{when}: rules {m.rules}: expected position {exp_pos}, got {got_pos}")
            return False
        # hit counters of every rule and of the implicit rule, through describe_state
        s = lut.snap()
        if s.hits != m.hits or s.implicit_hits != m.implicit_hits:
            res.violate("hit-counter-mismatch:" + ("implicit-decides" if exp_pos is None else "rule-decides"),
                        f"{when}: decided by {exp_pos}; expected {m.hits} implicit {m.implicit_hits}, state has {s.hits} implicit {s.implicit_hits}")
            return False
        # non-trivial?
        nt = False
        if len(matching) >= 2 and len({m.rules[p]["action"] for p in matching}) == 2:
            nt = True
            labels.add("nt:shadowed-different-action")
        if matching:
            r = m.rules[matching[0]]
            ranged = (r["src_ip"] is not None and r["src_wc"] is not None) or (r["dst_ip"] is not None and r["dst_wc"] is not None)
            if ranged and any(r[f] is None for f in ("protocol", "src_ip", "dst_ip", "src_port", "dst_port")):
                nt = True
                labels.add("nt:wildcard-x-unspecified")
        if nt:
            res.extra["nt"].add(hash((lut.rules_key, pkt)))
        return True

    def verdict_of(lut: ListUnderTest, pkt) -> str:
        mm = lut.model.matching(pkt)
        return lut.model.rules[mm[0]]["action"] if mm else lut.model.implicit

    def send(zone: str, pkt, when) -> bool:
        """Put the packet on the wire from the zone's host; exactly the lists the documentation names must judge it."""
        if zone in SIDES:  # through router r0: its one list judges every packet that is not a genuine ARP packet
            ezone = "rb" if zone == "ra" else "ra"
            if pkt[1] != SIDES[zone][1] or pkt[2] != SIDES[ezone][1]:
                raise ValueError(f"generator bug: {pkt} does not cross the router from {zone}")
            pair = "router"
            stages = [luts["router"]]
        else:
            (szone, srouted), (ezone, routed) = zone_of(pkt[1]), zone_of(pkt[2])
            if szone != zone or srouted or ezone == zone:
                raise ValueError(f"generator bug: {pkt} does not cross the firewall from {zone}")
            pair = f"{zone}->{ezone}" + ("(routed)" if routed else "")
            stages = [luts[INGRESS_LIST[zone]], luts[EGRESS_LIST[ezone]]]
            right = verdict_of(stages[1], pkt)
            if any(verdict_of(luts[n], pkt) != right for n in EGRESS_LIST.values()) and verdict_of(stages[0], pkt) == "PERMIT":
                labels.add(f"disagree:{pair}")  # judging by another zone's list would change the outcome
                res.extra["nt"].add(hash(("send", pair, tuple(sorted((n, tuple(sorted(l.model.rules))) for n, l in luts.items())), pkt)))
        labels.add(f"pair:{pair}")
        arp_port = pkt[0] == "udp" and pkt[4] == 219
        if arp_port:
            labels.add(f"udp-to-arp-port:{'router' if zone in SIDES else 'firewall'}")
        host, port = world["hosts"][zone], world["ports"][zone]
        frame = make_frame(pkt, src_mac=host.network_interface[1].mac_address, dst_mac=port.mac_address, on_wire=True)
        world["sent"].clear()
        try:
            host.network_interface[1].send_frame(frame)
        except Exception as e:
            # not the end of the case: the verdicts were given before the frame left the router/firewall
            res.violate(f"raise:send:{'udp-to-arp-port' if arp_port else 'packet'}:{exc_sig(e)}", f"{when}: {exc_msg(e)}")
        expect_out = [ezone]
        for k, l in enumerate(stages):
            permitted, _ = l.model.decide(pkt)
            if not permitted:
                expect_out = []
                for l2 in stages[k + 1:]:
                    # a packet already refused needs no further verdict; an implementation that still asks the next
                    # list is accepted as long as the hit is on that list's deciding rule
                    mm = l2.model.matching(pkt)
                    snap2 = l2.snap()
                    want = dict(l2.model.hits)
                    if mm:
                        want[mm[0]] = want[mm[0]] + 1
                    if (snap2.hits, snap2.implicit_hits) == (want, l2.model.implicit_hits + (0 if mm else 1)):
                        l2.model.decide(pkt)
                break
        ok = True
        for n in game_lists:
            l = luts[n]
            sn = l.snap()
            if sn.hits != l.model.hits or sn.implicit_hits != l.model.implicit_hits:
                role = "ingress-list" if l is stages[0] else "egress-list" if l is stages[-1] else "other-list"
                res.violate(f"traffic-hit-mismatch:{pair}:{role}",
                            f"{when}: {n}: expected hits {l.model.hits} implicit {l.model.implicit_hits}, state has {sn.hits} "
                            f"implicit {sn.implicit_hits} (judged by {' then '.join(x.name for x in stages)})")
                # carry on behind the mismatch from what the lists now show (only counters of existing rules can differ)
                l.model.hits = {p: sn.hits.get(p, 0) for p in l.model.rules}
                l.model.implicit_hits = sn.implicit_hits
        if world["sent"] != expect_out:
            res.violate(f"traffic-forward-mismatch:{pair}", f"{when}: expected forwarding on {expect_out}, got "
                        f"{world['sent']} (judged by {' then '.join(x.name for x in stages)})")
        return ok

    def send_arp(side: str, when) -> bool:
        """A genuine ARP request for the router's address: layer-2 traffic, the only thing the router's list never judges."""
        from primaite.simulator.network.protocols.arp import ARPPacket

        host, port = world["hosts"][side], world["ports"][side]
        nic = host.network_interface[1]
        arp = ARPPacket(sender_mac_addr=nic.mac_address, sender_ip_address=nic.ip_address, target_ip_address=port.ip_address)
        frame = make_frame(("udp", str(nic.ip_address), str(port.ip_address), 219, 219), src_mac=nic.mac_address,
                           dst_mac="ff:ff:ff:ff:ff:ff", payload=arp)
        try:
            nic.send_frame(frame)
        except Exception as e:
            res.violate(f"raise:send:arp:{exc_sig(e)}", f"{when}: {exc_msg(e)}")
            return False
        l = luts["router"]
        sn = l.snap()
        if sn.hits != l.model.hits or sn.implicit_hits != l.model.implicit_hits:
            res.violate("arp-packet-judged-by-router-list", f"{when}: expected hits {l.model.hits} implicit {l.model.implicit_hits}, "
                        f"state has {sn.hits} implicit {sn.implicit_hits}")
            return False
        return True

    n_adds = n_removes = n_overwrites = n_probes = n_sends = n_resets = 0
    for i, op in enumerate(ops):
        kind = op[0]
        when = f"op#{i} {op}"
        if kind == "reset":
            n_resets += 1
            try:
                world["env"].reset()
            except Exception as e:
                res.violate(f"raise:reset:{exc_sig(e)}", f"{when}: {exc_msg(e)}")
                break
            attach(world["env"].game)
            # the new episode is built from the same scenario: every list must again be exactly the loaded one
            if not bind("reset"):
                break
            continue
        if kind == "send":
            n_sends += 1
            if not send(op[1], tuple(op[2]), when):
                break
            continue
        if kind == "send_arp":
            n_sends += 1
            labels.add("genuine-arp:router")
            if not send_arp(op[1], when):
                break
            continue
        name = op[1]
        lut = luts[name]
        m = lut.model
        if kind == "probe":
            n_probes += 1
            if not probe(lut, tuple(op[2]), when):
                break
            continue
        if kind == "probe_all":
            ok = True
            for pkt in PACKET_DOMAINS[op[2]]:
                n_probes += 1
                if not probe(lut, pkt, f"{when} packet {pkt}"):
                    ok = False
                    break
            if not ok:
                break
            continue
        via, pos = op[2], int(op[3])
        labels.add(f"door:{via}")
        last = pos == lut.slots  # the position that max_acl_rules admits but remove_rule / the slot list do not
        if not (0 <= pos <= lut.slots):
            raise ValueError(f"generator bug: position {pos} outside 0..{lut.slots}")
        if name.startswith("acl:") and via != "py":
            raise ValueError("generator bug: stand-alone lists have no request door")
        lut.dirty()
        if kind == "add":
            rule = rule_dict(op[4])
            zero_ports = [f for f in ("src_port", "dst_port") if rule[f] == 0]
            if zero_ports:
                labels.add("falsy:port0")
            if last:
                labels.add("falsy:last-position")
            outcome = None
            try:
                if via == "py":
                    outcome = "ok" if py_add(lut.acl, pos, rule) else "refused"
                else:
                    outcome = "ok" if lut.sim.apply_request(form_add(name, pos, rule)).status == "success" else "refused"
            except Exception as e:
                if last and isinstance(e, ValueError):
                    outcome = "refused"  # documented for an out-of-bounds position
                elif last:
                    outcome = "raised"
                    res.violate(f"raise:add@last-position:{exc_sig(e)}", f"{when}: {exc_msg(e)}")
                else:
                    res.violate(f"raise:add:{via}:{exc_sig(e)}", f"{when}: {exc_msg(e)}")
                    break
            if outcome == "ok":
                if pos in m.rules:
                    n_overwrites += 1
                n_adds += 1
                if zero_ports:  # convention-open: the read-back decides which reading the verdicts must follow
                    got = lut.snap().rules.get(pos) or {}
                    for f in zero_ports:
                        if got.get(f, "absent") in (0, None):
                            rule[f] = got[f]
                m.add(pos, rule)
                if not lut.compare(res, when, "add@last-position" if last else "add", addressed=(pos,), via=via):
                    break
            else:
                if not last and outcome == "refused":
                    res.violate(f"add-refused:{via}", f"{when}: a rule inside the documented domain was not accepted")
                    break
                if not lut.compare(res, when, "refused-add"):
                    break
        elif kind == "remove":
            had = pos in m.rules
            outcome = None
            try:
                if via == "py":
                    outcome = "ok" if lut.acl.remove_rule(pos) else "refused"
                else:
                    outcome = "ok" if lut.sim.apply_request(form_remove(name, pos)).status == "success" else "refused"
            except Exception as e:
                if last and isinstance(e, ValueError):
                    outcome = "refused"
                elif last:
                    outcome = "raised"
                    res.violate(f"raise:remove@last-position:{exc_sig(e)}", f"{when}: {exc_msg(e)}")
                else:
                    res.violate(f"raise:remove:{via}:{exc_sig(e)}", f"{when}: {exc_msg(e)}")
                    break
            if outcome == "ok" or not had:
                # removing from an empty position may be answered either way, but must change nothing
                if outcome == "ok" and had:
                    n_removes += 1
                if outcome == "ok":
                    m.remove(pos)
                if not lut.compare(res, when, "remove", addressed=(pos,), via=via):
                    break
            else:
                if not last:
                    res.violate(f"remove-refused:{via}", f"{when}: removing an existing rule was not accepted")
                    break
                if not lut.compare(res, when, "refused-remove"):
                    break
        else:
            raise ValueError(op)

    res.nontrivial = bool(res.extra["nt"])
    for lab in sorted(labels):
        res.label(lab)
    kinds = {("standalone" if n.startswith("acl:") else ("router" if n == "router" else "firewall")) for n in used}
    for k in sorted(kinds):
        res.label(f"list:{k}")
    for n in sorted(used):
        res.label(f"implicit:{luts[n].model.implicit}" if n in luts else "implicit:?")
    size = max((len(l.model.rules) for l in luts.values()), default=0)
    res.label("final-rules:" + ("0" if size == 0 else "1" if size == 1 else "2" if size == 2 else "3-8" if size <= 8 else "9-24"))
    if n_overwrites:
        res.label("has-overwrite")
    if n_removes:
        res.label("has-remove-of-rule")
    if n_resets:
        res.label("has-reset")
    if n_sends:
        res.label("has-send")
    res.extra["probes"] = n_probes + n_sends
    if world["env"] is not None:
        world["env"].close()
    return res


# ---------------------------------------------------------------------------------------------------------------------
# bounded-exhaustive part

POS_ROT = [0, 1, 11, 23]


def cover_rules(tier: str) -> List[List]:
    addrs = [None, A1, B1] if tier == "quick" else [None, A1, A2, B1]
    wcs = [None, "0.0.0.255"] if tier == "quick" else [None, "0.0.0.255", "0.0.255.255"]
    ports = [None, 22, 80]
    return [list(r) for r in itertools.product(["PERMIT", "DENY"], [None, "tcp", "udp", "icmp"], addrs, wcs, addrs, wcs, ports, ports)]


def reduced_rules(tier: str) -> List[List]:
    if tier == "quick":
        it = itertools.product(["PERMIT", "DENY"], [None, "tcp"], [(None, None), (A1, None), (A1, "0.0.0.255")],
                               [(None, None), (B1, None)], [None], [None, 80])
    else:
        it = itertools.product(["PERMIT", "DENY"], [None, "tcp", "icmp"],
                               [(None, None), (A1, None), (A1, "0.0.0.255"), (B1, "0.0.255.255")],
                               [(None, None), (B1, None), (B1, "0.0.0.255")], [None], [None, 80])
    return [[a, p, s[0], s[1], d[0], d[1], sp, dp] for a, p, s, d, sp, dp in it]


def _permute(items: List) -> List:
    """Deterministic stride permutation so that a block of consecutive items mixes all field values."""
    n = len(items)
    stride = next(s for s in (1009, 1013, 1019, 1021, 1031) if n % s != 0) if n > 1 else 1
    return [items[(i * stride) % n] for i in range(n)]


def single_rule_cases(tier: str):
    """Every rule of the covering domain as a single-rule list, probed with every packet of the covering domain.
    quick: each rule through one door (rotating); thorough: each rule through every door."""
    rules = _permute(cover_rules(tier))
    block = 21  # multiple of 7: the cfg door loads 7 lists per scenario
    doors = ["py-standalone", "req", "cfg", "py-game"]
    for b in range(0, len(rules), block):
        chunk = rules[b:b + block]
        bi = b // block
        todo = [doors[bi % 4]] if tier == "quick" else ["py-standalone", "req", "cfg"] + (["py-game"] if bi % 4 == 3 else [])
        for door in todo:
            # thorough probes every rule with the full packet domain through the Python API and with the checkerboard
            # half through the other doors; quick probes every rule once, with the full domain
            dom = "cover" if tier == "quick" or door == "py-standalone" else "cover_diag"
            if door == "cfg":
                for k in range(0, len(chunk), 7):
                    part = chunk[k:k + 7]
                    init, ops = {}, []
                    for j, r in enumerate(part):
                        name = GAME_LISTS[(j + bi) % 7]
                        init[name] = [[POS_ROT[(bi + j) % 4] if name != "router" else POS_ROT[(bi + j) % 3], r]]
                        ops.append(["probe_all", name, dom])
                    yield {"init": init, "ops": ops, "kind": "single/cfg"}
                continue
            ops = []
            if door == "py-standalone":
                name, via = ("acl:PERMIT", "acl:DENY")[bi % 2], "py"
            elif door == "req":
                name, via = GAME_LISTS[bi % 7], "req"
            else:
                name, via = GAME_LISTS[(bi // 4) % 7], "py"
            if name == "router":  # start from an empty list: take the two default rules out through the same door
                ops += [["remove", name, via, 22], ["remove", name, via, 23]]
            for j, r in enumerate(chunk):
                pos = POS_ROT[(bi + j) % 4]
                ops += [["add", name, via, pos, r], ["probe_all", name, dom], ["remove", name, via, pos]]
            yield {"ops": ops, "kind": f"single/{door}"}


def two_rule_cases(tier: str):
    """All ordered pairs (r1, r2) of the reduced domain, r2 once above and once below r1, x all reduced packets."""
    rules = reduced_rules(tier)
    dom = "reduced_q" if tier == "quick" else "reduced"
    n = len(rules)
    for i, r1 in enumerate(rules):
        door = ["py-standalone", "req", "py-game"][i % 3]
        if door == "py-standalone":
            name, via = ("acl:PERMIT", "acl:DENY")[(i // 3) % 2], "py"
        elif door == "req":
            name, via = GAME_LISTS[(i // 3) % 7], "req"
        else:
            name, via = GAME_LISTS[(i // 3 + 3) % 7], "py"
        p1, lo, hi = [(5, 0, 23), (11, 2, 12), (1, 0, 2)][i % 3]
        ops = []
        if name == "router":
            ops += [["remove", name, via, 22], ["remove", name, via, 23]]
        ops.append(["add", name, via, p1, r1])
        for r2 in rules:
            ops += [["add", name, via, hi, r2], ["probe_all", name, dom], ["remove", name, via, hi],
                    ["add", name, via, lo, r2], ["probe_all", name, dom], ["remove", name, via, lo]]
        yield {"ops": ops, "kind": f"two/{door}"}
    # scenario loading: 7 two-rule lists per scenario; thorough = all ordered pairs, quick = a stride sample
    pairs = [(i, j) for i in range(n) for j in range(n)]
    if tier == "quick":
        pairs = pairs[::11]
    for k in range(0, len(pairs), 7):
        init, ops = {}, []
        for t, (i, j) in enumerate(pairs[k:k + 7]):
            name = GAME_LISTS[(t + k // 7) % 7]
            p1, p2 = [(3, 9), (9, 3), (0, 21), (21, 0)][(i + j) % 4]  # 21 < the router's default rules at 22/23
            init[name] = [[p1, rules[i]], [p2, rules[j]]]
            ops.append(["probe_all", name, dom])
        yield {"init": init, "ops": ops, "kind": "two/cfg"}


# ---------------------------------------------------------------------------------------------------------------------
# Hypothesis part: overlapping / shadowing lists, mixed doors, and the falsy sub-domain

ADDRS = [A1, A2, B1, B2, "10.0.1.0", "10.0.0.0", "10.1.2.5", "192.168.7.9", "0.0.0.0", OUT]
WILDCARDS = ["0.0.0.0", "0.0.0.255", "0.0.255.255", "0.255.255.255", "255.255.255.255", "0.0.255.0", "0.0.0.254"]
RULE_PORTS = [22, 80, 53, 21, 8080, 5432]
PKT_PORTS = RULE_PORTS + [1234, 65535]


def packet_strategy(zero_port: bool = False):
    ports = st.sampled_from(PKT_PORTS + ([0, 0] if zero_port else []))
    addr = st.sampled_from(ADDRS)
    return st.one_of(
        st.tuples(st.sampled_from(["tcp", "udp"]), addr, addr, ports, ports),
        st.tuples(st.just("icmp"), addr, addr, st.none(), st.none()),
    ).map(list)


@st.composite
def rule_strategy(draw, focus, zero_port: bool = False):
    """A rule built around a focus packet: every field is unspecified, the packet's own value, or something else, so
    that many rules of one list match the same packet with different actions."""
    proto, src, dst, sport, dport = focus

    def addr(own):
        kind = draw(st.sampled_from(["none", "none", "own", "own", "own-range", "other", "other-range", "wc-only"]))
        if kind == "none":
            return None, None
        if kind == "own":
            return own, None
        if kind == "own-range":
            return own, draw(st.sampled_from(WILDCARDS))
        if kind == "other":
            return draw(st.sampled_from(ADDRS)), None
        if kind == "other-range":
            return draw(st.sampled_from(ADDRS)), draw(st.sampled_from(WILDCARDS))
        return None, draw(st.sampled_from(WILDCARDS))  # a wildcard without an address specifies nothing

    def port(own):
        pool = [None, None, own if own is not None else 80, draw(st.sampled_from(RULE_PORTS))]
        if zero_port:
            pool += [0, 0]
        v = draw(st.sampled_from(pool))
        return v if v in PORT_NAME or v is None else 80  # rule ports stay inside the named ones (cfg door)

    s, d = addr(src), addr(dst)
    return [
        draw(st.sampled_from(["PERMIT", "DENY"])),
        draw(st.sampled_from([None, None, proto, proto, "tcp", "udp", "icmp"])),
        s[0], s[1], d[0], d[1], port(sport), port(dport),
    ]


@st.composite
def random_case(draw, max_rules: int = 24, falsy: bool = False):
    name = draw(st.sampled_from(ALL_LISTS))
    standalone = name.startswith("acl:")
    cap = draw(st.sampled_from([25, 25, 25, 9, 4])) if standalone else 25
    slots = cap - 1
    focus = draw(st.lists(packet_strategy(falsy), min_size=1, max_size=3))
    pos_pool = draw(st.sampled_from([list(range(slots)), list(range(min(slots, 6))), [p for p in (0, 1, 2, slots - 2, slots - 1) if 0 <= p < slots]]))
    pos_pool = sorted(set(pos_pool))
    vias = ["py"] if standalone else draw(st.sampled_from([["py"], ["req"], ["py", "req"]]))
    n = draw(st.integers(1, min(max_rules, 24)))
    init: Dict[str, List] = {}
    ops: List[List] = []
    if not standalone and draw(st.booleans()):
        k = draw(st.integers(1, min(n, len(pos_pool))))
        poss = draw(st.permutations(pos_pool))[:k]
        init[name] = [[p, draw(rule_strategy(draw(st.sampled_from(focus)), falsy))] for p in poss]
        n = max(0, n - k)
    for _ in range(n):
        f = draw(st.sampled_from(focus))
        ops.append(["add", name, draw(st.sampled_from(vias)), draw(st.sampled_from(pos_pool)), draw(rule_strategy(f, falsy))])
        extra = draw(st.sampled_from(["", "", "", "probe", "probe", "remove", "last"]))
        if extra == "probe":
            ops.append(["probe", name, draw(st.sampled_from(focus))])
        elif extra == "remove":
            ops.append(["remove", name, draw(st.sampled_from(vias)), draw(st.sampled_from(pos_pool))])
        elif extra == "last" and falsy:
            if draw(st.booleans()):
                ops.append(["add", name, draw(st.sampled_from(vias)), slots, draw(rule_strategy(f, falsy))])
            else:
                ops.append(["remove", name, draw(st.sampled_from(vias)), slots])
    if falsy and not standalone and not init and draw(st.integers(0, 5)) == 0:
        init[name] = [[slots, draw(rule_strategy(focus[0], falsy))]]  # the last position through the scenario door
    for f in focus:
        ops.append(["probe", name, f])
    for p in draw(st.lists(packet_strategy(falsy), min_size=2, max_size=8)):
        # neighbours of a focus packet: change one or two fields
        f = list(draw(st.sampled_from(focus)))
        for idx in draw(st.lists(st.integers(0, 4), min_size=1, max_size=2)):
            f[idx] = p[idx]
        if f[0] == "icmp":
            f[3] = f[4] = None
        elif f[3] is None or f[4] is None:
            f[3], f[4] = (f[3] if f[3] is not None else 80), (f[4] if f[4] is not None else 22)
        ops.append(["probe", name, f])
    case = {"ops": ops, "kind": "random/falsy" if falsy else "random"}
    if init:
        case["init"] = init
    if cap != 25:
        case["cap"] = cap
    return case



# ---------------------------------------------------------------------------------------------------------------------
# traffic mode (which lists judge a packet crossing the firewall) and episode mode (the list after env.reset())

WIRE_PORTS = [22, 80, 53, 21, 8080, 5432, 1234, 65535]
ARP_PORT = 219  # a UDP datagram to this port with a non-ARP payload is an ordinary packet: only genuine ARP is exempt


def traffic_cases(tier: str):
    """All six (ingress zone, egress zone) pairs x {permit rule, deny rule, no rule = implicit action} on the ingress-side
    list x the same on the egress-side list x every other list holding a catch-all PERMIT / DENY, rules installed through
    the scenario / Python / request door in turn; three packets (tcp, udp, icmp) are put on the wire per case."""
    k = 0
    for a, b, routed in [(a, b, r) for r in (False, True) for a, b in ZONE_PAIRS]:
        # routed: the destination lies in a subnet the firewall reaches by a static route through zone b's port
        src, dst = ZONES[a][1], (ROUTED[b] if routed else ZONES[b][1])
        flows = [[None, src, None, dst, None, None, None],                       # exact host pair
                 [None, src.rsplit(".", 1)[0] + ".0", "0.0.0.255", None, None, None, None],  # source subnet, any destination
                 [None, None, None, dst.rsplit(".", 1)[0] + ".0", "0.0.0.255", None, None]]  # any source, destination subnet
        for ing in ("P", "D", "E"):
            for egr in ("P", "D", "E"):
                for others in ("PERMIT", "DENY"):
                    k += 1
                    rules: Dict[str, List] = {}
                    flow = flows[k % 3]
                    if ing != "E":
                        rules[INGRESS_LIST[a]] = [[3 + k % 5, [{"P": "PERMIT", "D": "DENY"}[ing]] + flow]]
                    if egr != "E":
                        rules[EGRESS_LIST[b]] = [[7 + k % 11, [{"P": "PERMIT", "D": "DENY"}[egr]] + flow]]
                    for x in FW_LISTS:
                        if f"fw:{x}" not in (INGRESS_LIST[a], EGRESS_LIST[b]):
                            rules[f"fw:{x}"] = [[k % 3, [others, None, None, None, None, None, None, None]]]
                    sends = [["send", a, ["tcp", src, dst, 1234, WIRE_PORTS[k % 8]]],
                             ["send", a, ["udp", src, dst, WIRE_PORTS[(k + 3) % 8], 1234]],
                             ["send", a, ["icmp", src, dst, None, None]],
                             ["send", a, ["udp", src, dst, (1234, ARP_PORT)[k % 2], ARP_PORT]]]
                    door = ("cfg", "py", "req")[k % 3]
                    kind = "traffic-routed" if routed else "traffic"
                    if door == "cfg":
                        yield {"init": rules, "ops": sends, "kind": f"{kind}/cfg"}
                    else:
                        ops = [["add", n, door, p, r] for n, rr in sorted(rules.items()) for p, r in rr]
                        yield {"ops": ops + sends, "kind": f"{kind}/{door}"}


def router_traffic_cases(tier: str):
    """Frames driven through router r0 in both directions: its single list judges every packet except genuine ARP."""
    blockers = [None,                                                              # defaults only: implicit DENY decides
                [0, ["DENY", "udp", None, None, None, None, None, None]],
                [1, ["DENY", None, "10.0.0.0", "0.0.255.255", None, None, None, None]],
                [0, ["PERMIT", None, None, None, None, None, None, None]],
                [21, ["DENY", None, None, None, None, None, None, ARP_PORT]],
                [2, ["PERMIT", "udp", None, None, None, None, None, ARP_PORT]]]
    k = 0
    for side in ("ra", "rb"):
        other = "rb" if side == "ra" else "ra"
        src, dst = SIDES[side][1], SIDES[other][1]
        for blk in blockers:
            for door in ("cfg", "py", "req"):
                k += 1
                sends = [["send", side, ["udp", src, dst, 1234, ARP_PORT]], ["send", side, ["udp", src, dst, ARP_PORT, ARP_PORT]],
                         ["send_arp", side], ["send", side, ["udp", src, dst, ARP_PORT, 53]],
                         ["send", side, ["tcp", src, dst, 1234, WIRE_PORTS[k % 8]]], ["send", side, ["icmp", src, dst, None, None]],
                         ["send", other, ["udp", dst, src, WIRE_PORTS[k % 8], ARP_PORT]]]
                if blk is None:
                    if door == "cfg":
                        yield {"ops": sends, "kind": "router-traffic/defaults"}
                elif door == "cfg":
                    yield {"init": {"router": [blk]}, "ops": sends, "kind": "router-traffic/cfg"}
                else:
                    yield {"ops": [["add", "router", door, blk[0], blk[1]]] + sends, "kind": f"router-traffic/{door}"}


@st.composite
def traffic_case(draw):
    """Random rule lists on all six firewall lists built around one flow, so that the lists disagree about it."""
    port = st.sampled_from(WIRE_PORTS + [ARP_PORT, ARP_PORT])
    if draw(st.integers(0, 3)) == 0:
        return draw(router_traffic_case(port))
    a, b = draw(st.sampled_from(ZONE_PAIRS))
    routed = draw(st.integers(0, 2)) == 0
    src, dst = ZONES[a][1], (ROUTED[b] if routed else ZONES[b][1])
    focus = draw(st.lists(st.one_of(st.tuples(st.sampled_from(["tcp", "udp"]), st.just(src), st.just(dst), port, port),
                                    st.just(("icmp", src, dst, None, None))).map(list), min_size=1, max_size=2))
    init: Dict[str, List] = {}
    ops: List[List] = []
    for x in FW_LISTS:
        n = f"fw:{x}"
        k = draw(st.integers(0, 3))
        poss = draw(st.permutations([0, 1, 2, 5, 22, 23]))[:k]
        rules = [[p, draw(rule_strategy(draw(st.sampled_from(focus))))] for p in poss]
        if n == INGRESS_LIST[a] and draw(st.integers(0, 9)) < 7:
            # let the flow pass the ingress side most of the time, otherwise the egress-side lists are never asked
            f0 = focus[0]
            opener = ["PERMIT", draw(st.sampled_from([None, f0[0]])), draw(st.sampled_from([None, src])), None,
                      draw(st.sampled_from([None, dst])), None, None, None]
            rules = [[0, opener]] + [pr for pr in rules if pr[0] != 0]
        door = draw(st.sampled_from(["cfg", "py", "req"]))
        if door == "cfg":
            if rules:
                init[n] = rules
        else:
            ops += [["add", n, door, p, r] for p, r in rules]
    ops = draw(st.permutations(ops))
    sends = [["send", a, f] for f in focus]
    for _ in range(draw(st.integers(1, 4))):  # neighbours of the flow and flows of other zone pairs
        a2, b2 = draw(st.sampled_from([(a, b), (a, b), (b, a)] + ZONE_PAIRS))
        dst2 = ROUTED[b2] if draw(st.integers(0, 2)) == 0 else ZONES[b2][1]
        if draw(st.booleans()):
            sends.append(["send", a2, [draw(st.sampled_from(["tcp", "udp"])), ZONES[a2][1], dst2, draw(port), draw(port)]])
        else:
            sends.append(["send", a2, ["icmp", ZONES[a2][1], dst2, None, None]])
    if draw(st.booleans()):  # change a list between two sends
        n = draw(st.sampled_from([INGRESS_LIST[a], EGRESS_LIST[b]]))
        sends.insert(draw(st.integers(1, len(sends))), ["add", n, draw(st.sampled_from(["py", "req"])), draw(st.sampled_from([0, 1, 2])),
                                                        draw(rule_strategy(focus[0]))])
        sends.append(["send", a, focus[0]])
    if draw(st.booleans()):
        sends.append(["probe", EGRESS_LIST[b], focus[0]])
    case = {"ops": list(ops) + sends, "kind": "traffic-routed/random" if routed else "traffic/random"}
    if init:
        case["init"] = init
    return case


@st.composite
def router_traffic_case(draw, port):
    """Random router list around flows between the two sides of r0, with datagrams to the ARP port among them."""
    side = draw(st.sampled_from(["ra", "rb"]))
    other = "rb" if side == "ra" else "ra"
    src, dst = SIDES[side][1], SIDES[other][1]
    focus = draw(st.lists(st.one_of(st.tuples(st.just("udp"), st.just(src), st.just(dst), port, st.just(ARP_PORT)),
                                    st.tuples(st.sampled_from(["tcp", "udp"]), st.just(src), st.just(dst), port, port),
                                    st.just(("icmp", src, dst, None, None))).map(list), min_size=1, max_size=3))
    k = draw(st.integers(0, 5))
    poss = draw(st.permutations([0, 1, 2, 5, 21, 22, 23]))[:k]
    rules = [[p, draw(rule_strategy(draw(st.sampled_from(focus))))] for p in poss]
    init: Dict[str, List] = {}
    ops: List[List] = []
    door = draw(st.sampled_from(["cfg", "py", "req"]))
    if door == "cfg" and rules:
        init["router"] = rules
    elif rules:
        ops = [["add", "router", door, p, r] for p, r in rules]
    for f in focus:
        ops.append(["send", side, f])
    for _ in range(draw(st.integers(1, 4))):
        s2, o2 = draw(st.sampled_from([(side, other), (other, side)]))
        kind = draw(st.sampled_from(["arp-port", "arp-port", "any", "icmp", "genuine-arp"]))
        if kind == "genuine-arp":
            ops.append(["send_arp", s2])
        elif kind == "icmp":
            ops.append(["send", s2, ["icmp", SIDES[s2][1], SIDES[o2][1], None, None]])
        elif kind == "arp-port":
            ops.append(["send", s2, ["udp", SIDES[s2][1], SIDES[o2][1], draw(port), ARP_PORT]])
        else:
            ops.append(["send", s2, [draw(st.sampled_from(["tcp", "udp"])), SIDES[s2][1], SIDES[o2][1], draw(port), draw(port)]])
    case = {"ops": ops, "kind": "router-traffic/random"}
    if init:
        case["init"] = init
    return case


def episode_cases(tier: str):
    """Single scenario-loaded rule at the router's (or a firewall list's) position 22 / 23 / 21 / 0 x the reduced rule
    domain, probed in the constructed episode and again after each of two env.reset()."""
    rules = reduced_rules(tier)
    dom = "reduced_q" if tier == "quick" else "reduced"
    k = 0
    for pos, stride in ((22, 1), (23, 1), (21, 4), (0, 4)):
        for r in rules[::stride]:
            k += 1
            name = "router" if k % 4 else GAME_LISTS[1 + (k // 4) % 6]
            other = [["DENY", "tcp", None, None, None, None, None, 80], ["PERMIT", None, A1, None, None, None, None, None]][k % 2]
            yield {"init": {name: [[pos, r]]}, "kind": "episode/single",
                   "ops": [["probe_all", name, dom], ["reset"], ["probe_all", name, dom],
                           ["add", name, ("py", "req")[k % 2], (5, 22, 23)[k % 3], other], ["probe_all", name, dom],
                           ["reset"], ["probe_all", name, dom]]}


@st.composite
def episode_case(draw):
    """Scenario-loaded lists with rules at the low and the highest positions, several episodes, changes in between."""
    names = ["router"] + draw(st.lists(st.sampled_from(GAME_LISTS[1:]), max_size=2, unique=True))
    focus = draw(st.lists(packet_strategy(), min_size=1, max_size=3))
    init: Dict[str, List] = {}
    for n in names:
        k = draw(st.integers(1, 5))
        poss = draw(st.permutations([0, 1, 2, 20, 21, 22, 23, 22, 23]))[:k]
        init[n] = [[p, draw(rule_strategy(draw(st.sampled_from(focus))))] for p in sorted(set(poss))]
    ops: List[List] = []
    for ep in range(draw(st.integers(2, 4))):
        if ep:
            ops.append(["reset"])
        for n in names:
            for f in focus:
                ops.append(["probe", n, f])
        for _ in range(draw(st.integers(0, 2))):
            n = draw(st.sampled_from(names))
            via = draw(st.sampled_from(["py", "req"]))
            p = draw(st.sampled_from([0, 1, 21, 22, 23]))
            if draw(st.integers(0, 3)):
                ops.append(["add", n, via, p, draw(rule_strategy(draw(st.sampled_from(focus))))])
            else:
                ops.append(["remove", n, via, p])
            ops.append(["probe", n, draw(st.sampled_from(focus))])
    return {"init": init, "ops": ops, "kind": "episode/random"}

# ---------------------------------------------------------------------------------------------------------------------


def worker(ctx: Ctx):
    pairs: set = set()

    def run(case):
        res = run_case(case)
        pairs.update(res.extra.pop("nt", ()))
        ctx.extra["probes"] = ctx.extra.get("probes", 0) + res.extra.get("probes", 0)
        res.label("kind:" + case.get("kind", "?"))
        return res

    quick = ctx.tier == "quick"
    enum_run(ctx, itertools.chain(single_rule_cases(ctx.tier), two_rule_cases(ctx.tier), traffic_cases(ctx.tier),
                                  router_traffic_cases(ctx.tier),                                  episode_cases(ctx.tier)), run)
    ctx.extra["exhaustive"] = True
    nr, n2 = len(cover_rules(ctx.tier)), len(reduced_rules(ctx.tier))
    ctx.extra["exhaustive_domain"] = (
        f"single-rule lists: all {nr} rules of the covering field domain x {len(PACKET_DOMAINS['cover'])} packets "
        f"({'each rule through one of 4 doors' if quick else 'each rule through the Python API, and again through the request and scenario doors x ' + str(len(PACKET_DOMAINS['cover_diag'])) + ' packets'}); "
        f"two-rule lists: all {n2}x{n2} ordered pairs of the reduced domain, second rule above and below the first, x "
        f"{len(PACKET_DOMAINS['reduced_q' if quick else 'reduced'])} packets through py/request doors"
        f"{'' if quick else ', and all ordered pairs through the scenario door'}; traffic: 6 zone pairs x 3 ingress-list x 3 "
        f"egress-list configurations x 2 catch-all actions on the other lists x 3 packets on the wire; episodes: single rules at "
        f"positions 22/23 (all {n2}) and 21/0 (every 4th) x 3 episodes"
    )
    total = 2000 if quick else 32000
    n = max(1, total // ctx.n)
    n_falsy = max(1, n // 6)
    hyp_run(ctx, random_case(24, falsy=False), run, n - n_falsy, sub=0)
    hyp_run(ctx, random_case(24, falsy=True), run, n_falsy, sub=1)
    hyp_run(ctx, traffic_case(), run, max(1, (320 if quick else 6400) // ctx.n), sub=2)
    hyp_run(ctx, episode_case(), run, max(1, (200 if quick else 3200) // ctx.n), sub=3)
    ctx.extra["nontrivial_pairs_distinct"] = len(pairs)
