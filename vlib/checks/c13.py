"""C13 — services and applications follow their lifecycle; only running software works (DESIGN §C13)."""
from __future__ import annotations

import itertools
from ipaddress import IPv4Address
from typing import Any, Dict, List, Optional

from hypothesis import strategies as st

from .. import c13_payloads as payloads
from ..harness import CaseResult, Ctx, enum_run, hyp_run
from ..simutil import exc_msg, exc_sig, lan_cfg, new_game

ID = "C13"
WORKERS = {"quick": 8, "thorough": 16}
RULE = (
    "case = (software type under test on host h0 of a two-host LAN built from a scenario dict; declared in the scenario / "
    "pre-installed / declared although pre-installed / absent; other software declared beside it; optional port listener; "
    "restart duration; node power durations) + op sequence over {start, stop, pause, resume, restart, disable, enable, fix, "
    "scan, execute, close, install, uninstall, tick, node off, node on, payload from the peer host, uninstall of / payload to "
    "another application on the same (port, protocol), bare node shutdown / startup / reset requests with durations 0..3, and "
    "- only while the node is not ON - every lifecycle verb sent to the software component itself (own request manager or "
    "method)}. All sequences to depth "
    "3 (quick) / 4 (thorough) for three services (11 symbols: the 7 state-changing verbs, tick, payload, node off, node on) "
    "and three applications (9 symbols: execute, close, scan, install, uninstall, tick, payload, node off, node on); a sweep "
    "of every shipped type x every non-running state x listener mode followed by a payload; Hypothesis sequences of length "
    "3..30 over the full alphabet for every shipped type; and a restart-duration sweep d=0..4 per service type. Non-trivial = the sequence contains a request the "
    "reference machine refuses, or an op other than tick issued while RESTARTING / INSTALLING / FIXING, or a re-install; "
    "distinct by hash of the case."
)
ASSUMPTIONS = [
    "requests are formed by the agent action classes (node-service-*, node-application-*, node-shutdown/startup)",
    "restart duration is set with defaults.service_restart_duration for software declared in the scenario and by the "
    "public field Service.restart_duration for pre-installed software; install duration is the shipped default",
    "peer payloads are one well-formed message of the type the software is written to receive (vlib/c13_payloads.py); "
    "delivery is REQUIRED only where the dispatch is unambiguous: the addressed software is RUNNING, the only RUNNING software "
    "on its (port, protocol), its node ON with enabled interfaces, get_open_ports() lists the port, the peer reports the frame "
    "sent, and the type's payload is one frame to its own port (not nmap / arp / C2); everywhere else non-delivery is accepted",
    "component-level calls (software.apply_request([verb]), software.start() ...) are in domain while the node is not ON; there "
    "only 'must not become RUNNING / must not answer success for start, resume, execute' is asserted, not the full FSM",
    "node power transitions themselves belong to C12: the power ops drive the node to OFF / ON and only the software "
    "consequences are asserted; timing assertions are suspended for a transition interrupted by a power event",
    "fix is required to succeed only when health is GOOD or COMPROMISED; execute of a RUNNING application may have any status; "
    "'a refused request changes nothing' is asserted for requests the reference machine refuses through validators / node "
    "power / absence, not for an execute that reaches its handler and fails there",
]

H0, H1 = "h0", "h1"
IP0, IP1 = "192.168.1.10", "192.168.1.11"

SYSTEM_SERVICES = ["arp", "icmp", "dns-client", "ntp-client", "ftp-client", "terminal", "user-manager",
                   "user-session-manager"]
EXTRA_SERVICES = ["ftp-server", "database-service", "dns-server", "ntp-server", "web-server"]
SYSTEM_APPS = ["web-browser", "nmap"]
EXTRA_APPS = ["database-client", "ransomware-script", "c2-beacon", "c2-server", "data-manipulation-bot", "dos-bot"]
SERVICES = SYSTEM_SERVICES + EXTRA_SERVICES
APPS = SYSTEM_APPS + EXTRA_APPS
# pre-installed software that shipped scenario files declare again (dns-client 28x, web-browser 32x, ftp-client 14x, ...)
REDECLARABLE = ["dns-client", "ntp-client", "ftp-client", "web-browser", "nmap"]

# main port of the types that have one (for the listen_on_ports listener)
LISTEN_PORT = {"dns-client": 53, "dns-server": 53, "ntp-client": 123, "ntp-server": 123, "ftp-client": 21, "ftp-server": 21,
               "terminal": 22, "web-browser": 80, "web-server": 80, "database-service": 5432, "database-client": 5432,
               "dos-bot": 5432, "arp": 219}

# (D) delivery clause: types whose peer payload is a single frame to the software's own (port, protocol)
ASSERT_DELIVERY = {"web-server", "web-browser", "dns-server", "dns-client", "ntp-server", "ntp-client", "ftp-server", "ftp-client",
                   "database-service", "database-client", "dos-bot", "terminal", "icmp"}
# an APPLICATION on the same (port, protocol) as the key (uninstall_other / payload_other ops); None in the second slot = it is
# pre-installed, otherwise it is declared after the target in the scenario
PARTNER = {"web-server": "web-browser", "database-service": "database-client", "database-client": "dos-bot",
           "dos-bot": "database-client"}

SERVICE_VERBS = ["start", "stop", "pause", "resume", "restart", "disable", "enable", "fix", "scan"]
APP_VERBS = ["execute", "close", "fix", "scan"]

# documented source state of each service request (action_masking.rst); disable: any state
SERVICE_SRC = {"start": "STOPPED", "stop": "RUNNING", "pause": "RUNNING", "resume": "PAUSED", "restart": "RUNNING",
               "enable": "DISABLED", "fix": "RUNNING", "scan": "RUNNING"}
SERVICE_DST = {"start": "RUNNING", "stop": "STOPPED", "pause": "PAUSED", "resume": "RUNNING", "restart": "RESTARTING",
               "enable": "STOPPED", "fix": "RUNNING", "scan": "RUNNING", "disable": "DISABLED"}


def norm_state(x: Any) -> Any:
    """Order-insensitive snapshot of a describe_state() tree, for before/after comparison inside one run."""
    if isinstance(x, dict):
        return tuple(sorted(((str(k), norm_state(v)) for k, v in x.items()), key=lambda t: t[0]))
    if isinstance(x, (list, tuple)):
        return tuple(norm_state(v) for v in x)
    if isinstance(x, (set, frozenset)):
        return tuple(sorted(repr(v) for v in x))
    if isinstance(x, (str, int, float, bool)) or x is None:
        return x
    return repr(x)


def _am():
    from primaite.game.agent.actions import ActionManager

    return ActionManager()


def form(kind: str, name: str, verb: str) -> List:
    am = _am()
    if verb in ("shutdown", "startup", "reset"):
        return am.form_request(f"node-{verb}", {"node_name": H0})
    if kind == "service":
        return am.form_request(f"node-service-{verb}", {"node_name": H0, "service_name": name})
    if verb == "install":
        return am.form_request("node-application-install", {"node_name": H0, "application_name": name})
    if verb == "uninstall":
        return am.form_request("node-application-remove", {"node_name": H0, "application_name": name})
    return am.form_request(f"node-application-{verb}", {"node_name": H0, "application_name": name})


# ---------------------------------------------------------------------------------------------------------------------
# scenario


def build_cfg(case: Dict) -> Dict:
    kind, typ = case["kind"], case["type"]
    rd = case.get("rd")
    declared_service = kind == "service" and case.get("declare")
    defaults = {"service_restart_duration": rd} if (rd is not None and declared_service) else None
    cfg = lan_cfg(2, defaults=defaults)
    h0 = cfg["simulation"]["network"]["nodes"][1]
    assert h0["hostname"] == H0
    h0["start_up_duration"] = h0["shut_down_duration"] = int(case.get("pd", 0))
    services, apps = [], []
    if case.get("declare"):
        entry = {"type": typ}
        if case.get("fdur") is not None:  # documented common option (common_configuration.rst), independent of the other durations
            entry["options"] = {"fixing_duration": int(case["fdur"])}
        (services if kind == "service" else apps).append(entry)
    for k, t in case.get("extra", []):
        if t == typ or {typ, t} == {"c2-server", "c2-beacon"}:
            continue  # C2 server and beacon on ONE host answer each other's keep-alives without end; not a lifecycle question
        (services if k == "service" else apps).append({"type": t})
    for o in case.get("ops", []):  # software named by uninstall_other / payload_other is declared after the target
        if o[0] in ("uninstall_other", "payload_other") and o[1] not in SYSTEM_APPS and o[1] != typ \
                and not any(a["type"] == o[1] for a in apps):
            apps.append({"type": o[1]})
    lis = case.get("listener")
    if lis in (True, "c2") and typ not in ("c2-server", "c2-beacon") and not any(a["type"] == "c2-server" for a in apps):
        apps.append({"type": "c2-server"})  # a shipped application that listens on HTTP, FTP and DNS besides its own port
    elif lis == "port" and typ in LISTEN_PORT:
        # documented option listen_on_ports (common_configuration.rst): other software also listens on the target's port
        ltype = "ntp-server" if typ not in ("ntp-server", "ntp-client") else "database-service"
        services = [x for x in services if x["type"] != ltype]
        services.append({"type": ltype, "options": {"listen_on_ports": [LISTEN_PORT[typ]]}})
    if typ == "c2-beacon":  # the peer hosts the C2 server the beacon is configured for (set-up step in _run)
        cfg["simulation"]["network"]["nodes"][2]["applications"] = [{"type": "c2-server"}]
    if services:
        h0["services"] = services
    if apps:
        h0["applications"] = apps
    return cfg


class RecvSpy:
    """Observe-only wrapper on <class>.receive for the duration of one case."""

    def __init__(self, cls):
        self.cls = cls
        self.calls: List[tuple] = []
        self._own = cls.__dict__.get("receive")
        base = cls.receive
        spy = self

        def receive(self_, *a, **k):
            pre = self_.operating_state.name
            pre_state = norm_state(self_.describe_state())
            entry = [self_, pre, pre_state, None]
            spy.calls.append(entry)  # logged at entry: a raising receive() still counts as called
            r = base(self_, *a, **k)
            entry[3] = r
            return r

        setattr(cls, "receive", receive)

    def close(self):
        if self._own is None:
            delattr(self.cls, "receive")
        else:
            setattr(self.cls, "receive", self._own)


class MultiSpy:
    """RecvSpy over several classes sharing one call log."""

    def __init__(self, classes):
        self.spies = [RecvSpy(c) for c in classes]
        self.calls = self.spies[0].calls
        for sp in self.spies[1:]:
            sp.calls = self.calls

    def close(self):
        for sp in reversed(self.spies):
            sp.close()


def sw_class(kind: str, typ: str):
    from primaite.simulator.system.applications.application import Application
    from primaite.simulator.system.services.service import Service

    return (Service if kind == "service" else Application)._registry[typ]


# ---------------------------------------------------------------------------------------------------------------------
# registries, ports


def find_duplicates(node) -> List:
    """Instances in node.services / node.applications that are not the installed instance of their name."""
    sm = node.software_manager
    return [o for o in list(node.services.values()) + list(node.applications.values())
            if sm.software.get(o.name) is not o and sum(1 for x in list(node.services.values()) + list(node.applications.values()) if x.name == o.name) > 1]


def check_registries(node, res: CaseResult, when: str, dup_at_build: Optional[List] = None) -> bool:
    from primaite.simulator.system.applications.application import Application
    from primaite.simulator.system.services.service import Service

    ok = True

    def bad(sig, msg):
        nonlocal ok
        ok = False
        res.violate(sig, f"{when}: {msg}")

    sm = node.software_manager
    inst = dict(sm.software)
    for k, v in inst.items():
        if v.name != k:
            bad("registry:key-name-mismatch", f"software_manager.software[{k!r}].name == {v.name!r}")
    a_serv = {k for k, v in inst.items() if isinstance(v, Service)}
    a_apps = {k for k, v in inst.items() if isinstance(v, Application)}
    # second instances created while the scenario was loaded are one root cause: everything they explain is reported
    # under registry:duplicate-instance, and they are left out of the other comparisons
    ghosts = [o for o in (dup_at_build or []) if any(o is x for x in list(node.services.values()) + list(node.applications.values()))]
    ghost_ids = {o.uuid for o in ghosts}
    if ghosts:
        bad("registry:duplicate-instance", f"a second instance of {sorted({o.name for o in ghosts})} created while the "
            f"scenario was loaded is still listed in node.services/applications")
    listed = [(s.name, s) for s in node.services.values() if s.uuid not in ghost_ids] + \
             [(a.name, a) for a in node.applications.values() if a.uuid not in ghost_ids]
    names = [n for n, _ in listed]
    dups = sorted({n for n in names if names.count(n) > 1})
    if dups:
        bad("registry:duplicate-instance-at-run-time", f"node lists hold more than one instance of {dups}")
    b_serv = {s.name for s in node.services.values() if s.uuid not in ghost_ids}
    b_apps = {a.name for a in node.applications.values() if a.uuid not in ghost_ids}
    for kind, a, b in (("service", a_serv, b_serv), ("application", a_apps, b_apps)):
        if b - a:
            bad(f"registry:listed-but-not-installed:{kind}", f"node.{kind}s has {sorted(b - a)} not in software_manager.software")
        if a - b:
            bad(f"registry:installed-but-not-listed:{kind}", f"software_manager.software has {sorted(a - b)} not in node.{kind}s")
    for k, v in inst.items():
        if k in names and not any(o is v for n, o in listed if n == k):
            bad("registry:instance-mismatch", f"{k}: node list holds a different object than software_manager.software")
    # routable names
    routes = node._request_manager.get_request_types_recursively()
    c_serv = {r[1] for r in routes if len(r) > 2 and r[0] == "service"}
    c_apps = {r[1] for r in routes if len(r) > 2 and r[0] == "application"}
    for kind, a, c in (("service", a_serv, c_serv), ("application", a_apps, c_apps)):
        if c - a:
            bad(f"registry:route-without-software:{kind}", f"requests are routable to {sorted(c - a)} which is not installed")
        if a - c:
            bad(f"registry:software-without-route:{kind}", f"{sorted(a - c)} installed but not routable")
    for kind, rm in (("service", node._service_request_manager), ("application", node._application_request_manager)):
        for name, rt in rm.request_types.items():
            sw = inst.get(name)
            if sw is not None and rt.func is not sw._request_manager:
                bad(f"registry:route-to-stale-instance:{kind}", f"route {kind}/{name} does not lead to the installed instance")
    # reported state
    state = node.describe_state()
    for kind, a, key in (("service", a_serv, "services"), ("application", a_apps, "applications")):
        d = {n for n, v in state[key].items() if v.get("uuid") not in ghost_ids}
        if d - a:
            bad(f"registry:state-lists-uninstalled:{kind}", f"describe_state()[{key}] has {sorted(d - a)} not installed")
        if a - d - {n for n, v in state[key].items() if v.get("uuid") in ghost_ids}:
            bad(f"registry:state-misses-installed:{kind}", f"describe_state()[{key}] lacks {sorted(a - d)}")
        for name in d & a:
            if state[key][name].get("uuid") != inst[name].uuid:
                bad(f"registry:state-of-stale-instance:{kind}", f"describe_state()[{key}][{name}] describes another instance")
    # check_port_is_open(port, protocol) <=> some RUNNING software uses that (port, protocol)  (its docstring; nmap answers
    # remote port scans from it), and whatever it reports open is also in get_open_ports()
    open_now = set(sm.get_open_ports())
    for v in inst.values():
        says = bool(sm.check_port_is_open(port=v.port, protocol=v.protocol))
        owner = any(w.operating_state.name == "RUNNING" and (w.port, w.protocol) == (v.port, v.protocol) for w in inst.values())
        if says and not owner:
            bad(f"check-port-is-open-without-running-owner:{v.operating_state.name}",
                f"check_port_is_open({v.port}, {v.protocol}) is True but no RUNNING software uses it ({v.name} is {v.operating_state.name})")
        elif owner and not says:
            bad("check-port-is-open-false-with-running-owner", f"check_port_is_open({v.port}, {v.protocol}) is False, RUNNING software uses it")
        elif says and v.port not in open_now:
            bad("check-port-is-open-disagrees-with-get-open-ports", f"check_port_is_open({v.port}, {v.protocol}) is True, get_open_ports() lacks it")
    # open ports == ports of RUNNING software
    exp = set()
    for v in inst.values():
        if v.operating_state.name == "RUNNING":
            exp.add(v.port)
            exp |= set(v.listen_on_ports or ())
    act = set(sm.get_open_ports())
    if act - exp:
        bad("open-port-without-running-software", f"open {sorted(act - exp)} but no RUNNING software has it")
    for v in inst.values():
        if v.operating_state.name == "RUNNING" and v.port not in act:
            # bucket by cause: the (port, protocol) -> software map holds one entry per key, which may be other software
            mapped = sm.port_protocol_mapping.get((v.port, v.protocol))
            bad("running-software-port-not-open:" + ("mapped" if mapped is v else "not-in-port-map"),
                f"port {v.port} of RUNNING {v.name} is not in get_open_ports() "
                f"(port_protocol_mapping[{v.port},{v.protocol}] is {getattr(mapped, 'name', None)})")
    return ok


# ---------------------------------------------------------------------------------------------------------------------
# timing baseline (interference-free run of the same tree); a pure function of (tree, type, declare, d)

_BASE: Dict[tuple, Optional[int]] = {}


def _measure_restart(typ: str, declare: bool, d: int) -> Optional[int]:
    """Ticks from an accepted restart to RUNNING with nothing else going on; None if not accepted / not completed."""
    case = {"kind": "service", "type": typ, "declare": declare, "rd": d, "pd": 0}
    game = new_game(build_cfg(case))
    node = game.simulation.network.get_node_by_hostname(H0)
    sw = node.software_manager.software.get(typ)
    if sw is None:
        return None
    if not declare:
        sw.restart_duration = d
    if game.simulation.apply_request(form("service", typ, "restart")).status != "success":
        return None
    for t in range(0, d + 4):
        if sw.operating_state.name == "RUNNING":
            return t
        game.step()
    return None


def base_restart(typ: str, declare: bool, d: int) -> Optional[int]:
    key = ("restart", typ, declare, d)
    if key not in _BASE:
        _BASE[key] = _measure_restart(typ, declare, d)
    return _BASE[key]


def _measure_install(typ: str) -> Optional[int]:
    case = {"kind": "application", "type": typ, "declare": False, "pd": 0}
    game = new_game(build_cfg(case))
    node = game.simulation.network.get_node_by_hostname(H0)
    if typ in node.software_manager.software:
        game.simulation.apply_request(form("application", typ, "uninstall"))
    if game.simulation.apply_request(form("application", typ, "install")).status != "success":
        return None
    sw = node.software_manager.software.get(typ)
    if sw is None:
        return None
    for t in range(0, sw.install_duration + 4):
        if sw.operating_state.name == "RUNNING":
            return t
        game.step()
    return None


def base_install(typ: str) -> Optional[int]:
    key = ("install", typ)
    if key not in _BASE:
        _BASE[key] = _measure_install(typ)
    return _BASE[key]


def band(d: int) -> tuple:
    """Accepted completion ticks for a timer of d (DESIGN §C12/§C14): {d, d+1} for d >= 1, {0, 1} for d = 0."""
    return (d, d + 1) if d >= 1 else (0, 1)


# ---------------------------------------------------------------------------------------------------------------------


def run_timing_case(case: Dict) -> CaseResult:
    """Restart-duration sweep for one service type: band and unit slope."""
    res = CaseResult()
    typ, declare = case["type"], case["declare"]
    ts = {}
    for d in case["ds"]:
        try:
            t = _measure_restart(typ, declare, d)
        except Exception as e:
            res.violate(f"raise:restart-sweep:{exc_sig(e)}", f"{typ} d={d}: {exc_msg(e)}")
            return res
        ts[d] = t
        if t is None:
            res.violate("restart-never-completes", f"{typ}: restart with duration {d} not accepted or not RUNNING after {d + 3} ticks")
        elif not band(d)[0] <= t <= band(d)[1]:
            res.violate("restart-duration-out-of-band", f"{typ}: restart_duration={d} completed after {t} ticks, accepted {band(d)}")
    for d in case["ds"]:
        if d >= 1 and d + 1 in ts and ts[d] is not None and ts[d + 1] is not None and ts[d + 1] - ts[d] != 1:
            res.violate("restart-duration-not-unit-slope", f"{typ}: T({d})={ts[d]}, T({d + 1})={ts[d + 1]}")
    res.nontrivial = ("timing", typ, declare)
    res.label("timing-sweep")
    return res


def run_case(case: Dict) -> CaseResult:
    if case.get("kind") == "timing":
        return run_timing_case(case)
    res = CaseResult()
    kind, typ, ops = case["kind"], case["type"], case["ops"]
    # interference-free baselines first: they build their own simulations (and reset the harness entropy)
    base = {"r": None, "d": None, "i": None}
    try:
        if kind == "service" and any(o == ["req", "restart"] for o in ops):
            base["d"] = case.get("rd") if case.get("rd") is not None else sw_class(kind, typ).model_fields["restart_duration"].default
            base["r"] = base_restart(typ, bool(case.get("declare")), base["d"])
        if kind == "application" and any(o == ["install"] for o in ops):
            base["i"] = base_install(typ)
    except Exception as e:
        res.violate(f"raise:baseline:{exc_sig(e)}", exc_msg(e))
        return res
    try:
        game = new_game(build_cfg(case))
    except Exception as e:  # a scenario built only from documented keys must load
        res.violate(f"raise:build:{exc_sig(e)}", exc_msg(e))
        return res
    sim = game.simulation
    node = sim.network.get_node_by_hostname(H0)
    peer = sim.network.get_node_by_hostname(H1)
    sm = node.software_manager
    classes = [sw_class(kind, typ)]
    for o in ops:
        if o[0] in ("uninstall_other", "payload_other"):
            c = sw_class("application", o[1])
            if c not in classes:
                classes.append(c)
    spy = MultiSpy(classes)
    try:
        _run(case, res, game, sim, node, peer, sm, spy, kind, typ, ops, base)
    finally:
        spy.close()
    return res


def _run(case, res, game, sim, node, peer, sm, spy, kind, typ, ops, base):
    base_r, base_d, base_i = base["r"], base["d"], base["i"]
    from primaite.simulator.network.hardware.node_operating_state import NodeOperatingState as NS

    def cur():
        return sm.software.get(typ)

    def state():
        s = cur()
        return s.operating_state.name if s is not None else "ABSENT"

    # set-up: restart duration of pre-installed software, ARP caches primed by one ping while everything is up
    rd = case.get("rd")
    if kind == "service" and rd is not None and not case.get("declare") and cur() is not None:
        cur().restart_duration = rd
    if kind == "application" and case.get("idur") is not None and cur() is not None:
        cur().install_duration = int(case["idur"])  # public field "How long it takes to install the application"
    try:
        peer.ping(IP0)
        if typ == "c2-beacon" and cur() is not None:
            sim.apply_request(_am().form_request("configure-c2-beacon", {"node_name": H0, "c2_server_ip_address": IP1}))
    except Exception as e:
        res.violate(f"raise:setup:{exc_sig(e)}", exc_msg(e))
        return
    dup_at_build = find_duplicates(node)
    if not check_registries(node, res, "after construction", dup_at_build):
        res.label("registry-violation-at-construction")
    spy.calls.clear()

    m_state = state()  # model state; re-synchronised to the observation after every reported disagreement
    pending: Optional[Dict] = None  # timed transition in flight: {"what", "d", "ticks", "clean"}
    was_running_at_off = False
    nontrivial = False
    seen_uninstall = False
    fixp: Optional[Dict] = None  # fix in flight on the target: {"d", "ticks", "clean"}
    route_loss: Dict[tuple, str] = {}  # (port, protocol) -> which kind of uninstall last happened on that key (signature bucket)
    n_refused = n_accepted = n_deliv_running = n_deliv_stopped = 0

    def node_on():
        return node.operating_state == NS.ON

    def health():
        s = cur()
        return s.health_state_actual.name if s is not None else None

    def do_tick(when) -> bool:
        try:
            game.step()
        except Exception as e:
            res.violate(f"raise:tick:{exc_sig(e)}", f"{when}: {exc_msg(e)}")
            return False
        return True

    def power_edge(prev_ns, pre, when) -> bool:
        """The node has just reached OFF (possibly on its way to BOOTING: reset) or ON: what must have happened to the software."""
        nonlocal was_running_at_off, pending, m_state
        now = node.operating_state
        if now == prev_ns:
            return False
        through_off = prev_ns in (NS.ON, NS.SHUTTING_DOWN) and now in (NS.OFF, NS.BOOTING, NS.ON)
        on_edge = now == NS.ON and prev_ns in (NS.OFF, NS.BOOTING)
        if not (through_off or on_edge):
            return False  # ON -> SHUTTING_DOWN, OFF -> BOOTING: nothing is documented to happen to software
        if pending:
            pending["clean"] = False
        obs = state()
        if through_off and now == NS.ON:
            power_cycle_check(pre, when)  # reset with zero durations: stopped and started again inside one op
        elif through_off:
            # Node._shut_down_actions: "Turn off all the services in the node" / "Turn off all the applications in the node";
            # software.rst: "service stops when node is powered off", "service turned back on when node is powered on"
            was_running_at_off = pre in ("RUNNING", "PAUSED")
            for v in sm.software.values():
                bad_states = ("RUNNING", "PAUSED") if hasattr(v, "restart_duration") else ("RUNNING",)
                if v.operating_state.name in bad_states and v is not cur():
                    res.violate(f"software-not-turned-off-on-powered-off-node:{v.operating_state.name}",
                                f"{when}: {v.name} is {v.operating_state.name} after the node reached OFF")
            if obs == "RUNNING":
                res.violate(f"running-on-powered-off-node:{kind}", f"{when}: {obs} after the node reached OFF")
            else:
                if kind == "service":
                    allowed = {"RUNNING": {"STOPPED"}, "STOPPED": {"STOPPED"}, "DISABLED": {"DISABLED"},
                               "PAUSED": {"STOPPED"}, "RESTARTING": {"STOPPED", "RESTARTING"},
                               "ABSENT": {"ABSENT"}}.get(pre)
                else:
                    allowed = {"RUNNING": {"CLOSED"}, "CLOSED": {"CLOSED"}, "INSTALLING": {"INSTALLING", "CLOSED"},
                               "ABSENT": {"ABSENT"}}.get(pre)
                if allowed and obs not in allowed:
                    res.violate(f"power-off-transition:{kind}:{pre}->{obs}", when)
        else:
            if kind == "service":
                allowed = {"STOPPED": {"RUNNING"} if was_running_at_off else {"RUNNING", "STOPPED"},
                           "DISABLED": {"DISABLED"}, "ABSENT": {"ABSENT"}}.get(pre)
            else:
                allowed = {"CLOSED": {"RUNNING", "CLOSED"}, "ABSENT": {"ABSENT"},
                           "INSTALLING": {"INSTALLING", "RUNNING", "CLOSED"}}.get(pre)
            if allowed and obs not in allowed:
                res.violate(f"power-on-transition:{kind}:{pre}->{obs}", when)
        if obs != pre and pending and pending["state"] != obs:
            pending = None
        m_state = obs
        return True

    def power_cycle_check(pre, when):
        """Down and up again inside one op (reset, zero durations): turned off, then 'starting all Services and Applications'."""
        obs = state()
        res.label("power-cycle-within-one-op")
        if kind == "service":
            allowed = {"RUNNING": {"RUNNING"}, "PAUSED": {"RUNNING"}, "STOPPED": {"RUNNING", "STOPPED"}, "DISABLED": {"DISABLED"},
                       "ABSENT": {"ABSENT"}}.get(pre)
        else:
            allowed = {"RUNNING": {"RUNNING", "CLOSED"}, "CLOSED": {"RUNNING", "CLOSED"}, "ABSENT": {"ABSENT"}}.get(pre)
        if allowed and obs not in allowed:
            res.violate(f"power-cycle-transition:{kind}:{pre}->{obs}", when)

    def power_request(verb, when) -> bool:
        nonlocal m_state, pending
        if fixp is not None:
            fixp["clean"] = False
        prev_ns, pre = node.operating_state, m_state
        try:
            sim.apply_request(form(kind, typ, verb))
        except Exception as e:
            res.violate(f"raise:{verb}:{exc_sig(e)}", f"{when}: {exc_msg(e)}")
            return False
        if verb == "reset" and prev_ns == NS.ON and node.operating_state == NS.ON:
            # zero durations: the node went down and came up again inside the request (software stopped and started again)
            power_cycle_check(pre, when)
            if pending:
                pending["clean"] = False
                if state() != pending["state"]:
                    pending = None
            m_state = state()
        elif not power_edge(prev_ns, pre, when) and state() != pre:
            res.violate(f"power-request-changed-software-state:{kind}:{pre}->{state()}", f"{when}: node {node.operating_state.name}")
            m_state = state()
        return True

    def tick_op(when) -> bool:
        nonlocal pending, m_state, fixp
        prev_ns, on_before = node.operating_state, node_on()
        if pending is None and m_state in ("RESTARTING", "INSTALLING"):
            # a timed transition entered by a path that did not register it (component-level restart on a node that is not ON,
            # a power cycle ...): its completion is still its own; no duration is asserted for it
            what = "restart" if m_state == "RESTARTING" else "install"
            pending = {"what": what, "state": m_state, "d": 0, "ticks": 0, "clean": False, "base": None}
        if not do_tick(when):
            return False
        if fixp is not None:
            if not (on_before and node_on()):
                fixp["clean"] = False
            fixp["ticks"] += 1
            lo, hi = band(fixp["d"])
            if health() != "FIXING":
                if fixp["clean"] and health() is not None:
                    if not lo <= fixp["ticks"] <= hi:
                        res.violate("fix-duration-out-of-band",
                                    f"{when}: fix with fixing_duration {fixp['d']} completed after {fixp['ticks']} ticks, accepted {lo}..{hi}")
                    res.label("timed-fix-completed")
                fixp = None
            elif fixp["clean"] and fixp["ticks"] >= hi:
                res.violate(f"fix-overdue:{typ}", f"{when}: still FIXING after {fixp['ticks']} ticks with fixing_duration {fixp['d']}")
                fixp["clean"] = False
        if power_edge(prev_ns, m_state, when):
            return True
        obs = state()
        if pending and m_state == pending["state"]:
            if not (on_before and node_on()):
                pending["clean"] = False
            pending["ticks"] += 1
            lo, hi = band(pending["d"])
            if obs == "RUNNING":
                if pending["clean"]:
                    t = pending["ticks"]
                    if t < lo or t > hi:
                        res.violate(f"{pending['what']}-duration-out-of-band",
                                    f"{when}: {pending['what']} with duration {pending['d']} completed after {t} ticks, accepted {lo}..{hi}")
                    base = pending["base"]
                    if base is not None and base != t:
                        res.violate(f"{pending['what']}-duration-depends-on-interleaving",
                                    f"{when}: completed after {t} ticks, interference-free run of the same tree needs {base}")
                    res.label(f"timed-{pending['what']}-completed")
                pending = None
            elif obs == m_state:
                if pending["clean"] and pending["ticks"] >= hi:
                    res.violate(f"{pending['what']}-overdue:{typ}",
                                f"{when}: still {obs} after {pending['ticks']} ticks with duration {pending['d']}")
                    pending["clean"] = False
            else:
                res.violate(f"tick-changed-state:{kind}:{m_state}->{obs}", when)
                pending = None
        elif obs != m_state:
            res.violate(f"tick-changed-state:{kind}:{m_state}->{obs}", when)
        m_state = obs
        return True

    def running_names():
        return {n for n, v in sm.software.items() if v.operating_state.name == "RUNNING"}

    running_prev = running_names()

    for i, op in enumerate(ops):
        k = op[0]
        when = f"op#{i} {op} [{kind} {typ}, model {m_state}]"
        if state() != m_state:  # cannot happen: the model is re-synchronised below
            raise AssertionError(f"model out of sync {when}: {state()}")
        busy = m_state in ("RESTARTING", "INSTALLING") or health() == "FIXING"
        if busy and k != "tick":
            nontrivial = True

        if k == "tick":
            if not tick_op(when):
                return

        elif k in ("node_off", "node_on"):
            want_off = k == "node_off"
            if (want_off and node.operating_state != NS.ON) or (not want_off and node.operating_state != NS.OFF):
                res.label("power-op-skipped")
                continue
            if not power_request("shutdown" if want_off else "startup", when):
                return
            target = NS.OFF if want_off else NS.ON
            for _ in range(int(case.get("pd", 0)) + 3):
                if node.operating_state == target:
                    break
                if not tick_op(when):
                    return
            if node.operating_state != target:
                res.label("power-op-incomplete")  # C12's business

        elif k in ("shutdown", "startup", "reset"):
            # the bare node request: with durations >= 1 the following ops meet the node in SHUTTING_DOWN / BOOTING
            if not power_request(k, when):
                return
            if not node_on():
                res.label(f"node-left-in:{node.operating_state.name}")

        elif k == "direct":
            # a lifecycle verb sent to the software component itself (its own request manager, or the method) while the
            # node is not ON: the node-level routes are closed then, the component is not
            verb, how = op[1], op[2]
            s_ = cur()
            if node_on() or s_ is None or (how == "method" and not callable(getattr(s_, verb, None))):
                res.label("direct-op-skipped")
                continue
            nontrivial = True
            pre, ns = m_state, node.operating_state.name
            ok = False
            try:
                if how == "request":
                    ok = s_.apply_request([verb]).status == "success"
                else:
                    ok = getattr(s_, verb)() is True
            except Exception as e:
                res.violate(f"raise:direct-{verb}:{exc_sig(e)}", f"{when}: {exc_msg(e)}")
                return
            obs = state()
            res.label(f"direct-op-on:{ns}")
            if obs == "RUNNING" and pre != "RUNNING":
                res.violate(f"became-running-on-node-not-on:{kind}:{verb}:{ns}",
                            f"{when}: {how} {verb} on the {pre} {typ} while the node is {ns}: now RUNNING (accepted={ok})")
            elif ok and how == "request" and verb in ("start", "resume", "execute"):  # (some run() methods return True always)
                res.violate(f"accepted-on-node-not-on:{kind}:{verb}:{ns}",
                            f"{when}: {how} {verb} answered success while the node is {ns} ({pre} -> {obs})")
            if pending:
                pending["clean"] = False
                if obs != pending["state"]:
                    pending = None
            was_running_at_off = False
            if fixp is not None:
                fixp["clean"] = False
            m_state = obs

        elif k in ("payload", "payload_other"):
            addr = typ if k == "payload" else op[1]
            spy.calls.clear()
            if addr == "nmap" and sm.software.get(addr) is None and "C13-nmap-uninstalled-crash" in case.get("excl", ()):
                res.label("excluded:C13-nmap-uninstalled-crash")  # known crash would end the case here
                continue
            x = sm.software.get(addr)
            # (D) is the addressed software in a position where the dispatch is unambiguous? (decided BEFORE sending)
            must_reach = None
            if (x is not None and addr in ASSERT_DELIVERY and x.operating_state.name == "RUNNING" and node_on()
                    and all(n.enabled for n in node.network_interface.values())
                    and (addr == "icmp" or x.port in sm.get_open_ports())
                    and not any(v is not x and v.operating_state.name == "RUNNING" and (v.port, v.protocol) == (x.port, x.protocol)
                                for v in sm.software.values())):
                mapped = sm.port_protocol_mapping.get((x.port, x.protocol))
                if mapped is x:
                    must_reach = "routed"
                elif mapped is None:
                    must_reach = "no-route:" + route_loss.get((x.port, x.protocol), "never-routed")
                elif not any(mapped is v for v in sm.software.values()):
                    must_reach = "route-to-uninstalled"
                else:
                    must_reach = "route-to-non-running"
            try:
                sent = payloads.send(peer, IP0, addr)
            except Exception as e:
                res.violate(f"raise:payload:{exc_sig(e)}", f"{when}: {exc_msg(e)}")
                return
            if sent is None:
                res.label("payload-not-applicable")
                continue
            reached_x = False
            for inst, pre, pre_state, ret in list(spy.calls):
                if inst.software_manager is not sm:
                    continue  # the peer's own instance
                if inst is x:
                    reached_x = True
                if pre == "RUNNING" and node_on():
                    n_deliv_running += 1
                    continue
                n_deliv_stopped += 1
                where = pre if node_on() else "node-not-on"
                if ret:
                    res.violate(f"payload-handled-while-not-running:{inst.name}",
                                f"{when}: receive() of the {where} {inst.name} was called and returned {ret!r}")
                elif norm_state(inst.describe_state()) != pre_state:
                    res.violate(f"payload-changed-state-while-not-running:{inst.name}",
                                f"{when}: receive() of the {where} {inst.name} returned {ret!r} but its state changed")
            spy.calls.clear()
            if must_reach is not None and sent is True:
                res.label("delivery-asserted")
                if not reached_x:
                    res.violate(f"running-software-not-reached:{must_reach}",
                                f"{when}: {addr} is RUNNING on a powered-on node, the only RUNNING software on {x.port}/{x.protocol}, "
                                f"get_open_ports() reports the port open and the peer put a well-formed frame on the wire, but its "
                                f"receive() was never called (port_protocol_mapping entry: "
                                f"{getattr(sm.port_protocol_mapping.get((x.port, x.protocol)), 'name', None)})")
            if state() != m_state:
                res.violate(f"payload-changed-operating-state:{kind}:{m_state}->{state()}", when)
                m_state = state()

        elif k == "direct_install":
            # Application.install() on the installed, CLOSED instance ("being installed or updated"): a timed installation that
            # must last the instance's OWN install_duration, whatever its other durations are
            x = cur()
            if kind != "application" or x is None or m_state != "CLOSED" or not node_on():
                res.label("direct-install-skipped")
                continue
            d = int(x.install_duration)
            try:
                x.install()
            except Exception as e:
                res.violate(f"raise:direct_install:{exc_sig(e)}", f"{when}: {exc_msg(e)}")
                return
            obs = state()
            if obs not in ("INSTALLING", "RUNNING"):
                res.violate(f"wrong-target-state:application:install():CLOSED->{obs}", when)
            if obs == "INSTALLING":
                pending = {"what": "install", "state": "INSTALLING", "d": d, "ticks": 0, "clean": True, "base": None}
                res.label(f"direct-install:d={d}:fix={x.config.fixing_duration}")
            m_state = obs

        elif k == "scan_port":
            # the peer's nmap scans the target software's own (port, protocol); the scanned host's nmap answers
            x = cur()
            if x is None or x.protocol not in ("tcp", "udp") or not x.port:
                res.label("scan-not-applicable")
                continue
            try:
                found = peer.software_manager.software["nmap"].port_scan(
                    target_ip_address=IPv4Address(IP0), target_protocol=x.protocol, target_port=x.port, show=False)
            except Exception as e:
                res.violate(f"raise:scan_port:{exc_sig(e)}", f"{when}: {exc_msg(e)}")
                return
            reported = any(x.port in ports for protos in (found or {}).values() for ports in protos.values())
            owner = any(w.operating_state.name == "RUNNING" and (w.port, w.protocol) == (x.port, x.protocol)
                        for w in sm.software.values())
            res.label("remote-scan-reports-open" if reported else "remote-scan-reports-nothing")
            if reported and not (owner and node_on()):
                res.violate(f"remote-scan-sees-port-of-non-running-software:{m_state if node_on() else 'node-not-on'}",
                            f"{when}: the peer's port scan lists {x.port}/{x.protocol} of {typ} as open, no RUNNING software uses it")
            if state() != m_state:
                res.violate(f"payload-changed-operating-state:{kind}:{m_state}->{state()}", when)
                m_state = state()

        elif k == "uninstall_other":
            name = op[1]
            o = sm.software.get(name)
            owner = sm.port_protocol_mapping.get((o.port, o.protocol)) if o is not None else None
            try:
                r = sim.apply_request(form("application", name, "uninstall"))
            except Exception as e:
                res.violate(f"raise:uninstall:{exc_sig(e)}", f"{when}: {exc_msg(e)}")
                return
            if o is not None and sm.software.get(name) is None:
                res.label("uninstalled-other")
                route_loss[(o.port, o.protocol)] = "after-uninstall-of-route-owner" if owner is o else "after-uninstall-of-non-owner"
            if state() != m_state:
                res.violate(f"uninstall-of-other-software-changed-operating-state:{kind}:{m_state}->{state()}", when)
                m_state = state()

        elif k in ("install", "uninstall"):
            if kind != "application":
                raise ValueError(op)
            pre = m_state
            on = node_on()
            before = norm_state(node.describe_state())
            o_pre = cur()
            owner_pre = sm.port_protocol_mapping.get((o_pre.port, o_pre.protocol)) if o_pre is not None else None
            try:
                r = sim.apply_request(form(kind, typ, k))
            except Exception as e:
                res.violate(f"raise:{k}:{exc_sig(e)}", f"{when}: {exc_msg(e)}")
                return
            obs = state()
            if k == "uninstall" and obs == "ABSENT":
                fixp = None
            if k == "uninstall" and o_pre is not None and obs == "ABSENT":
                route_loss[(o_pre.port, o_pre.protocol)] = ("after-uninstall-of-route-owner" if owner_pre is o_pre
                                                            else "after-uninstall-of-non-owner")
            where = pre if on else "node-not-on"
            if not on:
                n_refused += 1
                nontrivial = True
                if r.status == "success":
                    res.violate(f"accepted-in-undocumented-state:{kind}:{k}:{where}", f"{when}: {r.status}")
                elif norm_state(node.describe_state()) != before:
                    res.violate(f"refused-request-changed-state:{kind}:{k}:{where}", when)
            elif k == "install":
                if pre == "ABSENT":
                    if seen_uninstall:
                        nontrivial = True
                        res.label("re-install")
                    if r.status != "success":
                        res.violate(f"refused-in-documented-state:{kind}:install:ABSENT", f"{when}: {r.status} {r.data}")
                    elif obs not in ("INSTALLING", "RUNNING"):
                        res.violate(f"wrong-target-state:{kind}:install:ABSENT->{obs}", when)
                    if obs == "INSTALLING":
                        d = cur().install_duration
                        pending = {"what": "install", "state": "INSTALLING", "d": d, "ticks": 0, "clean": True,
                                   "base": base_i}
                    n_accepted += 1
                else:
                    if obs != pre or norm_state(node.describe_state()) != before:
                        res.violate(f"install-of-installed-changed-state:{kind}:{pre}", f"{when}: {r.status} -> {obs}")
            else:
                if pre != "ABSENT":
                    seen_uninstall = True
                    n_accepted += 1
                    if r.status != "success":
                        res.violate(f"refused-in-documented-state:{kind}:uninstall:{pre}", f"{when}: {r.status} {r.data}")
                    elif obs != "ABSENT":
                        res.violate(f"wrong-target-state:{kind}:uninstall:{pre}->{obs}", when)
                    pending = None
                else:
                    n_refused += 1
                    nontrivial = True
                    if obs != "ABSENT" or norm_state(node.describe_state()) != before:
                        res.violate(f"uninstall-of-absent-changed-state:{kind}", f"{when}: {r.status} -> {obs}")
            m_state = obs

        elif k == "req":
            verb = op[1]
            if verb == "fix" and typ == "database-service" and "C13-db-fix-restore-crash" in case.get("excl", ()):
                res.label("excluded:C13-db-fix-restore-crash")  # known crash two ticks later would end the case
                continue
            pre = m_state
            on = node_on()
            hp = health()
            before = norm_state(node.describe_state())
            try:
                r = sim.apply_request(form(kind, typ, verb))
            except Exception as e:
                res.violate(f"raise:{verb}:{exc_sig(e)}", f"{when}: {exc_msg(e)}")
                return
            if r.status not in ("success", "failure", "unreachable", "pending"):
                res.violate("bad-status", f"{when}: {r.status}")
            obs = state()
            after_same = norm_state(node.describe_state()) == before
            # what the reference machine says
            if not on:
                expect, where, dst = "refuse", "node-not-on", {pre}
            elif pre == "ABSENT":
                expect, where, dst = "refuse", "ABSENT", {pre}
            elif kind == "service":
                where = pre
                if verb == "disable":
                    expect, dst = ("either" if pre == "DISABLED" else "accept"), {"DISABLED"}
                elif SERVICE_SRC[verb] == pre:
                    expect, dst = "accept", {SERVICE_DST[verb]}
                    if verb == "fix" and hp not in ("GOOD", "COMPROMISED"):
                        expect = "either"
                else:
                    expect, dst = "refuse", {pre}
            else:
                where = pre
                if verb == "execute":
                    if pre == "INSTALLING":
                        expect, dst = "refuse-soft", {pre}
                    elif pre == "CLOSED":
                        expect, dst = "either", {"CLOSED", "RUNNING"}
                    else:
                        expect, dst = "either", {"RUNNING"}
                elif pre == "RUNNING":
                    expect, dst = "accept", {"CLOSED"} if verb == "close" else {"RUNNING"}
                    if verb == "fix" and hp not in ("GOOD", "COMPROMISED"):
                        expect = "either"
                else:
                    expect, dst = "refuse", {pre}
            sig_tail = f"{kind}:{verb}:{where}"
            if expect in ("refuse", "refuse-soft"):
                n_refused += 1
                nontrivial = True
                if r.status == "success":
                    res.violate(f"accepted-in-undocumented-state:{sig_tail}", f"{when}: status success, now {obs}")
                elif obs != pre:
                    res.violate(f"refused-request-changed-operating-state:{sig_tail}", f"{when}: {r.status}, {pre} -> {obs}")
                elif not after_same and expect == "refuse":
                    res.violate(f"refused-request-changed-state:{sig_tail}", f"{when}: {r.status} but describe_state() of the node differs")
                # (execute on an INSTALLING application reaches its handler and is answered 'failure' there; the property does
                # not say a failed execute leaves counters such as num_executions untouched, so only status and operating
                # state are asserted for it)
            elif expect == "accept":
                n_accepted += 1
                if r.status == "unreachable":
                    res.violate(f"lifecycle-request-unroutable:{typ}:{verb}", f"{when}: {r.status} {r.data}")
                elif r.status != "success":
                    res.violate(f"refused-in-documented-state:{sig_tail}", f"{when}: {r.status} {r.data}")
                elif obs not in dst:
                    res.violate(f"wrong-target-state:{sig_tail}->{obs}", f"{when}: expected {sorted(dst)}")
            else:
                if obs not in dst:
                    res.violate(f"wrong-target-state:{sig_tail}->{obs}", f"{when}: status {r.status}, expected {sorted(dst)}")
                if r.status != "success" and obs != pre and verb != "execute":  # execute = run, then act: the act may fail
                    res.violate(f"refused-request-changed-operating-state:{sig_tail}", f"{when}: {r.status}, {pre} -> {obs}")
            # bookkeeping of timed transitions
            if verb == "fix" and r.status == "success" and hp != "FIXING" and health() == "FIXING":
                fixp = {"d": cur().config.fixing_duration, "ticks": 0, "clean": True}
            if obs == "RESTARTING" and pre != "RESTARTING":
                d = cur().restart_duration
                pending = {"what": "restart", "state": "RESTARTING", "d": d, "ticks": 0, "clean": True,
                           "base": base_r if d == base_d else None}
            elif pending and obs != pending["state"]:
                pending = None
            m_state = obs
        else:
            raise ValueError(op)

        # consequences after every op
        running_now = running_names()
        if k == "direct":
            running_prev = running_prev | ({typ} & running_now)  # the target of a direct op is judged by the direct clause
        if node.operating_state != NS.ON and running_now - running_prev:
            res.violate(f"software-became-running-on-node-not-on:{node.operating_state.name}",
                        f"after {when}: {sorted(running_now - running_prev)} became RUNNING while the node is {node.operating_state.name}")
        running_prev = running_now
        check_registries(node, res, f"after {when}", dup_at_build)
        s = cur()
        if s is not None and s.operating_state.name != "RUNNING":
            # the target's own port must be closed unless other RUNNING software owns or listens on it
            others = set()
            for v in sm.software.values():
                if v is not s and v.operating_state.name == "RUNNING":
                    others.add(v.port)
                    others |= set(v.listen_on_ports or ())
            if s.port in sm.get_open_ports() and s.port not in others:
                res.violate(f"port-open-while-not-running:{kind}:{s.operating_state.name}",
                            f"after {when}: port {s.port} of {typ} is open")

    res.nontrivial = nontrivial
    res.label(f"kind:{kind}")
    res.label("declared-again" if (case.get("declare") and typ in REDECLARABLE) else "declared-once")
    if nontrivial:
        res.label("nontrivial")
    if n_refused:
        res.label("has-refused-request")
    if n_accepted:
        res.label("has-accepted-request")
    if n_deliv_running:
        res.label("payload-reached-running-target")
    if n_deliv_stopped:
        res.label("payload-reached-non-running-target")
    if any(o[0] in ("node_off", "node_on") for o in ops):
        res.label("has-power-op")
    if case.get("listener"):
        res.label("with-listener")
    if case.get("extra"):
        res.label("with-extra-software")
    res.label(f"len<{(len(ops) // 10 + 1) * 10}")


# ---------------------------------------------------------------------------------------------------------------------
# generators


def direct_ops(kind: str) -> List:
    if kind == "service":
        return [["direct", v, how] for v in SERVICE_VERBS for how in ("request", "method")]
    return [["direct", v, "request"] for v in ("execute", "close", "fix", "scan")] + \
           [["direct", v, "method"] for v in ("run", "close", "fix", "scan")]


def ops_strategy(kind: str, max_len: int, typ: Optional[str] = None):
    common = [st.just(["tick"])] * 3 + [st.just(["node_off"]), st.just(["node_on"]), st.just(["payload"]), st.just(["payload"])]
    common = common + [st.just(["scan_port"]), st.just(["shutdown"]), st.just(["startup"]), st.just(["reset"]),
                       st.sampled_from(direct_ops(kind)), st.sampled_from(direct_ops(kind))]
    others = [a for a in ("web-browser", "database-client", "dos-bot") if a != typ]
    if PARTNER.get(typ) in others:  # prefer the application that shares the target's port
        others = others + [PARTNER[typ]] * 3
    common = common + [st.sampled_from(others).map(lambda a: ["uninstall_other", a]),
                       st.sampled_from(others).map(lambda a: ["payload_other", a])]
    if kind == "service":
        verbs = st.sampled_from(SERVICE_VERBS).map(lambda v: ["req", v])
        return st.integers(3, max_len).flatmap(lambda n: st.lists(st.one_of(verbs, verbs, verbs, *common), min_size=n, max_size=n))
    verbs = st.sampled_from(APP_VERBS).map(lambda v: ["req", v])
    return st.integers(3, max_len).flatmap(
        lambda n: st.lists(st.one_of(verbs, verbs, st.just(["install"]), st.just(["uninstall"]), st.just(["direct_install"]),
                                     *common), min_size=n, max_size=n))


@st.composite
def case_strategy(draw, max_len: int = 30):
    kind = draw(st.sampled_from(["service", "application"]))
    typ = draw(st.sampled_from(SERVICES if kind == "service" else APPS))
    system = typ in SYSTEM_SERVICES or typ in SYSTEM_APPS
    if system:
        declare = draw(st.booleans()) if typ in REDECLARABLE else False
    elif kind == "service":
        declare = True
    else:
        declare = draw(st.booleans())  # False: the application is absent until an install request
    pool = [["service", t] for t in EXTRA_SERVICES + ["dns-client", "ftp-client", "ntp-client"]] + \
           [["application", t] for t in EXTRA_APPS + ["web-browser"]]
    pool = [p for p in pool if p[1] != typ]
    extra = draw(st.one_of(st.just([]), st.lists(st.sampled_from(pool), max_size=3, unique_by=lambda p: p[1])))
    return {
        "kind": kind,
        "type": typ,
        "declare": declare,
        "extra": extra,
        "listener": draw(st.sampled_from([False, False, "c2", "port"])),
        "rd": draw(st.sampled_from([None, 0, 1, 2, 3])) if kind == "service" else None,
        "pd": draw(st.sampled_from([0, 0, 1, 2, 3])),
        "idur": draw(st.sampled_from([None, 0, 1, 3, 4])) if kind == "application" else None,
        "fdur": draw(st.sampled_from([None, None, 0, 1, 3, 5])) if declare else None,
        "ops": draw(ops_strategy(kind, max_len, typ)),
    }


EXH_SERVICE_ALPHABET = [["req", v] for v in ("start", "stop", "pause", "resume", "restart", "disable", "enable")] + \
    [["tick"], ["payload"], ["node_off"], ["node_on"]]
EXH_APP_ALPHABET = [["req", "execute"], ["req", "close"], ["req", "scan"], ["install"], ["uninstall"], ["tick"],
                    ["payload"], ["node_off"], ["node_on"]]
# (kind, type, declare): a declared server-side service, a pre-installed client service, a declared service that shares its
# port with pre-installed software; a pre-installed application, a declared one, and one that is absent until installed
EXH_TARGETS = [
    ("service", "web-server", True), ("service", "dns-client", False), ("service", "database-service", True),
    ("application", "web-browser", False), ("application", "database-client", True), ("application", "dos-bot", False),
]


def exh_alphabet(kind: str, typ: str) -> List:
    alphabet = list(EXH_SERVICE_ALPHABET if kind == "service" else EXH_APP_ALPHABET)
    if typ in ("web-server", "dos-bot"):  # two programs on one (port, protocol): uninstall the other one, address the other one
        alphabet += [["uninstall_other", PARTNER[typ]], ["payload_other", PARTNER[typ]]]
    return alphabet


def exhaustive_cases(depth: int):
    for kind, typ, declare in EXH_TARGETS:
        for seq in itertools.product(exh_alphabet(kind, typ), repeat=depth):
            yield {"kind": kind, "type": typ, "declare": declare, "extra": [], "listener": False,
                   "rd": 1 if kind == "service" else None, "pd": 0, "ops": [list(o) for o in seq]}


def state_sweep_cases():
    """Every shipped type x every non-running state reachable by a canonical prefix x listener mode, then a payload."""
    for kind, types in (("service", SERVICES), ("application", APPS)):
        for typ in types:
            system = typ in SYSTEM_SERVICES or typ in SYSTEM_APPS
            if kind == "service":
                prefixes = [[["req", "stop"]], [["req", "pause"]], [["req", "disable"]], [["req", "restart"]], [["node_off"]],
                            [["req", "disable"], ["req", "enable"]], [["req", "pause"], ["req", "resume"]]]
            else:
                prefixes = [[["req", "close"]], [["uninstall"]], [["uninstall"], ["install"]], [["node_off"]],
                            [["uninstall"], ["install"], ["tick"], ["tick"], ["tick"]]]
            if kind == "application":  # an application that has been used before it leaves RUNNING (c2-beacon: connected)
                prefixes = prefixes + [[["req", "execute"]] + p for p in prefixes[:2]]
            for pre in prefixes:
                for lis in (False, "c2", "port"):
                    yield {"kind": kind, "type": typ, "declare": not system, "extra": [], "listener": lis, "rd": 2 if kind == "service" else None,
                           "pd": 0, "ops": [list(o) for o in pre] + [["payload"], ["scan_port"], ["tick"], ["payload"], ["scan_port"]]}
                if typ in REDECLARABLE:  # the same software declared again in the scenario file
                    yield {"kind": kind, "type": typ, "declare": True, "extra": [], "listener": False, "rd": 2 if kind == "service" else None,
                           "pd": 0, "ops": [list(o) for o in pre] + [["payload"], ["scan_port"], ["tick"], ["payload"], ["scan_port"]]}


# two programs on one (port, protocol): (target kind, target, declare, other application)
SHARED_PORT_PAIRS = [
    ("service", "web-server", True, "web-browser"),        # other pre-installed = installed first, target owns the route
    ("service", "database-service", True, "database-client"),  # other declared = installed after the target
    ("service", "dns-server", True, "web-browser"),        # control: the other does not share the port
    ("application", "database-client", True, "dos-bot"),
    ("application", "dos-bot", True, "database-client"),
    ("application", "dos-bot", False, "database-client"),   # target installed by request, i.e. after the other
]


def shared_port_cases():
    """Uninstall / stop one of two programs sharing a port, then address the survivor (and the other way round)."""
    for kind, typ, declare, other in SHARED_PORT_PAIRS:
        leave = ["req", "stop"] if kind == "service" else ["req", "close"]
        seqs = [
            [["payload"], ["payload_other", other]],
            [["uninstall_other", other], ["payload"], ["tick"], ["payload"]],
            [["uninstall_other", other], ["node_off"], ["node_on"], ["payload"]],
            [leave, ["payload_other", other], ["payload"]],
            [leave, ["uninstall_other", other], ["payload"]],
            [["payload_other", other], ["uninstall_other", other], ["payload_other", other], ["payload"]],
        ]
        if kind == "application":
            seqs += [
                [["uninstall"], ["payload_other", other], ["tick"], ["payload_other", other]],
                [["uninstall"], ["install"], ["tick"], ["tick"], ["tick"], ["payload"], ["payload_other", other]],
                [["uninstall"], ["install"], ["uninstall_other", other], ["tick"], ["tick"], ["tick"], ["payload"]],
                [["install"], ["tick"], ["tick"], ["tick"], ["uninstall_other", other], ["payload"]],
                [["install"], ["tick"], ["tick"], ["tick"], ["uninstall"], ["payload_other", other]],
            ]
        for ops in seqs:
            yield {"kind": kind, "type": typ, "declare": declare, "extra": [], "listener": False,
                   "rd": 1 if kind == "service" else None, "pd": 0, "ops": [list(o) for o in ops]}


def power_transition_cases():
    """Every type x power durations 1..3 x state the software is left in: all lifecycle verbs sent to the component itself
    while the node is SHUTTING_DOWN, while it is OFF and while it is BOOTING (also after a reset), then back to ON."""
    for kind, types in (("service", SERVICES), ("application", APPS)):
        for typ in types:
            system = typ in SYSTEM_SERVICES or typ in SYSTEM_APPS
            if kind == "service":
                preps = [[], [["req", "stop"]], [["req", "pause"]], [["req", "disable"]]]
            else:
                preps = [[], [["req", "close"]], [["uninstall"], ["install"]]]
            d_ops = direct_ops(kind)
            for pd in (1, 2, 3):
                for n, prep in enumerate(preps):
                    first = ["reset"] if (n + pd) % 3 == 0 else ["shutdown"]
                    ops = prep + [first] + d_ops + [["payload"]] + [["tick"]] * (pd + 1)  # d or d+1 ticks to OFF: both readings
                    if first == ["shutdown"]:
                        ops += d_ops[::2] + [["startup"]]       # node OFF, then BOOTING
                    ops += d_ops + [["payload"]] + [["tick"]] * (pd + 1) + [["payload"]]
                    yield {"kind": kind, "type": typ, "declare": not system, "extra": [], "listener": False,
                           "rd": 1 if kind == "service" else None, "pd": pd, "ops": [list(o) for o in ops]}


def plain_power_cases():
    """Every type x every prepared software state x {shutdown, reset, node_off} x durations 0, 1, 3, nothing else interfering:
    what the node's shut-down and start-up do to the software, inspected while OFF and after start-up."""
    for kind, types in (("service", SERVICES), ("application", APPS)):
        for typ in types:
            system = typ in SYSTEM_SERVICES or typ in SYSTEM_APPS
            if kind == "service":
                preps = [[], [["req", "stop"]], [["req", "pause"]], [["req", "disable"]], [["req", "restart"]], [["req", "fix"]],
                         [["req", "fix"], ["req", "pause"]], [["req", "pause"], ["req", "disable"]]]
            else:
                preps = [[], [["req", "close"]], [["uninstall"], ["install"]], [["req", "fix"]], [["uninstall"]],
                         [["req", "execute"]]]
            for pd in (0, 1, 3):
                for n, prep in enumerate(preps):
                    for first in (["shutdown"], ["reset"], ["node_off"]):
                        if first == ["node_off"] and pd == 1:
                            continue  # the macro is the same path as shutdown + ticks
                        ops = prep + [first] + [["tick"]] * (pd + 1) + [["payload"]]
                        if first != ["reset"]:
                            ops += [["startup"]]
                        ops += [["tick"]] * (pd + 1) + [["payload"], ["tick"], ["tick"], ["tick"], ["payload"]]
                        yield {"kind": kind, "type": typ, "declare": not system, "extra": [], "listener": False,
                               "rd": 2 if kind == "service" else None, "pd": pd, "ops": [list(o) for o in ops]}


def own_duration_cases():
    """install_duration, fixing_duration (and restart_duration) drawn independently, 0 included: every timed transition is
    measured against ITS OWN configured duration."""
    for typ in APPS:
        declarable = typ in EXTRA_APPS or typ in REDECLARABLE
        for idur in (0, 1, 3, 4):
            for fdur in ((0, 1, 3, 5) if declarable else (None,)):
                if fdur == idur:
                    continue
                ops = [["req", "close"], ["direct_install"]] + [["tick"]] * (idur + 2) + [["payload"], ["req", "fix"]] + \
                      [["tick"]] * ((fdur if fdur is not None else 2) + 2) + [["req", "close"], ["direct_install"], ["req", "fix"]] + \
                      [["tick"]] * (idur + 2) + [["payload"]]
                yield {"kind": "application", "type": typ, "declare": declarable, "extra": [], "listener": False, "rd": None, "pd": 0,
                       "idur": idur, "fdur": fdur, "ops": [list(o) for o in ops]}
    for typ in SERVICES:
        if not (typ in EXTRA_SERVICES or typ in REDECLARABLE):
            continue
        for rd, fdur in ((1, 3), (3, 1), (0, 4), (2, 0), (4, 2)):
            ops = [["req", "fix"]] + [["tick"]] * (fdur + 2) + [["req", "restart"]] + [["tick"]] * (rd + 2) + \
                  [["req", "fix"], ["req", "restart"]] + [["tick"]] * (max(rd, fdur) + 2) + [["payload"]]
            yield {"kind": "service", "type": typ, "declare": True, "extra": [], "listener": False, "rd": rd, "pd": 0,
                   "fdur": fdur, "ops": [list(o) for o in ops]}


def interleave_cases():
    """A timed transition with one unrelated op interleaved at each position (completion tick vs interference-free baseline)."""
    for typ in SERVICES:
        system = typ in SYSTEM_SERVICES
        for rd in (1, 2):
            for x in (["payload"], ["req", "scan"], ["req", "start"], ["req", "pause"], ["req", "resume"]):
                for pos in range(rd + 1):
                    ticks = [["tick"]] * (rd + 2)
                    ops = [["req", "restart"]] + ticks[:pos] + [x] + ticks[pos:]
                    yield {"kind": "service", "type": typ, "declare": not system, "extra": [], "listener": False, "rd": rd, "pd": 0,
                           "ops": [list(o) for o in ops]}
    for kind, types in (("service", SERVICES), ("application", APPS)):  # a fix runs to completion, then a second one
        for typ in types:
            system = typ in SYSTEM_SERVICES or typ in SYSTEM_APPS
            yield {"kind": kind, "type": typ, "declare": not system, "extra": [], "listener": False, "rd": None, "pd": 0,
                   "ops": [["req", "fix"], ["tick"], ["tick"], ["tick"], ["req", "fix"], ["payload"], ["tick"]]}
    for typ in APPS:
        for x in (["payload"], ["req", "execute"], ["req", "close"], ["install"], ["req", "scan"]):
            for pos in range(3):
                ticks = [["tick"]] * 4
                ops = [["uninstall"], ["install"]] + ticks[:pos] + [x] + ticks[pos:]
                yield {"kind": "application", "type": typ, "declare": typ in EXTRA_APPS, "extra": [], "listener": False, "rd": None,
                       "pd": 0, "ops": [list(o) for o in ops]}


def interrupt_cases():
    """A timed transition cut short by a request that IS accepted in that state, then ticked past the point where the abandoned
    timer would have fired: the state may only change through a request or the completion of its own pending transition."""
    for typ in SERVICES:
        system = typ in SYSTEM_SERVICES
        base = {"kind": "service", "type": typ, "declare": not system, "extra": [], "listener": False, "pd": 0}
        for rd in (1, 2, 3):
            for pos in range(rd + 1):  # disable (the only request accepted while RESTARTING) at each tick position of the window
                ops = [["req", "restart"]] + [["tick"]] * pos + [["req", "disable"]] + [["tick"]] * (rd + 3) + [["payload"]] + \
                      [["req", "enable"]] + [["tick"]] * (rd + 2) + [["req", "start"]] + [["tick"]] * (rd + 2) + [["payload"]]
                # ... and a SECOND restart, whose duration is measured like the first (band + interference-free baseline)
                ops += [["req", "restart"]] + [["tick"]] * (rd + 2) + [["payload"]]
                yield dict(base, rd=rd, ops=[list(o) for o in ops])
                ops = [["req", "restart"]] + [["tick"]] * pos + [["req", "disable"], ["req", "enable"], ["req", "start"],
                                                                  ["req", "restart"]] + [["tick"]] * (rd + 2) + [["payload"]]
                yield dict(base, rd=rd, ops=[list(o) for o in ops])
        # a fix with other accepted requests in its window, then a second fix whose duration is measured
        for mid in ([["req", "stop"], ["req", "start"]], [["req", "pause"], ["req", "resume"]], [["req", "restart"]],
                    [["node_off"], ["node_on"]]):
            ops = [["req", "fix"], ["tick"]] + mid + [["tick"]] * 4 + [["req", "fix"]] + [["tick"]] * 4 + [["payload"]]
            yield dict(base, rd=1, ops=[list(o) for o in ops])
        for verb in ("stop", "pause", "restart", "disable"):  # accepted while the service is RUNNING and its health FIXING
            for pos in (0, 1):
                back = {"stop": ["req", "start"], "pause": ["req", "resume"], "restart": ["tick"], "disable": ["req", "enable"]}[verb]
                ops = [["req", "fix"]] + [["tick"]] * pos + [["req", verb]] + [["tick"]] * 4 + [["payload"], back] + [["tick"]] * 3 + \
                      [["req", "start"], ["tick"], ["payload"]]
                yield dict(base, rd=1, ops=[list(o) for o in ops])
    for typ in APPS:
        base = {"kind": "application", "type": typ, "declare": typ in EXTRA_APPS, "extra": [], "listener": False, "rd": None, "pd": 0}
        for pos in (0, 1, 2):  # uninstall and re-install while INSTALLING: the second installation runs its own full course
            ops = [["uninstall"], ["install"]] + [["tick"]] * pos + [["uninstall"], ["install"]] + [["tick"]] * 5 + [["payload"]]
            yield dict(base, ops=[list(o) for o in ops])
            ops = [["uninstall"], ["install"]] + [["tick"]] * pos + [["uninstall"]] + [["tick"]] * 5 + [["req", "scan"], ["payload"]]
            yield dict(base, ops=[list(o) for o in ops])
        for pos in (0, 1):  # close / uninstall-then-reinstall while FIXING
            ops = [["req", "fix"]] + [["tick"]] * pos + [["req", "close"]] + [["tick"]] * 4 + [["payload"], ["req", "execute"], ["tick"]]
            yield dict(base, ops=[list(o) for o in ops])
            ops = [["req", "fix"]] + [["tick"]] * pos + [["uninstall"], ["install"]] + [["tick"]] * 5 + [["payload"]] + \
                  [["req", "fix"]] + [["tick"]] * 4  # second fix, on the re-installed instance, measured
            yield dict(base, ops=[list(o) for o in ops])


# open findings whose exclusion-by-construction the generators switch on (carried in case["excl"] so that replays of the
# findings themselves, which do not carry it, still reproduce)
EXCLUDABLE = {"C13-nmap-uninstalled-crash", "C13-db-fix-restore-crash"}


def timing_cases():
    for typ in SERVICES:
        yield {"kind": "timing", "type": typ, "declare": typ in EXTRA_SERVICES, "ds": [0, 1, 2, 3, 4], "ops": []}
    for typ in REDECLARABLE:
        if typ in SERVICES:
            yield {"kind": "timing", "type": typ, "declare": True, "ds": [0, 1, 2, 3, 4], "ops": []}


def worker(ctx: Ctx):
    depth = 3 if ctx.tier == "quick" else 4
    excl = sorted(set(ctx.excl) & EXCLUDABLE)

    def tag(cases):
        for c in cases:
            if excl:
                c["excl"] = excl
            yield c

    enum_run(ctx, timing_cases(), run_case)
    enum_run(ctx, tag(state_sweep_cases()), run_case)
    enum_run(ctx, tag(interleave_cases()), run_case)
    enum_run(ctx, tag(interrupt_cases()), run_case)
    enum_run(ctx, tag(own_duration_cases()), run_case)
    enum_run(ctx, tag(shared_port_cases()), run_case)
    enum_run(ctx, tag(power_transition_cases()), run_case)
    enum_run(ctx, tag(plain_power_cases()), run_case)
    enum_run(ctx, tag(exhaustive_cases(depth)), run_case)
    ctx.extra["exhaustive"] = True
    ctx.extra["exhaustive_domain"] = (
        "all sequences of that depth over " + ", ".join(f"{t[1]}:{len(exh_alphabet(t[0], t[1]))} symbols" for t in EXH_TARGETS)
        + " (service alphabet 11, application alphabet 9, plus uninstall/payload of the application sharing the target's port "
        "where there is one), restart duration 1, power durations 0; "
        f"restart-duration sweep d=0..4 for every service type"
    )
    n = 200 if ctx.tier == "quick" else 6000
    hyp_run(ctx, case_strategy(30).map(lambda c: dict(c, excl=excl) if excl else c), run_case, n)
