"""C14 — visible health changes only by scanning; fixes and scans take their set time (DESIGN §C14).

Shadow model
------------
After every op (one request, or one tick = ``game.step()``) the harness snapshots, for every software item, folder and
file of the target host ``h0``: (actual health, visible health, deleted flag).  A small model keeps the *pending timed
operations* (software fix, timed folder scan, timed whole-node OS scan, timed folder restore) with the tick at which
each was accepted, its configured duration ``d`` and whether it was interrupted.

Tick convention (what the docs and code comments support, all readings accepted):
  * ``common_configuration.rst``: ``fixing_duration`` = "number of timesteps the software will remain in a FIXING state
    before going into a GOOD state"; code comments: ``_fixing_countdown`` "ticks left to patch", ``Folder.scan_duration``
    "How many timesteps to complete a scan", ``scan_countdown`` "Time steps needed until scan completion",
    ``node_scan_duration`` "How many timesteps until the whole node is scanned".
  * Reading A ("d ticks to complete"): the operation completes in the d-th ``apply_timestep`` after the request
    (the step in which the agent's action is applied counts as the first): T = d.
  * Reading B ("remains in the transitional state for d observed steps", which is how the repo's own tests wait:
    ``for i in range(folder.scan_duration + 1): game.step()``): T = d + 1.
  * For d >= 1 the oracle accepts T in {d, d+1} and, independently of the reading, requires the offset T - d to be the
    same for every uninterrupted operation of one kind inside a case ("exactly": unit slope in d).
  * For d = 0 the oracle accepts T = 0 (effect visible right after the request) or T = 1 (next tick).  Not completing
    by then is a violation.
Timing assertions are suspended for an operation interrupted by a power event (node not ON at any time during its life),
by deletion of its folder, or by a second request of the same timed operation on
the same target while the first is pending (restart and ignore are both accepted: the two windows are merged).  The
visibility invariant is never suspended.  A compromise arriving during a fix takes the software out of FIXING: from then
on no fix is in progress ("...will remain in a FIXING state before going into a GOOD state" - software that has left FIXING
is not remaining in it), so it may become GOOD in a tick only if it was FIXING at the start of that tick.
A scan that is seen to complete must have brought EVERY covered item up to date (another pending scan on one of the
folders adds a second opportunity, it never removes this one).
"""
from __future__ import annotations

from typing import Any, Dict, List, Optional, Tuple

from hypothesis import strategies as st

from ..harness import CaseResult, Ctx, enum_run, hyp_run
from ..simutil import base_cfg, computer, exc_msg, exc_sig, link, new_game, switch

ID = "C14"
WORKERS = {"quick": 8, "thorough": 16}
RULE = (
    "case = (durations drawn from {0,1,2,3,5} for four software items' fixing_duration, the defaults-block "
    "folder_scan_duration / folder_restore_duration / optional service_fix_duration (alone, or together with the "
    "per-service option, which must then win), node_scan_duration given on the node "
    "or in the defaults block, start-up/shut-down durations 0-2) x op sequence to depth 30 on host h0 over "
    "{tick, software scan/fix/compromise, file scan/corrupt/repair/restore/delete, folder scan/repair/restore/corrupt/"
    "delete/fs-restore, node os-scan, node shutdown/startup/reset, red DELETE (data-manipulation-bot) / ENCRYPT "
    "(ransomware-script) executed from h1}; plus an enumerated family: every timed operation x every duration, straight "
    "line and with one interfering event at every position. Non-trivial = some item was damaged (compromise/corrupt/"
    "DELETE/ENCRYPT succeeded) and stayed actual != visible for >= 2 steps AND a timed operation had another successful "
    "non-tick event while it was pending; distinct by case hash."
)
ASSUMPTIONS = [
    "requests are formed by the action classes' form_request (or, for compromise / folder corrupt / folder delete / "
    "fs-level folder restore, as the request tree registers them); only names vary",
    "the health an agent can see is Software.health_state_visible / FileSystemItemABC.visible_health_status, the true "
    "health is health_state_actual / health_status (these are the values describe_state() publishes)",
    "a folder's true health is not constrained by the property (it is derived); only its visible health is",
    "T in {d, d+1} ticks for d >= 1 and T in {0, 1} for d = 0 are all accepted; the offset must be constant per kind",
    "a scan that completes in a tick may read the health before or after the same tick's other timed completions",
    "the durations the model uses for timing are those the built objects hold; disagreement between the scenario's "
    "configured value and the object's value is reported separately (config-duration-not-applied)",
]

H0, H1 = "h0", "h1"
N0 = ["network", "node", H0]
DUR = [0, 1, 2, 3, 5]
SERVICES = ["database-service", "dns-server", "ntp-server"]
APPS = ["web-browser"]
SW = SERVICES + APPS
FOLDERS = ["fa", "root", "database"]
FILES = [["fa", "x.txt"], ["fa", "y.txt"], ["root", "r.txt"], ["database", "database.db"]]

_AM = None


def _am():
    global _AM
    if _AM is None:
        from primaite.game.agent.actions import ActionManager

        _AM = ActionManager()
    return _AM


# ---------------------------------------------------------------------------------------------------------------------
# scenario


def build_cfg(c: Dict) -> Dict:
    fix = c["fix"]

    def sopt(name, **kw):
        # defaults-block key alone -> the default applies; per-service option given (alone or with the defaults key,
        # cfg["fix_both"]) -> the option applies: common_configuration.rst defines options.fixing_duration as *the* number
        # of timesteps the software stays FIXING, a "default" cannot override it
        if c.get("fix_default") is None or c.get("fix_both"):
            kw["fixing_duration"] = fix[name]
        return {"type": name, "options": kw}

    h0 = computer(
        H0, "192.168.1.10", kind="server", start_up_duration=c["up"], shut_down_duration=c["down"],
        services=[sopt("database-service", backup_server_ip="192.168.1.11"), sopt("dns-server"), sopt("ntp-server")],
        applications=[{"type": "web-browser", "options": {"fixing_duration": fix["web-browser"]}}],
    )
    tgt = c.get("target", "h0")
    if tgt == "h0-noapps":
        del h0["applications"]  # a server with services only (its pre-installed nmap is uninstalled during set-up)
    sw_kw = {"start_up_duration": 0, "shut_down_duration": 0}
    if tgt == "sw":
        sw_kw = {"start_up_duration": c["up"], "shut_down_duration": c["down"]}
    if c["nscan_via"] == "node":
        if tgt == "sw":
            sw_kw["node_scan_duration"] = c["nscan"]
        else:
            h0["node_scan_duration"] = c["nscan"]
    h1 = computer(
        H1, "192.168.1.11", kind="server", start_up_duration=0, shut_down_duration=0,
        services=[{"type": "ftp-server"}],
        applications=[
            {"type": "database-client", "options": {"db_server_ip": "192.168.1.10"}},
            {"type": "data-manipulation-bot", "options": {"server_ip": "192.168.1.10", "payload": "DELETE",
                                                           "port_scan_p_of_success": 1.0,
                                                           "data_manipulation_p_of_success": 1.0}},
            {"type": "ransomware-script", "options": {"server_ip": "192.168.1.10", "payload": "ENCRYPT"}},
        ],
    )
    nodes = [switch("sw", 8, **sw_kw), h0, h1]
    links = [link("sw", 1, H0, 1), link("sw", 2, H1, 1)]
    defaults = {"folder_scan_duration": c["fscan"], "folder_restore_duration": c["frestore"]}
    if c["nscan_via"] == "defaults":
        defaults["node_scan_duration"] = c["nscan"]
    if c.get("fix_default") is not None:
        defaults["service_fix_duration"] = c["fix_default"]
    return base_cfg(nodes, links, defaults=defaults, max_len=256)


def expected_durations(c: Dict) -> Dict[str, Any]:
    """What the scenario dict configures (documented keys), independent of the built objects."""
    fix = {}
    for s in SERVICES:
        fix[s] = c["fix_default"] if (c.get("fix_default") is not None and not c.get("fix_both")) else c["fix"][s]
    for a in APPS:
        fix[a] = c["fix"][a]
    return {"fix": fix, "fscan": c["fscan"], "frestore": c["frestore"], "nscan": c["nscan"]}


def form(op: List, tgt: str = H0) -> List:
    k = op[0]
    N0 = ["network", "node", tgt]
    am = _am()
    if k == "sw":
        _, name, verb = op
        typ = "application" if name in APPS else "service"
        if verb == "compromise":
            return N0 + [typ, name, "compromise"]
        return am.form_request(f"node-{typ}-{verb}", {"node_name": tgt, f"{typ}_name": name})
    if k == "file":
        _, fo, fi, verb = op
        return am.form_request(f"node-file-{verb}", {"node_name": tgt, "folder_name": fo, "file_name": fi})
    if k == "folder":
        _, fo, verb = op
        if verb in ("scan", "repair", "restore"):
            return am.form_request(f"node-folder-{verb}", {"node_name": tgt, "folder_name": fo})
        if verb == "corrupt":
            return N0 + ["file_system", "folder", fo, "corrupt"]
        if verb == "delete":
            return N0 + ["file_system", "delete", "folder", fo]
        if verb == "fsrestore":
            return N0 + ["file_system", "restore", "folder", fo]
    if k == "os_scan":
        return am.form_request("node-os-scan", {"node_name": tgt})
    if k == "power":
        return am.form_request(f"node-{op[1]}", {"node_name": tgt})
    if k == "db":
        app = "data-manipulation-bot" if op[1] == "DELETE" else "ransomware-script"
        return am.form_request("node-application-execute", {"node_name": H1, "application_name": app})
    raise ValueError(op)


def op_type(op: List) -> str:
    k = op[0]
    if k == "tick":
        return "tick"
    if k == "sw":
        return f"sw-{op[2]}"
    if k == "file":
        return f"file-{op[3]}"
    if k == "folder":
        return f"folder-{op[2]}"
    if k == "os_scan":
        return "os-scan"
    if k == "power":
        return f"power-{op[1]}"
    if k == "db":
        return f"db-{op[1]}"
    raise ValueError(op)


# ---------------------------------------------------------------------------------------------------------------------
# snapshots

Key = Tuple


def snapshot(node, prev: Optional[Dict[Key, Dict]] = None) -> Dict[Key, Dict]:
    """(actual, visible, deleted) per named item. Items are named (folder name, file name); when several objects carry a
    name (a database restore deletes the old file and copies a new one in; deleting a file twice leaves two deleted
    namesakes) the item is the live object, else the object the previous snapshot followed, else the last deleted."""
    from primaite.simulator.network.hardware.node_operating_state import NodeOperatingState

    prev = prev or {}
    out: Dict[Key, Dict] = {}
    for name, s in node.software_manager.software.items():
        out[("sw", name)] = {"a": s.health_state_actual.name, "v": s.health_state_visible.name, "del": False, "id": id(s)}
    fs = node.file_system
    fo_c: Dict[Key, List] = {}
    fi_c: Dict[Key, List] = {}
    for live, folders in ((True, fs.folders.values()), (False, fs.deleted_folders.values())):
        for fo in folders:
            fo_live = live and not fo.deleted
            fo_c.setdefault(("fo", fo.name), []).append((fo, fo_live))
            for flive, files in ((True, fo.files.values()), (False, fo.deleted_files.values())):
                for f in files:
                    fi_c.setdefault(("fi", fo.name, f.name), []).append((f, fo_live and flive and not f.deleted))

    def choose(key, cands):
        for o, is_live in cands:
            if is_live:
                return o, True
        want = prev.get(key, {}).get("id")
        for o, _ in cands:
            if id(o) == want:
                return o, False
        return cands[-1][0], False

    for key, cands in fo_c.items():
        o, is_live = choose(key, cands)
        out[key] = {"a": o.health_status.name, "v": o.visible_health_status.name, "del": not is_live, "id": id(o),
                    "nv": sorted({c.visible_health_status.name for c, _ in cands}),
                    "cv": {id(c): c.visible_health_status.name for c, _ in cands}}
    for key, cands in fi_c.items():
        o, is_live = choose(key, cands)
        out[key] = {"a": o.health_status.name, "v": o.visible_health_status.name, "del": not is_live, "id": id(o),
                    "nv": sorted({c.visible_health_status.name for c, _ in cands}),
                    "cv": {id(c): c.visible_health_status.name for c, _ in cands}}
    out[("node",)] = {"on": node.operating_state == NodeOperatingState.ON}
    return out


def recreated(was: Dict, now: Dict) -> bool:
    """The name was deleted (not visible to any agent) and a different, new object now carries it: a new item, not a
    change of the old one (e.g. the database restore re-creating a deleted database folder and file)."""
    return was["del"] and not now["del"] and was["id"] != now["id"]


def kind_of(key: Key) -> str:
    return {"sw": "software", "fo": "folder", "fi": "file"}[key[0]]


# ---------------------------------------------------------------------------------------------------------------------
# pending timed operations


class Pending:
    __slots__ = ("kind", "target", "d", "k0", "earliest", "latest", "interrupted", "merged", "completed", "open",
                 "values", "excluded", "event_overlap", "new", "flagged", "scan_overlap", "items0", "grace", "stuck_c", "stuck_d")

    def __init__(self, kind: str, target: Optional[str], d: int, k0: int):
        self.kind, self.target, self.d, self.k0 = kind, target, d, k0
        self.earliest = k0 + d  # absolute tick number of the earliest accepted completion (k0 itself = at the request)
        self.latest = k0 + d + 1 if d >= 1 else k0 + 1
        self.interrupted = False
        self.merged = False
        self.completed: Optional[int] = None
        self.open = False
        self.values: Dict[Key, set] = {}
        self.excluded: set = set()
        self.event_overlap = False
        self.new = True
        self.flagged = False
        self.scan_overlap = False
        self.items0: set = set()
        self.grace = 0
        self.stuck_c: set = set()  # restore: files of the folder CORRUPT at every snapshot since the request
        self.stuck_d: set = set()  # restore: files of the folder deleted at every snapshot since the request

    def covers(self, key: Key) -> bool:
        if key[0] == "node":
            return False
        if self.kind == "nscan":
            return True
        if self.kind == "fscan":
            return (key[0] == "fo" and key[1] == self.target) or (key[0] == "fi" and key[1] == self.target)
        if self.kind == "restore":
            return key[0] == "fi" and key[1] == self.target
        if self.kind == "fix":
            return key == ("sw", self.target)
        return False

    def completable(self, is_tick: bool, kt: int) -> bool:
        """May this operation complete in the current step? kt = number of ticks done including the current one."""
        if self.completed is not None and self.completed != kt:
            return False
        if not is_tick:
            return self.new and self.d == 0
        if self.interrupted or self.flagged:
            return True
        return self.earliest <= kt <= self.latest

    def dclass(self) -> str:
        return "d0" if self.d == 0 else "dpos"


SCAN_OPS = {"sw-scan", "file-scan", "folder-scan", "os-scan"}
DAMAGE_OPS = {"sw-compromise", "file-corrupt", "folder-corrupt", "db-DELETE", "db-ENCRYPT"}


def in_scope(op: List, key: Key) -> bool:
    """May a (non-scan) request legitimately change the true health of this software item / file?"""
    k = op[0]
    if k == "sw":
        if key == ("sw", op[1]):
            return True
        # a database fix ends with a restore of the database file from the backup
        return op[1] == "database-service" and op[2] == "fix" and key[0] == "fi" and key[1] in ("database", "downloads")
    if k == "file":
        return key == ("fi", op[1], op[2])
    if k == "folder":
        return key[0] == "fi" and key[1] == op[1]
    if k == "power":
        return key[0] == "sw"  # start-up / shut-down of the node starts and stops software
    if k == "db":
        return key == ("sw", "database-service") or (key[0] == "fi" and key[1] == "database")
    return False


# ---------------------------------------------------------------------------------------------------------------------


def run_case(case: Dict) -> CaseResult:
    res = CaseResult()
    ops = case["ops"]
    c = case["cfg"]
    game = new_game(build_cfg(c))
    sim = game.simulation
    target = c.get("target", "h0")
    tname = "sw" if target == "sw" else H0
    N0 = ["network", "node", tname]
    node = sim.network.get_node_by_hostname(tname)
    fs = node.file_system
    if target == "h0-noapps":
        # "host after uninstalling every application": the documented node-application-remove action
        for app in list(node.applications.values()):
            r = sim.apply_request(_am().form_request("node-application-remove",
                                                     {"node_name": tname, "application_name": app.name}))
            if r.status != "success":
                raise RuntimeError(f"set-up: uninstall {app.name} -> {r.status} {r.data}")
    if target != "h0" and node.applications:
        raise RuntimeError(f"set-up: {tname} still has applications {[a.name for a in node.applications.values()]}")

    # set-up (documented create requests for absent names); a failure here is a harness problem, not a violation
    for req in (
        N0 + ["file_system", "create", "folder", "fa"],
        N0 + ["file_system", "create", "file", "fa", "x.txt", False],
        N0 + ["file_system", "create", "file", "fa", "y.txt", False],
        N0 + ["file_system", "create", "file", "root", "r.txt", False],
    ):
        r = sim.apply_request(req)
        if r.status != "success":
            raise RuntimeError(f"set-up request {req} -> {r.status} {r.data}")

    # configured durations vs what the built objects hold
    exp = expected_durations(c)
    fixd: Dict[str, int] = {}
    for name, s in node.software_manager.software.items():
        fixd[name] = int(s.config.fixing_duration)
        if name in exp["fix"] and fixd[name] != exp["fix"][name]:
            cls = "application" if name in APPS else "service"
            res.violate(f"config-duration-not-applied:fixing_duration:{cls}",
                        f"{name}: scenario configures fixing_duration {exp['fix'][name]}, object holds {fixd[name]}")
    if int(node.config.node_scan_duration) != exp["nscan"]:
        res.violate(f"config-duration-not-applied:node_scan_duration:{c['nscan_via']}",
                    f"scenario configures node_scan_duration {exp['nscan']} via {c['nscan_via']}, "
                    f"object holds {node.config.node_scan_duration}")
    for fo in fs.folders.values():
        cls = fo.name if fo.name in ("root", "database") else "created"
        if int(fo.scan_duration) != exp["fscan"] or int(fo.restore_duration) != exp["frestore"]:
            res.violate(f"config-duration-not-applied:defaults-folder-durations:{cls}",
                        f"folder {fo.name}: defaults block configures folder_scan_duration {exp['fscan']} / "
                        f"folder_restore_duration {exp['frestore']}, the folder holds scan_duration {fo.scan_duration} / "
                        f"restore_duration {fo.restore_duration}")

    def folder_d(name: str, what: str) -> Optional[int]:
        fo = fs.get_folder(name, include_deleted=True)
        if fo is None:
            return None
        return int(fo.scan_duration if what == "scan" else fo.restore_duration)

    prev = snapshot(node)
    kt = 0  # ticks done
    pend: List[Pending] = []
    offsets: Dict[str, set] = {"fix": set(), "fscan": set(), "nscan": set(), "restore": set()}
    damaged_since: Dict[Key, int] = {}
    hidden_damage_2 = False
    timed_overlap = False
    stats = {"completed": 0, "interrupted": 0, "merged": 0, "comp_during_fix": 0, "damage_during_scan": 0,
             "power": 0, "d0_ops": 0, "timed": 0}
    stop = False
    done_kinds: set = set()
    dur_seen: set = set()

    for i, op in enumerate(ops):
        ot = op_type(op)
        when = f"op#{i} {op}"
        is_tick = ot == "tick"
        status = None
        if is_tick:
            try:
                game.step()
            except Exception as e:
                res.violate(f"raise:tick:{exc_sig(e)}", f"{when}: {exc_msg(e)}")
                break
            kt += 1
        else:
            req = form(op, tname)
            try:
                status = sim.apply_request(req).status
            except Exception as e:
                res.violate(f"raise:{ot}:{exc_sig(e)}", f"{when}: request {req} raised {exc_msg(e)}")
                break
        cur = snapshot(node, prev)
        ok = status == "success"
        node_on = prev[("node",)]["on"] and cur[("node",)]["on"]

        # ---- model update for the request ------------------------------------------------------------------------
        for p in pend:
            p.new = False
        created: Optional[Pending] = None
        if ok:
            if ot.startswith("sw-") and ("sw", op[1]) not in cur:
                raise RuntimeError(f"{when}: request succeeded for software that is not on {tname}")
            if ot == "sw-fix":
                pend = [p for p in pend if not (p.kind == "fix" and p.target == op[1])]
                created = Pending("fix", op[1], fixd[op[1]], kt)
            elif ot == "sw-compromise":
                for p in pend:
                    if p.kind == "fix" and p.target == op[1]:
                        p.interrupted = True
                        stats["comp_during_fix"] += 1
            elif ot == "folder-scan":
                created = Pending("fscan", op[1], folder_d(op[1], "scan"), kt)
            elif ot == "os-scan":
                created = Pending("nscan", None, int(node.config.node_scan_duration), kt)
            elif ot in ("folder-restore", "folder-fsrestore"):
                created = Pending("restore", op[1], folder_d(op[1], "restore"), kt)
            elif ot == "folder-delete":
                for p in pend:
                    if p.kind in ("fscan", "restore") and p.target == op[1]:
                        p.interrupted = True
            if ot.startswith("power-"):
                stats["power"] += 1
            if created is not None:
                stats["timed"] += 1
                dur_seen.add(f"{created.kind}:d={created.d}")
                if created.d == 0:
                    stats["d0_ops"] += 1
                created.items0 = {k for k, v in cur.items() if k[0] != "node" and not v["del"]}
                if created.kind == "restore":
                    for k, v in cur.items():
                        if k[0] == "fi" and k[1] == created.target:
                            if v["del"]:
                                created.stuck_d.add(k)
                            elif v["a"] == "CORRUPT":
                                created.stuck_c.add(k)
                for p in pend:
                    if p.kind == created.kind and p.target == created.target and p.kind != "fix":
                        # second request while the first is pending: restart and ignore are both accepted
                        created.earliest = min(created.earliest, p.earliest)
                        created.latest = max(created.latest, p.latest)
                        created.merged = True
                        created.open = created.open or p.open
                        created.interrupted = created.interrupted or p.interrupted
                        created.event_overlap = True
                        created.items0 = p.items0 & created.items0
                        for k, vs in p.values.items():
                            created.values.setdefault(k, set()).update(vs)
                        created.excluded |= p.excluded
                        created.stuck_c |= p.stuck_c
                        created.stuck_d |= p.stuck_d
                        stats["merged"] += 1
                pend = [p for p in pend if not (p.kind == created.kind and p.target == created.target)]
                pend.append(created)
            # bookkeeping for the non-trivial rule and the labels
            if ot != "tick":
                for p in pend:
                    if p is not created:
                        p.event_overlap = True
                        timed_overlap = True
                        if ot in DAMAGE_OPS and p.kind in ("fscan", "nscan"):
                            stats["damage_during_scan"] += 1
            if created is not None and created.kind == "fscan":
                for p in pend:
                    if p.kind == "restore" and p.target == created.target:
                        p.scan_overlap = True
            if created is not None and created.kind == "restore":
                for p in pend:
                    if p.kind == "fscan" and p.target == created.target:
                        created.scan_overlap = True
        if not node_on:
            for p in pend:
                if not p.interrupted:
                    p.interrupted = True
                    stats["interrupted"] += 1
        for p in pend:
            for k, v in cur.items():
                if k[0] != "node" and v["del"]:
                    p.excluded.add(k)

        comp = [p for p in pend if p.completable(is_tick, kt)]
        db_fix_done = (
            ("sw", "database-service") in prev
            and prev[("sw", "database-service")]["a"] == "FIXING"
            and cur[("sw", "database-service")]["a"] != "FIXING"
        )
        # Inside one tick the database fix (service timestep) can rewrite the database file and a folder restore (file
        # system timestep, after the folder's scan) can repair it again: a folder scan completing between the two reads
        # a true health that neither the snapshot before nor the one after the tick shows.
        db_volatile = (
            is_tick and db_fix_done and any(p.kind == "restore" and p.target == "database" for p in comp)
        )

        def volatile(key: Key) -> bool:
            return db_volatile and key[0] == "fi" and key[1] == "database"

        # ---- A. visible health -------------------------------------------------------------------------------------
        attributed: Dict[int, Pending] = {}
        for key, now in cur.items():
            if key[0] == "node" or key not in prev:
                continue
            was = prev[key]
            if recreated(was, now):
                # A deleted name carried by a new object (database restore after database.db / its folder was deleted).
                # Re-creating is not a scan: the new object may show the visible health the item had before it was
                # deleted, or NONE (never scanned) - never a value that no scan published. Skipped only when a scan of
                # that folder can complete in this very step (it would have read the new object).
                scanned_now = any(p.kind in ("fscan", "nscan") and p.covers(key) for p in comp)
                own = was.get("cv", {}).get(now["id"])
                if own is not None:
                    # not a new object: an older deleted namesake was un-deleted (folder restore); it keeps its own
                    # last published value
                    if now["v"] != own and not scanned_now:
                        res.violate(f"undeleted-item-visible-changed:{kind_of(key)}",
                                    f"{when}: the un-deleted older copy of {key} showed {own} when deleted and shows "
                                    f"{now['v']} now, no scan completed")
                elif now["v"] not in (was["v"], "NONE") and not scanned_now:
                    if now["v"] in was.get("nv", []):
                        how = ":folder-deleted" if key[0] == "fi" and prev.get(("fo", key[1]), {}).get("del") else ""
                        res.violate(f"recreated-item-visible-stale:{kind_of(key)}{how}",
                                    f"{when}: {key} was deleted showing {was['v']}, the re-created object shows "
                                    f"{now['v']} - the visible health of an older deleted namesake "
                                    f"({was.get('nv')}), no scan completed")
                    else:
                        res.violate(f"recreated-item-visible-without-scan:{kind_of(key)}",
                                    f"{when}: {key} was deleted showing {was['v']} (true health {was['a']}), the "
                                    f"re-created object shows {now['v']} (true health {now['a']}) and no scan covering "
                                    f"it completed in this step")
                continue
            if was["v"] == now["v"]:
                continue
            kd = kind_of(key)
            instant = ok and (
                (ot == "sw-scan" and key == ("sw", op[1])) or (ot == "file-scan" and key == ("fi", op[1], op[2]))
            )
            cands = [p for p in comp if p.kind in ("fscan", "nscan") and p.covers(key)]
            if not instant and not cands:
                early = [p for p in pend if p.kind in ("fscan", "nscan") and p.covers(key) and p.completed is None
                         and is_tick and kt < p.earliest]
                early.sort(key=lambda p: p.kind != "fscan")  # the more specific scan first
                if early:
                    p = early[0]
                    res.violate(f"scan-completes-early:{p.kind}",
                                f"{when}: visible health of {key} changed {was['v']}->{now['v']} {kt - p.k0} tick(s) "
                                f"after the {p.kind} request with duration {p.d}")
                    p.flagged = True
                else:
                    res.violate(f"visible-changed-without-scan:{kd}:{ot}",
                                f"{when}: visible health of {key} changed {was['v']}->{now['v']} (actual {was['a']}->"
                                f"{now['a']}) and no scan covering it completed in this step "
                                f"(pending: {[(p.kind, p.target, p.d, p.k0) for p in pend]}, tick {kt})")
                stop = True
                continue
            if kd != "folder" and now["v"] not in (was["a"], now["a"]) and not volatile(key):
                src = ot if instant else cands[0].kind
                res.violate(f"scan-value-mismatch:{kd}:{src}",
                            f"{when}: scan set visible health of {key} to {now['v']} but actual was {was['a']} before "
                            f"and {now['a']} after this step")
            if not instant:
                # only an unambiguous attribution marks a pending scan as completed; when two pending scans cover the
                # item both stay open until their own deadline
                if len(cands) == 1:
                    attributed[id(cands[0])] = cands[0]
                if len(cands) == 1:
                    p = cands[0]
                    if p.completed is None and not p.merged and not p.interrupted and not p.flagged and p.d >= 1:
                        offsets[p.kind].add(kt - p.k0 - p.d)
        for p in attributed.values():
            if p.completed is None:
                p.completed = kt
                stats["completed"] += 1
                done_kinds.add(p.kind)

        # ---- B. a successful instant scan publishes the true health -------------------------------------------------
        if ok and ot in ("sw-scan", "file-scan"):
            key = ("sw", op[1]) if ot == "sw-scan" else ("fi", op[1], op[2])
            if key in cur and key in prev and cur[key]["v"] not in (prev[key]["a"], cur[key]["a"]):
                res.violate(f"scan-no-effect:{kind_of(key)}",
                            f"{when}: scan succeeded but visible health of {key} is {cur[key]['v']}, actual "
                            f"{cur[key]['a']}")

        # ---- C. true health of software and files -------------------------------------------------------------------
        for key, now in cur.items():
            if key[0] in ("node", "fo") or key not in prev:
                continue
            was = prev[key]
            if (was["a"] == now["a"] and was["del"] == now["del"]) or recreated(was, now):
                continue
            kd = kind_of(key)
            health_changed = was["a"] != now["a"]
            if not is_tick:
                if ot in SCAN_OPS:
                    # a d=0 restore/fix accepted earlier cannot complete at a scan request; scans change nothing
                    res.violate(f"actual-changed-by-scan:{kd}:{ot}",
                                f"{when}: true health/deleted of {key} changed {was['a']}->{now['a']} at a scan request")
                    stop = True
                elif not in_scope(op, key):
                    res.violate(f"actual-changed-out-of-scope:{kd}:{ot}",
                                f"{when}: true health/deleted of {key} changed {was['a']}->{now['a']} by a request that "
                                f"does not address it")
                    stop = True
                continue
            # tick: only expected timed completions
            if key[0] == "sw":
                fx = [p for p in pend if p.kind == "fix" and p.target == key[1]]
                # only software that is FIXING at the start of the tick may become GOOD in it: fixing_duration is "the
                # number of timesteps the software will remain in a FIXING state before going into a GOOD state"; software
                # that a new compromise has taken out of FIXING is not remaining in it, so nothing is left to complete
                if fx and now["a"] == "GOOD" and was["a"] == "FIXING":
                    p = fx[0]
                    if p.completable(True, kt):
                        if not p.interrupted and not p.flagged and p.d >= 1:
                            offsets["fix"].add(kt - p.k0 - p.d)
                        p.completed = kt
                        stats["completed"] += 1
                        done_kinds.add(p.kind)
                    else:
                        res.violate("fix-completes-early",
                                    f"{when}: {key[1]} went FIXING->GOOD {kt - p.k0} tick(s) after the fix request, "
                                    f"fixing_duration {p.d}")
                        p.completed = kt
                    continue
                if not prev[("node",)]["on"] and cur[("node",)]["on"] and was["a"] == "UNUSED" and now["a"] == "GOOD":
                    continue  # software started by the node's start-up completing in this tick
                res.violate("actual-changed-on-tick:software",
                            f"{when}: true health of {key[1]} changed {was['a']}->{now['a']} in a tick with no fix "
                            f"completion due (pending: {[(p.kind, p.target, p.d, p.k0) for p in pend]}, tick {kt})")
                stop = True
                continue
            # file
            if db_fix_done and key[1] in ("database", "downloads"):
                continue  # the database fix completing restores the database file from the backup
            rs = [p for p in pend if p.kind == "restore" and p.target == key[1]]
            if rs and ((health_changed and now["a"] == "GOOD" and was["a"] == "CORRUPT") or (was["del"] and not now["del"])):
                p = rs[0]
                if p.completable(True, kt) or p.completed == kt:
                    if p.completed is None:
                        if not p.interrupted and not p.merged and not p.flagged and p.d >= 1:
                            offsets["restore"].add(kt - p.k0 - p.d)
                        p.completed = kt
                        stats["completed"] += 1
                        done_kinds.add(p.kind)
                else:
                    res.violate("restore-completes-early",
                                f"{when}: {key} restored {kt - p.k0} tick(s) after the folder restore request, "
                                f"restore duration {p.d}")
                    p.flagged = True
                continue
            res.violate("actual-changed-on-tick:file",
                        f"{when}: true health/deleted of {key} changed {was['a']}->{now['a']} (deleted {was['del']}->"
                        f"{now['del']}) in a tick with no restore/fix completion due "
                        f"(pending: {[(p.kind, p.target, p.d, p.k0) for p in pend]}, tick {kt})")
            stop = True

        # ---- fix request effect ---------------------------------------------------------------------------------------
        if ok and ot == "sw-fix":
            a = cur[("sw", op[1])]["a"]
            if a == "GOOD" and created is not None and created.d == 0:
                created.completed = kt
            elif a != "FIXING":
                res.violate("fix-request-no-effect", f"{when}: fix accepted but true health is {a}")

        # restore completion seen on the folder itself (RESTORING left in a tick) when nothing else writes folder health
        if is_tick:
            for p in pend:
                if p.kind == "restore" and p.completed is None and not p.scan_overlap:
                    fk = ("fo", p.target)
                    if fk in prev and fk in cur and prev[fk]["a"] == "RESTORING" and cur[fk]["a"] != "RESTORING":
                        if p.completable(True, kt):
                            if not p.interrupted and not p.merged and not p.flagged and p.d >= 1:
                                offsets["restore"].add(kt - p.k0 - p.d)
                            p.completed = kt
                            stats["completed"] += 1
                            done_kinds.add(p.kind)
                        elif kt < p.earliest:
                            res.violate("restore-completes-early",
                                        f"{when}: folder {p.target} left RESTORING {kt - p.k0} tick(s) after the "
                                        f"restore request, restore duration {p.d}")
                            p.flagged = True

        # ---- D. value sets and deadlines -----------------------------------------------------------------------------
        for p in pend:
            if p.completable(is_tick, kt):
                p.open = True
            if p.open and p.kind in ("fscan", "nscan"):
                for key, now in cur.items():
                    if key[0] in ("sw", "fi") and p.covers(key) and key in prev:
                        p.values.setdefault(key, set()).update((prev[key]["a"], now["a"]))
                        if volatile(key):
                            p.excluded.add(key)  # an intermediate value the snapshots cannot show
        for p in pend:
            if p.kind == "restore":
                p.stuck_c = {k for k in p.stuck_c if k in cur and cur[k]["a"] == "CORRUPT" and not cur[k]["del"]}
                p.stuck_d = {k for k in p.stuck_d if k in cur and cur[k]["del"]}
        if is_tick:
            for p in pend:
                if p.interrupted or p.flagged:
                    continue
                seen_now = p.kind == "restore" and p.completed == kt
                if kt != p.latest and not seen_now:
                    continue
                if p.completed is not None and not seen_now:
                    continue
                if p.kind == "restore" and (p.stuck_c or p.stuck_d):
                    # whatever else was requested on the folder meanwhile (scan, corrupt, repair, another restore): an
                    # accepted restore has repaired every corrupt file and brought back every deleted file by now
                    k = sorted(p.stuck_c | p.stuck_d)[0]
                    res.violate(f"restore-not-complete-by-deadline:{p.dclass()}",
                                f"{when}: {kt - p.k0} tick(s) after the restore request on folder {p.target} (restore "
                                f"duration {p.d}) {k} has been {'CORRUPT' if k in p.stuck_c else 'deleted'} at every "
                                f"step since the request ({len(p.stuck_c | p.stuck_d)} file(s) never restored; folder "
                                f"health {cur.get(('fo', p.target), {}).get('a')})")
                    p.flagged = True
                    continue
                if p.completed is not None:
                    continue
                if p.kind == "fix":
                    if cur[("sw", p.target)]["a"] == "FIXING":
                        res.violate(f"fix-not-complete-by-deadline:{p.dclass()}",
                                    f"{when}: {p.target} still FIXING {kt - p.k0} tick(s) after the fix request, "
                                    f"fixing_duration {p.d}")
                        p.flagged = True
                elif p.kind == "restore":
                    fk = ("fo", p.target)
                    if fk in cur and cur[fk]["a"] == "RESTORING" and not cur[fk]["del"]:
                        res.violate(f"restore-not-complete-by-deadline:{p.dclass()}",
                                    f"{when}: folder {p.target} still RESTORING {kt - p.k0} tick(s) after the restore "
                                    f"request, restore duration {p.d}")
                        p.flagged = True
                else:
                    bad = []
                    for key, vals in p.values.items():
                        if key in p.excluded or key not in p.items0 or key not in cur or cur[key]["del"]:
                            continue
                        if cur[key]["v"] not in vals:
                            bad.append((key, cur[key]["v"], sorted(vals)))
                    if bad:
                        key, v, vals = bad[0]
                        res.violate(f"scan-not-complete-by-deadline:{p.kind}:{p.dclass()}",
                                    f"{when}: {kt - p.k0} tick(s) after the {p.kind} request (duration {p.d}) visible "
                                    f"health of {key} is {v} although its true health was {vals} throughout the "
                                    f"accepted completion window ({len(bad)} item(s) contradict completion)")
                        p.flagged = True
        # A scan that was seen to complete in this step (some item's change can only be its work) must have covered
        # EVERY item it covers: another pending scan on a folder can add a second opportunity, never remove this one.
        for p in pend:
            if p.kind not in ("fscan", "nscan") or p.completed != kt or p.flagged:
                continue
            bad = []
            for key, vals in p.values.items():
                if key in p.excluded or key not in p.items0 or key not in cur or cur[key]["del"]:
                    continue
                if cur[key]["v"] not in vals:
                    bad.append((key, cur[key]["v"], sorted(vals)))
            if bad:
                key, v, vals = bad[0]
                res.violate(f"scan-skipped-item:{p.kind}:{kind_of(key)}",
                            f"{when}: the {p.kind} requested at tick {p.k0} (duration {p.d}) completed in this step but "
                            f"visible health of {key} is {v} although its true health was {vals} inside the completion "
                            f"window ({len(bad)} covered item(s) were not brought up to date; pending: "
                            f"{[(q.kind, q.target, q.d, q.k0) for q in pend]})")
        keep = []
        for p in pend:
            if p.completed is not None:
                continue
            if is_tick:
                if p.interrupted:
                    # timing is suspended, but not for ever: once the node is ON and the target folder is live the
                    # operation gets d+1 further ticks (covers both "countdown frozen" and "countdown restarted")
                    fk = ("fo", p.target)
                    live = p.kind in ("fix", "nscan") or (fk in cur and not cur[fk]["del"])
                    if node_on and live:
                        p.grace += 1
                    if p.grace > p.d + 1:
                        continue
                elif kt >= p.latest:
                    continue  # window over: completed unobservably, or reported above
            if p.kind == "fix" and not p.new and cur[("sw", p.target)]["a"] not in ("FIXING", "COMPROMISED"):
                continue
            keep.append(p)
        pend = keep

        # ---- non-trivial bookkeeping -----------------------------------------------------------------------------------
        if ok and ot in DAMAGE_OPS:
            for key, now in cur.items():
                if key[0] in ("sw", "fi") and key in prev and prev[key]["a"] != now["a"]:
                    damaged_since.setdefault(key, i)
        for key in list(damaged_since):
            if key not in cur or cur[key]["a"] == cur[key]["v"]:
                del damaged_since[key]
            elif i - damaged_since[key] >= 2:
                hidden_damage_2 = True

        prev = cur
        if stop:
            break

    for kind, offs in offsets.items():
        if len(offs) > 1:
            res.violate(f"timing-convention-inconsistent:{kind}",
                        f"uninterrupted {kind} operations completed at offsets {sorted(offs)} from their duration "
                        f"inside one case")

    res.nontrivial = bool(hidden_damage_2 and timed_overlap)
    if res.nontrivial:
        res.label("nontrivial")
    for k, v in stats.items():
        if v:
            res.label(f"has:{k}")
    for k in sorted(done_kinds):
        res.label(f"completed:{k}")
    for k in sorted(dur_seen):
        res.label(f"timed-op:{k}")
    res.label(f"target:{target}")
    res.label(f"len<{(len(ops) // 10 + 1) * 10}")
    return res


# ---------------------------------------------------------------------------------------------------------------------
# generators


def cfg_strategy():
    d = st.sampled_from(DUR)
    return st.fixed_dictionaries({
        "fix": st.fixed_dictionaries({n: d for n in SW}),
        "fix_default": st.one_of(st.none(), st.none(), d),
        "fix_both": st.booleans(),
        "fscan": d,
        "frestore": d,
        "nscan": d,
        "nscan_via": st.sampled_from(["node", "defaults"]),
        "target": st.sampled_from(["h0", "h0", "h0", "h0-noapps", "sw"]),
        "up": st.sampled_from([0, 1, 2]),
        "down": st.sampled_from([0, 1, 2]),
    })


def op_strategy():
    sw = st.sampled_from(SW)
    fo = st.sampled_from(FOLDERS)
    fi = st.sampled_from(FILES)
    tick = st.just(["tick"])
    return st.one_of(
        tick, tick, tick, tick, tick, tick,
        st.tuples(st.just("sw"), sw, st.sampled_from(["scan", "fix", "fix", "compromise", "compromise"])).map(list),
        st.tuples(st.just("sw"), sw, st.sampled_from(["scan", "fix", "fix", "compromise", "compromise"])).map(list),
        st.tuples(fi, st.sampled_from(["scan", "corrupt", "corrupt", "repair", "restore", "delete"])).map(
            lambda t: ["file", t[0][0], t[0][1], t[1]]),
        st.tuples(st.just("folder"), fo,
                  st.sampled_from(["scan", "scan", "scan", "restore", "restore", "repair", "corrupt", "delete",
                                   "fsrestore"])).map(list),
        st.tuples(st.just("folder"), fo, st.sampled_from(["scan", "scan", "restore", "fsrestore"])).map(list),
        st.just(["os_scan"]), st.just(["os_scan"]),
        st.sampled_from([["power", "shutdown"], ["power", "startup"], ["power", "reset"]]),
        st.sampled_from([["db", "DELETE"], ["db", "ENCRYPT"]]),
    )


def _mix(focus, lo=2, hi=8):
    """A run of ticks interleaved with events, most of them aimed at the item the phrase is about."""
    anyop = op_strategy()
    el = st.one_of(st.just(["tick"]), st.just(["tick"]), st.just(["tick"]), focus, focus, anyop)
    return st.lists(el, min_size=lo, max_size=hi)


def phrase_strategy():
    sw = st.sampled_from(SW)
    fo = st.sampled_from(FOLDERS)

    def fix_phrase(name):
        focus = st.sampled_from([["sw", name, "compromise"], ["sw", name, "scan"], ["sw", name, "fix"], ["os_scan"]])
        head = st.sampled_from([[["sw", name, "compromise"], ["sw", name, "fix"]], [["sw", name, "fix"]],
                                [["sw", name, "compromise"], ["tick"], ["sw", name, "fix"]]])
        return st.tuples(head, _mix(focus)).map(lambda t: t[0] + t[1])

    def files_of(f):
        return [x for x in FILES if x[0] == f]

    def fscan_phrase(f):
        fl = files_of(f)
        fop = st.tuples(st.sampled_from(fl), st.sampled_from(["corrupt", "repair", "scan", "delete", "restore"])).map(
            lambda t: ["file", t[0][0], t[0][1], t[1]])
        focus = st.one_of(fop, fop, st.just(["folder", f, "scan"]), st.just(["os_scan"]),
                          st.sampled_from([["db", "DELETE"], ["db", "ENCRYPT"]]) if f == "database" else fop)
        head = st.tuples(st.lists(fop, max_size=2), st.just([["folder", f, "scan"]])).map(lambda t: t[0] + t[1])
        return st.tuples(head, _mix(focus)).map(lambda t: t[0] + t[1])

    def nscan_phrase(_):
        dmg = st.one_of(
            st.tuples(st.just("sw"), sw, st.just("compromise")).map(list),
            st.sampled_from(FILES).map(lambda x: ["file", x[0], x[1], "corrupt"]),
            st.sampled_from([["db", "DELETE"], ["db", "ENCRYPT"]]),
        )
        head = st.tuples(st.lists(dmg, max_size=2), st.just([["os_scan"]])).map(lambda t: t[0] + t[1])
        return st.tuples(head, _mix(st.one_of(dmg, st.just(["os_scan"])), 2, 9)).map(lambda t: t[0] + t[1])

    def restore_phrase(f):
        fl = files_of(f)
        fop = st.tuples(st.sampled_from(fl), st.sampled_from(["corrupt", "delete", "scan"])).map(
            lambda t: ["file", t[0][0], t[0][1], t[1]])
        pre = st.one_of(st.just([["folder", f, "corrupt"]]), fop.map(lambda o: [o]),
                        st.just([["folder", f, "delete"]]), st.just([]))
        verb = st.sampled_from(["restore", "fsrestore"])
        head = st.tuples(pre, verb).map(lambda t: t[0] + [["folder", f, t[1]]])
        focus = st.one_of(fop, st.just(["folder", f, "restore"]), st.just(["folder", f, "scan"]),
                          st.just(["folder", f, "corrupt"]), st.just(["folder", f, "repair"]))
        return st.tuples(head, _mix(focus)).map(lambda t: t[0] + t[1])

    power = st.tuples(
        st.sampled_from([["power", "shutdown"], ["power", "reset"]]),
        st.integers(0, 3), st.booleans(), st.integers(0, 3),
    ).map(lambda t: [t[0]] + [["tick"]] * t[1] + ([["power", "startup"]] if t[2] else []) + [["tick"]] * t[3])

    dbf = ["file", "database", "database.db"]
    db_restore = st.tuples(
        st.sampled_from([[dbf + ["corrupt"]], [["db", "ENCRYPT"]], [["db", "DELETE"]], [dbf + ["corrupt"], dbf + ["scan"]],
                         [dbf + ["corrupt"], dbf + ["scan"], dbf + ["repair"]], [dbf + ["scan"], dbf + ["corrupt"]],
                         [["os_scan"]], []]),
        st.sampled_from([[dbf + ["delete"]], [["folder", "database", "delete"]], []]),
        _mix(st.sampled_from([dbf + ["scan"], ["folder", "database", "scan"], ["os_scan"], dbf + ["delete"]]), 1, 7),
    ).map(lambda t: [["tick"]] + t[0] + t[1] + [["sw", "database-service", "fix"]] + t[2])

    return st.one_of(
        op_strategy().map(lambda o: [o]),
        st.integers(1, 6).map(lambda k: [["tick"]] * k),
        db_restore,
        sw.flatmap(fix_phrase), sw.flatmap(fix_phrase),
        fo.flatmap(fscan_phrase), fo.flatmap(fscan_phrase),
        st.just(None).flatmap(nscan_phrase),
        fo.flatmap(restore_phrase),
        power,
    )


def case_strategy(max_len=30):
    ops = st.lists(phrase_strategy(), min_size=2, max_size=8).map(lambda ps: [o for p in ps for o in p][:max_len])
    return st.fixed_dictionaries({"cfg": cfg_strategy(), "ops": ops})


def base_cfg_case(**over) -> Dict:
    c = {"fix": {n: 2 for n in SW}, "fix_default": None, "fscan": 2, "frestore": 2, "nscan": 2, "nscan_via": "node",
         "up": 1, "down": 1}
    c.update(over)
    return c


def enumerated_cases():
    """Every timed operation x every duration: straight line, and with one interfering event at each position."""
    T = ["tick"]
    interf = [["sw", "dns-server", "compromise"], ["file", "fa", "x.txt", "corrupt"], ["file", "fa", "x.txt", "scan"],
              ["sw", "dns-server", "scan"], ["folder", "fa", "scan"], ["os_scan"], ["file", "fa", "x.txt", "repair"],
              ["sw", "dns-server", "fix"], ["folder", "fa", "restore"], ["power", "reset"], ["power", "shutdown"],
              ["sw", "web-browser", "compromise"], ["folder", "fa", "corrupt"], ["folder", "fa", "repair"]]
    for d in DUR:
        progs = {
            "fix": (base_cfg_case(fix={n: d for n in SW}),
                    [["sw", "dns-server", "compromise"], ["sw", "dns-server", "fix"]]),
            "fix-app": (base_cfg_case(fix={n: d for n in SW}),
                        [["sw", "web-browser", "compromise"], ["sw", "web-browser", "fix"]]),
            "fix-default": (base_cfg_case(fix_default=d),
                            [["sw", "ntp-server", "compromise"], ["sw", "ntp-server", "fix"]]),
            "fix-option-and-default": (base_cfg_case(fix={n: d for n in SW}, fix_default=4, fix_both=True),
                                       [["sw", "ntp-server", "compromise"], ["sw", "ntp-server", "fix"]]),
            "fscan": (base_cfg_case(fscan=d), [["file", "fa", "x.txt", "corrupt"], ["folder", "fa", "scan"]]),
            "fscan-root": (base_cfg_case(fscan=d), [["file", "root", "r.txt", "corrupt"], ["folder", "root", "scan"]]),
            "fscan-db": (base_cfg_case(fscan=d), [["db", "ENCRYPT"], ["folder", "database", "scan"]]),
            "nscan": (base_cfg_case(nscan=d), [["sw", "dns-server", "compromise"], ["file", "fa", "y.txt", "corrupt"],
                                               ["os_scan"]]),
            "nscan-defaults": (base_cfg_case(nscan=d, nscan_via="defaults"),
                               [["sw", "web-browser", "compromise"], ["os_scan"]]),
            # whole-node scan on nodes WITHOUT applications: a server with services only whose pre-installed
            # application is uninstalled, and a switch (ships with no software) holding files
            "nscan-noapps": (base_cfg_case(nscan=d, target="h0-noapps"),
                             [["sw", "dns-server", "compromise"], ["file", "fa", "y.txt", "corrupt"], ["os_scan"]]),
            "nscan-switch": (base_cfg_case(nscan=d, target="sw"),
                             [["file", "fa", "y.txt", "corrupt"], ["file", "root", "r.txt", "corrupt"], ["os_scan"]]),
            "nscan-switch-defaults": (base_cfg_case(nscan=d, nscan_via="defaults", target="sw"),
                                      [["folder", "fa", "corrupt"], ["os_scan"]]),
            # a node scan re-requested while the first is in flight, with health changes between the two due steps
            # (restart and ignore are both undocumented and both accepted: the windows are merged, the value and
            # coverage clauses still apply to whichever completion is seen)
            "nscan-rerequest": (base_cfg_case(nscan=d),
                                [["sw", "dns-server", "compromise"], ["os_scan"], ["tick"], ["os_scan"]]),
            "fscan-switch": (base_cfg_case(fscan=d, target="sw"),
                             [["file", "fa", "x.txt", "corrupt"], ["folder", "fa", "scan"]]),
            "restore": (base_cfg_case(frestore=d), [["folder", "fa", "corrupt"], ["folder", "fa", "restore"]]),
            "fsrestore": (base_cfg_case(frestore=d), [["file", "fa", "x.txt", "corrupt"], ["folder", "fa", "delete"],
                                                      ["folder", "fa", "fsrestore"]]),
        }
        # a folder scan that completes while a restore of the same folder is in flight (it rewrites the folder's health)
        progs["restore-with-scan"] = (base_cfg_case(frestore=d, fscan=1),
                                      [["folder", "fa", "corrupt"], ["folder", "fa", "restore"], ["folder", "fa", "scan"]])
        progs["restore-with-scan-db"] = (base_cfg_case(frestore=d, fscan=1),
                                         [["db", "ENCRYPT"], ["folder", "database", "restore"], ["db", "ENCRYPT"],
                                          ["folder", "database", "scan"]])
        dbfix = ["sw", "database-service", "fix"]
        dbf = ["file", "database", "database.db"]
        cfgd = base_cfg_case(fix={n: d for n in SW})
        # backup is taken in the first tick; damage without a scan (or scan + repair), delete database.db, restore by fix
        progs["dbrestore-corrupt-unscanned"] = (cfgd, [["tick"], dbf + ["corrupt"], dbf + ["delete"], dbfix])
        progs["dbrestore-encrypt-unscanned"] = (cfgd, [["tick"], ["db", "ENCRYPT"], dbf + ["delete"], dbfix])
        progs["dbrestore-seen-corrupt-repaired"] = (cfgd, [["tick"], dbf + ["corrupt"], dbf + ["scan"], dbf + ["repair"],
                                                          dbf + ["delete"], dbfix])
        progs["dbrestore-folder-deleted"] = (cfgd, [["tick"], dbf + ["corrupt"], dbf + ["scan"], dbf + ["repair"],
                                                    ["folder", "database", "delete"], dbfix])
        for name, (cfg, head) in progs.items():
            tail = [T] * (d + 3)
            yield {"cfg": cfg, "ops": head + tail, "tag": "straight"}
            for pos in range(0, d + 2):
                for ev in interf:
                    yield {"cfg": cfg, "ops": head + [T] * pos + [ev] + [T] * (d + 3 - pos)}


def worker(ctx: Ctx):
    cases = list(enumerated_cases())
    if ctx.tier == "quick":
        # every straight-line program plus every 2nd interference variant
        cases = [c for j, c in enumerate(cases) if c.get("tag") == "straight" or j % 2 == 0]
    enum_run(ctx, cases, run_case)
    if ctx.idx == 0:
        ctx.extra["enumerated_family_cases"] = len(cases)
        ctx.extra["enumerated_family"] = (
            "22 programs (re-requested node scan, node scan on a server without applications and on a switch, service/application/defaults/option+defaults fix, restore with a scan completing inside it, database restore after delete, folder scan on created/root/database folder, node scan "
            "via node key / defaults key, folder restore, fs-level restore of a deleted folder) x durations "
            "{0,1,2,3,5}: straight line, and with each of 14 interfering events at every tick position"
            + ("" if ctx.tier == "thorough" else " (quick: every straight-line case, every 2nd interference case)")
        )
    n = 200 if ctx.tier == "quick" else 6000
    hyp_run(ctx, case_strategy(30), run_case, n)
