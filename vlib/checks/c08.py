"""C08 — packets reach exactly their addressee via best routes, and forwarding ends (DESIGN §C08).

Four parts: (a) route selection against an independent LPM reference, bounded-exhaustive + random; (b) end-to-end
ping / DNS exchanges on generated topologies against a reference reachability walk over the scenario description;
(c) addressee monitor; (d) TTL / termination monitors (vlib/c08_mon.py).
"""
from __future__ import annotations

import itertools
import sys
from typing import Dict, List, Optional

from hypothesis import strategies as st

from .. import c08_gen as gen
from .. import c08_mon as mon
from ..c08_net import Ref, State, build_cfg, int2ip, ip2int, mask_str, ref_lpm
from ..harness import CaseResult, Ctx, hyp_run, jhash
from ..simutil import exc_msg, exc_sig, new_game

ID = "C08"
WORKERS = {"quick": 8, "thorough": 16}
RULE = (
    "two case kinds. kind=routes: a route table (ordered list of (address, prefix, metric, next hop) + optional default "
    "route) and a destination list; every RouteTable.find_best_route answer must be a member of the reference's valid set "
    "(longest prefix, then lowest metric, default only when nothing matches; remaining ties accept any tied entry). All "
    "ordered tables of <=3 (quick) / <=4 (thorough) routes over 2 bases x prefixes {8,16,24,28,32} x metrics {0,1,5}, with "
    "and without default, x 9 covering destinations are enumerated in blocks sharing their first two routes (one harness "
    "case per block; exact table / lookup counts in coverage.lpm_*); plus random tables through add_route. kind=topo: a "
    "generated topology spec (families lan/routed/shared/multihome/dmz/wifi/loop/ring) and an op list (ping / dns exchange for ordered host "
    "pairs cold and warm, pings of unowned addresses, ARP-cache flushes, interface and power toggles with ticks); "
    "each exchange is compared with the reference reachability walk, monitors run throughout. Non-trivial: a routes "
    "block in which some lookup had >=2 routes containing the destination; a topo case with >=1 executed exchange "
    "between hosts separated by >=1 routing device. Distinct by case hash."
)
ASSUMPTIONS = [
    "the reference takes topology, addresses, gateways and routes from the generated spec only; the two dynamic flags it "
    "needs (node is ON, interface enabled) are read from the simulator objects at the time of each operation, because the "
    "power / interface state machine itself is C12's subject (durations >= 1 are used so that C12's zero-duration defect "
    "does not leak in)",
    "all ACLs are permit-all (position 1) so that 'every device on the path permits' reduces to routing and up-ness",
    "a DNS server and the pre-installed DNS client cannot share a host (both bind port 53 and replies go to the server), "
    "so hosts are either DNS servers or DNS clients and the service exchange runs for client->server pairs",
    "flush_arp calls the public ARP.clear() on every node (the state routers are in after an episode reset)",
    "exhaustive route tables are assembled from RouteEntry objects assigned to RouteTable.routes (public field) for speed; "
    "the random part goes through add_route / set_default_route_next_hop_ip_address, or through Router / Firewall / "
    "WirelessRouter.from_config with `routes:` / `default_route:` entries (two thirds of the random tables)",
    "delivery is not asserted on the switch ring (a layer-2 loop without spanning tree); only the monitors apply there",
    "sys.setrecursionlimit is raised inside the check because the observe-only wrappers add three Python frames per hop",
]
SHRINK_KEY = "ops"
STORM_FINDING = "C08-arp-request-loop"
FOREIGN_IP_FINDING = "C08-host-accepts-foreign-ip"

# ---------------------------------------------------------------------------------------------------------------------
# (a) route selection

BASES = ["10.1.1.17", "10.1.2.33"]
PREFIXES = [8, 16, 24, 28, 32]
METRICS = [0, 1, 5]
NEXT_HOPS = ["192.168.0.1", "192.168.0.2", "192.168.0.3"]
CANDS = [(b, p, m) for b in BASES for p in PREFIXES for m in METRICS]  # 30 candidate routes
DSTS = ["10.1.1.17", "10.1.1.18", "10.1.1.40", "10.1.2.33", "10.1.2.34", "10.1.2.99", "10.1.9.9", "10.9.9.9", "11.0.0.1"]
DEFAULT_NH = "192.168.0.9"

_RT_CACHE: Dict = {}


def _rt_tools():
    if not _RT_CACHE:
        from ipaddress import IPv4Address

        from primaite.simulator.network.hardware.nodes.network.router import RouteEntry, RouteTable
        from primaite.simulator.system.core.sys_log import SysLog

        _RT_CACHE.update(IPv4Address=IPv4Address, RouteEntry=RouteEntry, RouteTable=RouteTable, SysLog=SysLog)
    return _RT_CACHE


def _check_lookup(rt, entries, ref_routes, default_on: bool, dst: str, res: CaseResult, how: str) -> int:
    """One find_best_route call against the reference. Returns the number of routes containing dst."""
    T = _rt_tools()
    d = ip2int(dst)
    valid = ref_lpm(ref_routes, d)
    n_match = sum(1 for a, p, _m in ref_routes if (d & _mask(p)) == (a & _mask(p)))
    try:
        got = rt.find_best_route(T["IPv4Address"](dst))
    except Exception as e:  # the lookup is total on well-formed tables
        res.violate(f"raise:find_best_route:{exc_sig(e)}", f"{how}: dst {dst}: {exc_msg(e)}")
        return n_match
    if valid:
        if not any(got is entries[i] for i in valid):
            which = "default" if (got is not None and got is rt.default_route) else (
                "none" if got is None else "other")
            exp_len = ref_routes[valid[0]][1]
            got_i = next((i for i, e in enumerate(entries) if e is got), None)
            if got_i is None:
                clause = f"lpm-returned-{which}"
            elif ref_routes[got_i][1] != exp_len or not _contains(ref_routes[got_i], d):
                clause = "lpm-not-longest-prefix"
            else:
                clause = "lpm-not-lowest-metric"
            res.violate(clause, f"{how}: dst {dst}: got {_fmt(got)}"
                                + (f" (route #{got_i}, configured metric {ref_routes[got_i][2]})" if got_i is not None else "")
                                + f"; valid answers {[_fmt(entries[i]) + f' (route #{i}, configured metric {ref_routes[i][2]})' for i in valid]}")
    else:
        if default_on:
            if got is not rt.default_route or got is None:
                res.violate("lpm-default-not-last-resort", f"{how}: dst {dst}: no route contains it, got {_fmt(got)}")
        elif got is not None:
            res.violate("lpm-route-for-unmatched", f"{how}: dst {dst}: nothing contains it, got {_fmt(got)}")
    return n_match


def _mask(p):
    return 0 if p == 0 else (0xFFFFFFFF << (32 - p)) & 0xFFFFFFFF


def _contains(r, d):
    return (d & _mask(r[1])) == (r[0] & _mask(r[1]))


def _fmt(e):
    if e is None:
        return "None"
    return f"{e.address}/{e.subnet_mask} via {e.next_hop_ip_address} metric {e.metric}"


def _table_from_config(via: str, routes, default):
    from primaite.simulator.network.airspace import AirSpace
    from primaite.simulator.network.hardware.nodes.network.firewall import Firewall
    from primaite.simulator.network.hardware.nodes.network.router import Router
    from primaite.simulator.network.hardware.nodes.network.wireless_router import WirelessRouter

    cfg = {"hostname": "t", "start_up_duration": 0, "shut_down_duration": 0,
           "routes": [{"address": a, "subnet_mask": mask_str(p), "next_hop_ip_address": nh, "metric": m}
                      for a, p, m, nh in routes]}
    if default:
        cfg["default_route"] = {"next_hop_ip_address": default}
    if via == "router":
        node = Router.from_config({"type": "router", "num_ports": 2, **cfg})
    elif via == "firewall":
        node = Firewall.from_config({"type": "firewall", **cfg})
    elif via == "wireless-router":
        node = WirelessRouter.from_config({"type": "wireless-router", **cfg}, airspace=AirSpace())
    else:
        raise ValueError(via)
    return node.route_table


def run_routes(case: Dict) -> CaseResult:
    """One explicit table, built through the public add_route API."""
    res = CaseResult()
    T = _rt_tools()
    via = case.get("via", "api")
    ref_routes = [(ip2int(a), p, float(m)) for a, p, m, _nh in case["routes"]]
    try:
        if via == "api":
            rt = T["RouteTable"](sys_log=T["SysLog"]("c08"))
            for a, p, m, nh in case["routes"]:
                rt.add_route(address=a, subnet_mask=mask_str(p), next_hop_ip_address=nh, metric=float(m))
            if case.get("default"):
                rt.set_default_route_next_hop_ip_address(case["default"])
        else:
            # the table of a routing device built from its scenario entry (`routes:` / `default_route:` keys)
            rt = _table_from_config(via, case["routes"], case.get("default"))
    except Exception as e:
        res.violate(f"raise:add_route:{via}:{exc_sig(e)}", exc_msg(e))
        return res
    entries = list(rt.routes)
    if len(entries) != len(ref_routes):
        res.violate("route-table-size", f"{len(ref_routes)} routes added, table holds {len(entries)}")
        return res
    multi = False
    for dst in case["dsts"]:
        if _check_lookup(rt, entries, ref_routes, bool(case.get("default")), dst, res, f"table built via {via}") >= 2:
            multi = True
    res.nontrivial = multi
    res.label("routes:random", f"routes:len{len(ref_routes)}", f"routes:via:{via}")
    if multi:
        res.label("routes:multi-match")
    return res


_ENTRY_POOL: Dict = {}


def _pool():
    if not _ENTRY_POOL:
        T = _rt_tools()
        for i, (b, p, m) in enumerate(CANDS):
            for k, nh in enumerate(NEXT_HOPS):
                _ENTRY_POOL[(i, k)] = T["RouteEntry"](address=b, subnet_mask=mask_str(p), next_hop_ip_address=nh,
                                                      metric=float(m))
        _ENTRY_POOL["default"] = T["RouteEntry"](address="0.0.0.0", subnet_mask="0.0.0.0",
                                                 next_hop_ip_address=DEFAULT_NH)
    return _ENTRY_POOL


def run_routes_block(case: Dict) -> CaseResult:
    """All ordered tables that start with case['first'] (0-2 candidate indices) and continue with every completion up to
    case['maxlen'] routes, each with and without default route, against every destination in DSTS."""
    res = CaseResult()
    T = _rt_tools()
    pool = _pool()
    first: List[int] = list(case["first"])
    maxlen = int(case["maxlen"])
    rt = T["RouteTable"](sys_log=T["SysLog"]("c08"))
    tables = lookups = multi = 0
    if len(first) < 2:
        completions = [()]
    else:
        completions = [()]
        for extra in range(1, maxlen - 2 + 1):
            completions += list(itertools.product(range(len(CANDS)), repeat=extra))
    only = case.get("only")  # replay of one table inside the block
    if only is not None:
        completions = [tuple(only)]
    for comp in completions:
        idx = first + list(comp)
        # the k-th route of a table uses the k-th next hop so that equal (address, prefix, metric) stay distinguishable
        entries = [pool[(ci, k % len(NEXT_HOPS))] for k, ci in enumerate(idx)]
        if len({id(e) for e in entries}) != len(entries):
            entries = [e.model_copy() for e in entries]
        ref_routes = [(ip2int(CANDS[ci][0]), CANDS[ci][1], float(CANDS[ci][2])) for ci in idx]
        rt.routes = entries
        for default_on in (False, True):
            rt.default_route = pool["default"] if default_on else None
            tables += 1
            before = len(res.violations)
            for dst in DSTS:
                lookups += 1
                if _check_lookup(rt, entries, ref_routes, default_on, dst, res,
                                 f"table {[list(CANDS[c]) for c in idx]} default={default_on}") >= 2:
                    multi += 1
            if len(res.violations) > before and "witness" not in res.extra:
                res.extra["witness"] = {"kind": "routes_block", "first": first, "maxlen": maxlen, "only": list(comp),
                                        "ops": []}
        if "witness" in res.extra:
            break  # the recorded case is this one table; later tables of the block are left to the next run
    res.extra.update(tables=tables, lookups=lookups, multi=multi)
    res.nontrivial = multi > 0
    res.label("routes:block")
    return res


# ---------------------------------------------------------------------------------------------------------------------
# (b)-(d) topologies


def _esig(e: BaseException) -> str:
    """exc_sig, except that a stack overflow is bucketed by the kind of cycle (the innermost frame is arbitrary there)."""
    if isinstance(e, RecursionError) or "RecursionError" in str(e):
        import traceback

        names = [fr.name for fr in traceback.extract_tb(e.__traceback__)]
        if names.count("process_frame") + names.count("route_frame") < 10 and \
                names.count("_get_arp_cache_mac_address") + names.count("_get_arp_cache_network_interface") >= 10:
            return "RecursionError:arp-resolution-loop"  # the resolver calls itself; no frame is forwarded in the cycle
        if names.count("send_arp_request") >= 10:
            return "RecursionError:arp-request-loop"
        if names.count("receive_payload_from_session_manager") >= 10:
            return "RecursionError:application-reply-loop"
        if names.count("route_frame") + names.count("process_frame") >= 10:
            return "RecursionError:forwarding-loop"
        return "RecursionError:other"
    return exc_sig(e)


def _sim_state(net) -> State:
    from primaite.simulator.network.hardware.node_operating_state import NodeOperatingState

    def up(n):
        return net.get_node_by_hostname(n).operating_state == NodeOperatingState.ON

    def en(n, p):
        return bool(net.get_node_by_hostname(n).network_interface[int(p)].enabled)

    return State(up, en)


def _stable(net) -> bool:
    from primaite.simulator.network.hardware.node_operating_state import NodeOperatingState

    return all(n.operating_state in (NodeOperatingState.ON, NodeOperatingState.OFF) for n in net.nodes.values())


def _wrong_mac(net, a: str, b: str) -> bool:
    """a's ARP cache maps on-link b's address to a MAC address that is not b's (diagnostic used in a signature only)."""
    na, nb = net.get_node_by_hostname(a), net.get_node_by_hostname(b)
    arp = na.software_manager.software.get("arp")
    nic_b = nb.network_interface[1]
    if arp is None or nic_b.ip_address not in na.network_interface[1].ip_network:
        return False
    e = arp.arp.get(nic_b.ip_address)
    return e is not None and str(e.mac_address).lower() != str(nic_b.mac_address).lower()


def _foreign_nic_entry(net, a: str, dst_ip: str) -> bool:
    """a has an enabled interface on dst's subnet, but its ARP entry for dst is bound to another interface, whose subnet
    does not contain dst (learned from a routed packet). Diagnostic used in a signature only."""
    from ipaddress import IPv4Address

    na = net.get_node_by_hostname(a)
    arp = na.software_manager.software.get("arp")
    dst = IPv4Address(dst_ip)
    if arp is None or not any(ni.enabled and dst in ni.ip_network for ni in na.network_interfaces.values()):
        return False
    e = arp.arp.get(dst)
    if e is None:
        return False
    ni = na.network_interfaces.get(e.network_interface_uuid)
    return ni is not None and dst not in ni.ip_network


def _router_wrong_mac(net, ref, ips) -> bool:
    """some routing device maps one of the addresses, which lies on a network attached to it, to a MAC address that is not
    its owner's (diagnostic used in a signature only)"""
    from ipaddress import IPv4Address

    owner_mac = {}
    for (n, p_), (ip, _pl) in ref.ifs.items():
        owner_mac[int2ip(ip)] = str(net.get_node_by_hostname(n).network_interface[p_].mac_address).lower()
    for r in ref.l3:
        arp = net.get_node_by_hostname(r).software_manager.software.get("arp")
        if arp is None:
            continue
        for x in ips:
            if x in owner_mac and ref.connected_port(r, ip2int(x)) is not None:
                e = arp.arp.get(IPv4Address(x))
                if e is not None and str(e.mac_address).lower() != owner_mac[x]:
                    return True
    return False


def _running(sw) -> bool:
    return sw is not None and sw.operating_state.name == "RUNNING"


def run_topo(case: Dict) -> CaseResult:
    res = CaseResult()
    spec, ops = case["spec"], case["ops"]
    family = spec["family"]
    ref = Ref(spec)
    mon.install()
    if sys.getrecursionlimit() < 3000:
        sys.setrecursionlimit(3000)
    n_ops = len(ops)
    try:
        game = new_game(build_cfg(spec, n_domains=n_ops))
    except Exception as e:  # every generated scenario uses documented keys only
        res.violate(f"raise:build:{exc_sig(e)}", exc_msg(e))
        return res
    net = game.simulation.network
    from ipaddress import IPv4Address

    rec = mon.Recorder()
    # a ping is 4 echo requests + 4 replies; each of these frames is processed by at most 64 nodes (TTL), and every
    # processing may trigger ARP resolution for at most 3 addresses (destination, route next hop, default next hop), a
    # request and a reply each.  (A tighter bound proportional to the path length was wrong: in a routing loop whose
    # next hop does not answer ARP every one of the ~32 iterations sends a fresh ARP request — 196 frames, all bounded.)
    frame_bound = 8 * (1 + 64 * 6)
    seen_pairs = set()
    toggled = False
    routed_exchanges = 0
    labels = set()
    hop_cache: Dict = {}

    def hops(a, b):
        if (a, b) not in hop_cache:
            hop_cache[(a, b)] = ref.hops(a, b)
        return hop_cache[(a, b)]

    mon.Recorder.current = rec
    try:
        for i, op in enumerate(ops):
            k = op[0]
            when = f"op#{i} {op}"
            nviol = len(rec.viol)
            rec.begin_op()
            if k == "tick":
                try:
                    game.step()
                except Exception as e:
                    res.violate(f"raise:tick:{exc_sig(e)}", f"{when}: {exc_msg(e)}")
                    break
            elif k == "flush_arp":
                for n in net.nodes.values():
                    arp = n.software_manager.software.get("arp") if hasattr(n, "software_manager") else None
                    if arp is not None:
                        arp.clear()
                seen_pairs.clear()
            elif k in ("power", "nic"):
                toggled = True
                req = ["network", "node", op[1], op[2]] if k == "power" else \
                    ["network", "node", op[1], "network_interface", int(op[2]), op[3]]
                try:
                    game.simulation.apply_request(req)
                except Exception as e:
                    res.violate(f"raise:{k}:{exc_sig(e)}", f"{when}: {exc_msg(e)}")
                    break
                labels.add(f"toggle:{k}:{ref.kind[op[1]]}")
            elif k in ("ping", "dns", "ping_ip"):
                a = op[1]
                st_ = _sim_state(net)
                stable = _stable(net)
                if k == "ping_ip":
                    b = None
                    dst_ip = op[2]
                    fates = ref.walk(a, ip2int(dst_ip), st_)
                    owners = ref.owner_of_ip.get(ip2int(dst_ip), [])
                    expected: Optional[bool] = False if (not owners and all(o != "unknown" for o, _ in fates)) else None
                    phase = "unowned"
                else:
                    b = op[2]
                    b_port = int(op[3]) if len(op) > 3 else 1  # which of b's interfaces is addressed
                    dst_ip = int2ip(ref.ifs[(b, b_port)][0])
                    ref.saw_hairpin = False
                    expected = ref.exchange(a, b, st_, b_port)
                    if len(ref.ports[a]) > 1 or len(ref.ports[b]) > 1:
                        labels.add(f"multihomed:{'nic-down' if not all(st_.en(x, q) for x in (a, b) for q in ref.ports[x]) else 'all-up'}:{expected}")
                    if ref.saw_hairpin and expected is not None:
                        labels.add(f"hairpin:{'ok' if expected else 'fail'}")
                    pair = frozenset((a, b, b_port))
                    phase = "warm" if pair in seen_pairs else "cold"
                    seen_pairs.add(pair)
                if family == "ring" or not stable:
                    expected = None
                node_a = net.get_node_by_hostname(a)
                h = hops(a, b) if b is not None else -1
                try:
                    if k == "dns":
                        cli = node_a.software_manager.software.get("dns-client")
                        srv = net.get_node_by_hostname(b).software_manager.software.get("dns-server")
                        if st_.up(a) and not _running(cli):
                            expected = None
                        if st_.up(b) and not _running(srv):
                            expected = None
                        cli.dns_server = IPv4Address(dst_ip)
                        got = bool(cli.check_domain_exists(f"q{i}.test"))
                    else:
                        got = bool(node_a.ping(dst_ip))
                except Exception as e:  # "handling any packet always terminates" — no exception, no runaway recursion
                    res.violate(f"raise:{k}:{_esig(e)}", f"{when}: {a} -> {dst_ip}: {exc_msg(e)}")
                    break
                where = "lan" if h == 0 else ("routed" if h > 0 else "nopath")
                tg = "toggled" if toggled else "pristine"
                if expected is True and not got:
                    a_ips = [int2ip(ref.ifs[(a, q)][0]) for q in ref.ports[a]]
                    diag = "arp-entry-on-foreign-nic" if _foreign_nic_entry(net, a, dst_ip) or any(
                        _foreign_nic_entry(net, b, x) for x in a_ips) else (
                        "router-arp-entry-wrong-mac" if _router_wrong_mac(net, ref, [dst_ip] + a_ips) else
                        "arp-entry-wrong-mac" if _wrong_mac(net, a, b) or _wrong_mac(net, b, a) else "plain")
                    res.violate(f"{k}-fails-though-reachable:{where}:{phase}:{tg}:{diag}",
                                f"{when}: {a} -> {dst_ip}: reference says request and reply are deliverable "
                                f"(fwd {sorted(ref.walk(a, ip2int(dst_ip), st_))}), simulator returned False")
                elif expected is False and got:
                    fwd = ref.walk(a, ip2int(dst_ip), st_)
                    clause = f"{k}-answered-by-non-addressee" if any(o == "misdelivered" for o, _ in fwd) else \
                        f"{k}-succeeds-though-unreachable:{where}:{phase}:{tg}"
                    res.violate(clause,
                                f"{when}: {a} -> {dst_ip}: reference fates fwd {sorted(ref.walk(a, ip2int(dst_ip), st_))}"
                                + (f" rev {sorted(ref.walk(b, ip2int(ref.node[a]['ip']), st_))}" if b else "")
                                + ", simulator returned True")
                if expected is True and got and b is not None and family != "ring":
                    # "via best routes": the routing devices that forwarded the request / the reply are the ones on the
                    # reference's path (compared only where the reference has a single way and no tied routes)
                    exp_fwd = ref.path(a, ip2int(dst_ip), st_)
                    exp_rev = None
                    a_ip = None
                    if exp_fwd is not None:
                        sp = ref.walk_alts(a, ip2int(dst_ip), st_)[0][0]
                        a_ip = int2ip(ref.ifs[(a, sp)][0])
                        exp_rev = ref.path(b, ip2int(a_ip), st_)
                    for _fid, (fdst, routers) in rec.fwd_path.items():
                        exp = exp_fwd if fdst == dst_ip else (exp_rev if fdst == a_ip else None)
                        if exp is None or routers == exp:
                            continue
                        i = 0
                        while i < len(exp) and i < len(routers) and exp[i] == routers[i]:
                            i += 1
                        at = ref.kind[exp[i - 1]] if i > 0 else "host"
                        # structural key: did the device that left the path have the destination on an attached network
                        # (it should have delivered it itself) or did it pick another route than the best one
                        how = "connected" if i > 0 and ref.connected_port(exp[i - 1], ip2int(fdst)) is not None \
                            else "routed"
                        res.violate(f"not-via-best-route:{at}:{how}",
                                    f"{when}: packet to {fdst} was forwarded by {routers}, best routes lead through {exp}")
                        break
                    labels.add("path-compared" if exp_fwd is not None else "path-undecided")
                if h > 0:
                    routed_exchanges += 1
                labels.add(f"op:{k}:{phase}")
                labels.add(f"expect:{expected}")
                if expected is not None:
                    labels.add(f"agree:{k}:{where}:{'ok' if got else 'fail'}")
                if rec.frames > frame_bound:
                    res.violate("too-many-frames-per-operation",
                                f"{when}: {rec.frames} distinct frames (bound {frame_bound})")
                if rec.max_node_rx_per_frame > 64:
                    res.violate("too-many-receive-events",
                                f"{when}: one frame object was processed by nodes {rec.max_node_rx_per_frame} times (TTL "
                                f"starts at 64 and every processed reception must lower it)")
            else:
                raise ValueError(op)
            for sig, msg in rec.viol[nviol:]:
                res.violate(sig, f"{when}: {msg}")
            if rec.misdelivered:
                # cause: the scenario's own routes name this host as a next hop (the reference walk predicts the hand-over),
                # or the frame merely carried / did not carry the node's MAC
                predicted = set()
                if k in ("ping", "dns", "ping_ip"):
                    st2 = _sim_state(net)
                    fates = set(ref.walk(op[1], ip2int(dst_ip), st2))
                    if k != "ping_ip":
                        fates |= set(ref.walk(op[2], ip2int(ref.node[op[1]]["ip"]), st2))
                    predicted = {n for o, n in fates if o == "misdelivered"}
                for node_name, how, kind_, proto, msg in rec.misdelivered[:8]:
                    cause = "route-via-host" if node_name in predicted else how
                    res.violate(f"misdelivered:{cause}:{kind_}:{proto}", f"{when}: {msg}")
            if len(res.violations) > 30:
                break
    finally:
        mon.Recorder.current = None
    res.nontrivial = routed_exchanges > 0
    res.label(f"family:{family}", f"hosts:{len(ref.hosts)}", f"l3:{len(ref.l3)}", *sorted(labels))
    if case.get("avoid_storm"):
        res.label(f"excluded:{STORM_FINDING}")
    if case.get("avoid_nh_host"):
        res.label(f"excluded:{FOREIGN_IP_FINDING}")
    for m in spec.get("muts", []):
        res.label(f"mut:{m}")
    if any(n.get("off") for n in spec["nodes"]):
        res.label("declared-off", *sorted({f"declared-off:{n['k']}" for n in spec["nodes"] if n.get("off")}))
    if rec.ttl_drops:
        res.label("ttl-exhausted")
    res.label(f"ops<{(len(ops) // 25 + 1) * 25}")
    res.extra.update(max_rx_per_frame=rec.max_rx_per_frame, min_ttl=rec.min_ttl_seen, ttl_drops=rec.ttl_drops)
    return res


def run_case(case: Dict) -> CaseResult:
    kind = case.get("kind")
    if kind == "routes":
        return run_routes(case)
    if kind == "routes_block":
        return run_routes_block(case)
    if kind == "topo":
        return run_topo(case)
    raise ValueError(f"unknown case kind {kind!r}")


# ---------------------------------------------------------------------------------------------------------------------
# generators / worker


def _ip_strategy():
    near = st.sampled_from(DSTS + BASES + ["10.1.1.16", "10.1.1.31", "10.1.1.32", "10.1.1.255", "10.1.2.0", "0.0.0.1",
                                           "255.255.255.254", "10.255.255.255", "10.2.0.0"])
    return st.one_of(near, st.integers(1, 0xFFFFFFFE).map(int2ip))


@st.composite
def routes_case(draw):
    n = draw(st.integers(0, 7))
    routes = []
    for _ in range(n):
        a = draw(_ip_strategy())
        p = draw(st.sampled_from([0, 1, 7, 8, 9, 15, 16, 17, 23, 24, 25, 27, 28, 29, 30, 31, 32]))
        m = draw(st.one_of(st.sampled_from([0, 1, 5]), st.floats(0, 100, allow_nan=False).map(lambda x: round(x, 3))))
        routes.append([a, p, m, draw(st.sampled_from(NEXT_HOPS))])
    dsts = draw(st.lists(_ip_strategy(), min_size=1, max_size=8))
    dsts += [r[0] for r in routes[:3]]
    via = draw(st.sampled_from(["api", "api", "router", "firewall", "firewall", "wireless-router"]))
    default = draw(st.sampled_from([None, DEFAULT_NH]))
    if via == "wireless-router":
        default = None  # the wireless-router scenario entry has no default_route key (its from_config does not read one)
    return {"kind": "routes", "routes": routes, "default": default, "dsts": dsts, "via": via, "ops": []}


def _blocks(maxlen: int):
    yield {"kind": "routes_block", "first": [], "maxlen": maxlen, "ops": []}
    for i in range(len(CANDS)):
        yield {"kind": "routes_block", "first": [i], "maxlen": maxlen, "ops": []}
    for i in range(len(CANDS)):
        for j in range(len(CANDS)):
            yield {"kind": "routes_block", "first": [i, j], "maxlen": maxlen, "ops": []}


FAMILY_PLAN = {
    # family -> (quick examples per worker, thorough examples per worker)
    "routed": (12, 280),
    "shared": (5, 80),
    "multihome": (4, 60),
    "dmz": (4, 80),
    "lan": (5, 60),
    "wifi": (3, 60),
    "loop": (3, 40),
    "ring": (2, 24),
}


def worker(ctx: Ctx):
    quick = ctx.tier == "quick"
    # (a) exhaustive blocks, sharded round-robin
    maxlen = 3 if quick else 4
    tables = lookups = multi = 0
    for i, case in enumerate(_blocks(maxlen)):
        if i % ctx.n != ctx.idx:
            continue
        res = run_routes_block(case)
        tables += res.extra["tables"]
        lookups += res.extra["lookups"]
        multi += res.extra["multi"]
        ctx.record(res.extra.get("witness", case), res)
    ctx.extra["exhaustive"] = True
    ctx.extra["exhaustive_domain"] = (
        f"all ordered route tables of <= {maxlen} routes over {len(CANDS)} candidates (2 bases x 5 prefixes x 3 metrics), "
        f"with and without default route, x {len(DSTS)} destinations")
    ctx.extra["lpm_tables"] = tables
    ctx.extra["lpm_lookups"] = lookups
    ctx.extra["lpm_nontrivial_lookups"] = multi
    # (a) random tables through the public API
    hyp_run(ctx, routes_case(), run_case, 250 if quick else 4000, sub=1)
    # (b)-(d) topologies
    # exclusion by construction: while "routers route link-layer broadcasts" (C08-arp-request-loop) is open, the generator
    # stays away from its other symptoms: the exception ends every case that makes a router ARP for an unowned address on a
    # segment shared with another router, and with >2 hosts on a routed LAN the rewritten flood copies corrupt switch tables
    # and duplicate replies under signatures too generic to list (see c08_gen.py and findings/C08-NOTES.md)
    avoid = bool(ctx.excl.get(STORM_FINDING))
    # likewise for "hosts accept frames for foreign IP addresses": no routes whose next hop is a host while it is open
    avoid_nh = bool(ctx.excl.get(FOREIGN_IP_FINDING))
    for sub, (family, (nq, nt)) in enumerate(FAMILY_PLAN.items(), start=2):
        if family == "shared" and avoid:
            ctx.extra["excluded_family_shared"] = 1  # hosts on a segment with two routing devices: see STORM_FINDING
            continue
        hyp_run(ctx, gen.topo_case(family, avoid_storm=avoid, avoid_nh_host=avoid_nh), run_case, nq if quick else nt,
                sub=sub)
