"""C17 — database: password-gated connections, connection-gated queries, restorable data (DESIGN §C17).

A case is a small scenario (client hosts with a database-client, a database server, a backup host with an ftp-server,
either on one switch or in three subnets behind a router with an ACL) plus an operation sequence.  A reference model
holds what the property talks about: the server password, the set of connection ids the service issued and has not
closed, the health of database.db, the health the data had when the stored backup was taken, which ACL blocks are in
place, and whether the service was ever driven to capacity.  Lifecycle facts (node power state, service operating
state, FIXING / OVERWHELMED health) are *read* from the simulation: their state machines belong to C12/C13/C14, this
check asserts what the database does *given* them.
"""
from __future__ import annotations

import itertools
import json
from ipaddress import IPv4Address
from typing import Any, Dict, List, Optional

from hypothesis import strategies as st

from ..harness import CaseResult, Ctx, enum_run, hyp_run
from ..simutil import base_cfg, computer, exc_msg, exc_sig, link, new_game, norm_state, switch

ID = "C17"
WORKERS = {"quick": 8, "thorough": 16}
RULE = (
    "case = scenario (routed with ACL | one LAN; 1-3 client hosts; max_sessions 1/2/3/100; server password set or "
    "None; power durations 1-2) + op sequence over {connect right/wrong/no password, execute request, a red application "
    "(data-manipulation-bot | ransomware-script, own password right/wrong/none, stage probabilities 1) attacking through "
    "the host's database-client, query "
    "SELECT/INSERT/DELETE/ENCRYPT/unknown on a live | re-made (clone of an issued id) | never-issued handle, "
    "disconnect, server-led close, client uninstall/install, client application close/run, client NIC off/on, service "
    "stop/start/pause/resume/restart/fix, backup, restore, file repair, node power off/on (db, backup host, client "
    "hosts), ACL block/unblock (postgres, ftp), ticks}; all sequences of a fixed depth "
    "over a reduced alphabet after two preludes, plus Hypothesis sequences to depth 30. Non-trivial = the sequence "
    "has a query on a closed or never-issued handle, or a wrong-password connect followed by a service/node restart "
    "and an accepted right-password connect, or a restore (explicit or at fix completion) attempted while the data "
    "was damaged and a backup existed; distinct by hash of the case."
)
ASSUMPTIONS = [
    "node power state, service operating state and the FIXING/OVERWHELMED health flags are read from the simulation "
    "(their state machines are C12/C13/C14); the check asserts the database behaviour given those facts",
    "links have bandwidth 100000 Mbit so that the 5 MB database file never hits link capacity (C18's concern)",
    "client host power state, client NIC state and client application state are read from the simulation; an op on a "
    "client that cannot act (host off, application closed/installing) is skipped, because such a client can send but "
    "not hear the answer",
    "a server-led close (IOSoftware.terminate_connection, public, used by the repo's tests; no request exposes it) "
    "closes the connection in the model whatever the client heard; whether the client's handle object turns inactive "
    "is taken from the simulation (client side, not the service's behaviour)",
    "SELECT on CORRUPT data and the return value of an unknown query are not asserted (the property and docs leave "
    "them open); a query while the service is OVERWHELMED after genuinely reaching capacity is not asserted either way",
    "a backup that returns False is 'no backup taken'; the property does not say when a backup must succeed",
    "max_sessions is set by assigning the public attribute after construction (no scenario key exists for it)",
]

FINDING_STICKY = "C17-overwhelmed-sticky"
DB, BK, RT = "db", "bk", "r"
WRONG_PW = "bad"
SQL = {"SELECT": "SELECT", "INSERT": "INSERT", "DELETE": "DELETE", "ENCRYPT": "ENCRYPT", "UNKNOWN": "DROP TABLE"}
BOT_APP = {"dm": "data-manipulation-bot", "rw": "ransomware-script"}
BOT_SQL = {"dm": "DELETE", "rw": "ENCRYPT"}
ACL_POS = {"pg": 1, "ftp": 2}
ACL_PORT = {"pg": "POSTGRES_SERVER", "ftp": "FTP"}
BW = 100000

_AM = None


def _am():
    global _AM
    if _AM is None:
        from primaite.game.agent.actions import ActionManager

        _AM = ActionManager()
    return _AM


def addresses(topo: str) -> Dict[str, str]:
    if topo == "routed":
        return {"db": "192.168.2.10", "bk": "192.168.3.10", "c": "192.168.1."}
    return {"db": "192.168.1.20", "bk": "192.168.1.30", "c": "192.168.1."}


def scenario(case: Dict) -> Dict:
    topo, n, dur = case["topo"], case["n_clients"], case["dur"]
    ip = addresses(topo)
    pw = "pw" if case["has_pw"] else None
    db_opts: Dict[str, Any] = {"backup_server_ip": ip["bk"]}
    if pw is not None:
        db_opts["db_password"] = pw
    nodes: List[Dict] = []
    links: List[Dict] = []
    gw = {"c": None, "db": None, "bk": None}
    if topo == "routed":
        gw = {"c": "192.168.1.1", "db": "192.168.2.1", "bk": "192.168.3.1"}
        nodes.append(
            {
                "type": "router",
                "hostname": RT,
                "num_ports": 3,
                "start_up_duration": 0,
                "shut_down_duration": 0,
                "ports": {
                    1: {"ip_address": "192.168.1.1", "subnet_mask": "255.255.255.0"},
                    2: {"ip_address": "192.168.2.1", "subnet_mask": "255.255.255.0"},
                    3: {"ip_address": "192.168.3.1", "subnet_mask": "255.255.255.0"},
                },
                "acl": {
                    18: {"action": "PERMIT", "src_port": "POSTGRES_SERVER", "dst_port": "POSTGRES_SERVER"},
                    20: {"action": "PERMIT", "src_port": "FTP", "dst_port": "FTP"},
                    22: {"action": "PERMIT", "src_port": "ARP", "dst_port": "ARP"},
                    23: {"action": "PERMIT", "protocol": "ICMP"},
                },
            }
        )
    nodes.append(switch("sw", 8, start_up_duration=0, shut_down_duration=0))
    # red applications (anchored in the property) are installed on the client hosts whose ops use them
    red = {op[1] % n for op in case["ops"] if op and op[0] == "bot"}
    red_apps = [
        {"type": "data-manipulation-bot", "options": {"server_ip": ip["db"], "payload": "DELETE", "repeat": True,
                                                      "port_scan_p_of_success": 1.0, "data_manipulation_p_of_success": 1.0}},
        {"type": "ransomware-script", "options": {"server_ip": ip["db"], "payload": "ENCRYPT"}},
    ]
    for i in range(n):
        nodes.append(
            computer(
                f"c{i}",
                f"{ip['c']}{10 + i}",
                gw=gw["c"],
                start_up_duration=dur,
                shut_down_duration=dur,
                applications=[{"type": "database-client", "options": {"db_server_ip": ip["db"]}}] + (red_apps if i in red else []),
            )
        )
        links.append(link("sw", i + 1, f"c{i}", 1, bandwidth=BW))
    dbn = computer(
        DB, ip["db"], gw=gw["db"], kind="server", start_up_duration=dur, shut_down_duration=dur,
        services=[{"type": "database-service", "options": db_opts}],
    )
    bkn = computer(
        BK, ip["bk"], gw=gw["bk"], kind="server", start_up_duration=dur, shut_down_duration=dur,
        services=[{"type": "ftp-server"}],
    )
    nodes += [dbn, bkn]
    if topo == "routed":
        links += [link("sw", 8, RT, 1, bandwidth=BW), link(RT, 2, DB, 1, bandwidth=BW), link(RT, 3, BK, 1, bandwidth=BW)]
    else:
        links += [link("sw", 6, DB, 1, bandwidth=BW), link("sw", 7, BK, 1, bandwidth=BW)]
    return base_cfg(nodes, links)


# ---------------------------------------------------------------------------------------------------------------------


class CutRaised(Exception):
    """The code under test raised inside an in-domain operation (caught at the driver boundary only)."""

    def __init__(self, exc: BaseException):
        super().__init__(str(exc))
        self.exc = exc


def cut(fn, *a, **kw):
    try:
        return fn(*a, **kw)
    except Exception as e:
        raise CutRaised(e)


class Model:
    def __init__(self, n: int, server_pw: Optional[str], cap: int):
        self.pw = server_pw
        self.cap = cap
        self.open: set = set()  # ids the service issued and has not closed
        self.issued: set = set()
        self.srv_closed: set = set()  # ids the service closed on its own initiative
        self.file = "GOOD"
        self.backup: Optional[str] = None  # health of the data when the stored backup was taken
        self.blocked = {"pg": False, "ftp": False}
        self.cap_hit = False  # a well-formed connect has been refused because the service was full
        self.installed = [True] * n
        self.pw_cfg: List[Optional[str]] = [None] * n
        self.handles: List[List[Dict]] = [[] for _ in range(n)]  # {"obj","cid","active"}
        self.native: List[Optional[Dict]] = [None] * n
        self.bot: List[Dict[str, Optional[Dict]]] = [{"dm": None, "rw": None} for _ in range(n)]  # cached bot handles


def run_case(case: Dict) -> CaseResult:
    from primaite.simulator.network.hardware.node_operating_state import NodeOperatingState
    from primaite.simulator.system.applications.application import ApplicationOperatingState
    from primaite.simulator.system.applications.database_client import DatabaseClientConnection
    from primaite.simulator.system.services.service import ServiceOperatingState
    from primaite.simulator.system.software import SoftwareHealthState as H

    res = CaseResult()
    ops = case["ops"]
    topo, n = case["topo"], case["n_clients"]
    game = new_game(scenario(case))
    sim = game.simulation
    net = sim.network
    db = net.get_node_by_hostname(DB)
    bk = net.get_node_by_hostname(BK)
    cnodes = [net.get_node_by_hostname(f"c{i}") for i in range(n)]
    svc = db.software_manager.software["database-service"]
    svc.max_sessions = case["cap"]
    ftps = bk.software_manager.software["ftp-server"]
    M = Model(n, "pw" if case["has_pw"] else None, case["cap"])
    ip = addresses(topo)
    am = _am()

    # ---- facts read from the simulation -----------------------------------------------------------------------------
    def client(i):
        return cnodes[i].software_manager.software.get("database-client")

    def node_on():
        return db.operating_state == NodeOperatingState.ON

    def running():
        return svc.operating_state == ServiceOperatingState.RUNNING

    def usable(i):
        """The client application can act: installed, RUNNING, on a powered-on host."""
        c = client(i)
        return (
            M.installed[i] and c is not None and c.operating_state == ApplicationOperatingState.RUNNING
            and cnodes[i].operating_state == NodeOperatingState.ON
        )

    def wire(i):
        """Frames can travel between client host i and the database host (both directions)."""
        return (
            cnodes[i].operating_state == NodeOperatingState.ON and cnodes[i].network_interface[1].enabled
            and not M.blocked["pg"] and node_on()
        )

    def reach(i):
        return usable(i) and wire(i) and running()

    def file_health() -> str:
        f = svc.db_file
        return f.health_status.name if f is not None else "MISSING"

    def stored():
        f = bk.file_system.get_file(folder_name=str(svc.uuid), file_name="database.db")
        return None if f is None else (f.uuid, f.health_status.name)

    def restore_avail():
        return (
            node_on() and running() and not M.blocked["ftp"] and bk.operating_state == NodeOperatingState.ON
            and ftps.operating_state == ServiceOperatingState.RUNNING and M.backup is not None
        )

    def view(full: bool) -> str:
        s = db.describe_state()
        if not full:
            s = {"svc": s["services"]["database-service"], "fs": s["file_system"]}
        return json.dumps(
            {"st": norm_state(s), "conns": sorted(svc.connections), "pw": svc.password, "file": file_health()},
            sort_keys=True, default=str,
        )

    def request(req) -> str:
        return cut(sim.apply_request, req).status

    # ---- oracle pieces ----------------------------------------------------------------------------------------------
    flags = {"bad_handle": False, "restore_damaged": False, "pw_stage": 0, "pw_restart": False, "sticky": False,
             "srv_closed": False, "srv_unheard": False}

    def unavailable_guard(full: bool):
        """Snapshot taken before an op issued while the service is stopped / its node is off / the path is blocked."""
        return (full, view(full))

    def check_unchanged(guard, when, what):
        full, before = guard
        after = view(full)
        if after != before:
            res.violate(f"state-changed-while-unavailable:{what}", f"{when}: server state differs after a refused {what}")

    def sync_sets(when, what):
        actual = set(svc.connections)
        if actual != M.open:
            res.violate(
                f"server-open-set-mismatch:{what}",
                f"{when}: service holds {len(actual)} connection(s), model {len(M.open)} "
                f"(extra in service {len(actual - M.open)}, missing {len(M.open - actual)})",
            )
            M.open = actual - M.srv_closed  # follow the service, except for ids it closed itself: those stay closed
        fh = file_health()
        if fh != M.file:
            res.violate(f"file-health-drift:{what}", f"{when}: database.db is {fh}, model says {M.file}")
            M.file = fh

    def judge_connect(i, pw, h, health, guard, when, what):
        """h = handle returned (or None). Returns the handle entry or None."""
        pw_ok = pw == M.pw
        rch = reach(i)
        room = len(M.open) < M.cap
        refuse = None
        if not rch:
            refuse = "blocked" if M.blocked["pg"] and node_on() and running() and usable(i) else "down"
        elif not pw_ok:
            refuse = "password"
        elif not room:
            refuse = "capacity"
            M.cap_hit = True
        res.label(f"connect:{refuse or 'expected-ok'}")
        if guard is not None:
            check_unchanged(guard, when, what)
        ent = None
        if h is not None:
            cid = h.connection_id
            if refuse:
                res.violate(f"connect-accepted:{refuse}", f"{when}: a connection was opened although {refuse}")
            if cid not in svc.connections:
                res.violate("connect-handle-unknown-to-service", f"{when}: handle id is not in the service's connections")
            if cid in M.issued:
                res.violate("connection-id-reused", f"{when}: id handed out twice")
            if not h.is_active:
                res.violate("connect-handle-inactive", f"{when}: fresh handle is not active")
            M.issued.add(cid)
            if cid in svc.connections:
                M.open.add(cid)
            # owner = the client *instance* that holds the handle in its client_connections; a handle orphaned by a
            # forced uninstall is unknown to a reinstalled client (its disconnect() is a client-side no-op)
            ent = {"obj": h, "cid": cid, "active": True, "owner": client(i)}
            M.handles[i].append(ent)
            if flags["pw_stage"] == 2 and pw_ok and not refuse:
                flags["pw_restart"] = True
        elif refuse is None:
            if health == H.OVERWHELMED:
                tag = "after-capacity-hit" if M.cap_hit else "never-at-capacity"
                if M.cap_hit:
                    flags["sticky"] = True
                res.violate(
                    f"connect-refused-below-capacity:{tag}",
                    f"{when}: right password, service running on a powered-on node, path open, "
                    f"{len(M.open)}/{M.cap} connections open, yet refused (service health OVERWHELMED)",
                )
            elif health in (H.GOOD, H.FIXING):
                res.violate(
                    f"connect-refused:health-{health.name}",
                    f"{when}: right password, service running, path open, {len(M.open)}/{M.cap} open, yet refused",
                )
        if not pw_ok and flags["pw_stage"] == 0:
            flags["pw_stage"] = 1
        return ent

    def judge_query(i, cid, handle_ok, sqlk, r, health, guard, when, klass):
        """r = bool result of the query. Updates the model's file health."""
        rch = reach(i)
        auth = cid in M.open
        refuse = None
        if not handle_ok:
            refuse = "closed-handle"
        elif not rch:
            refuse = "blocked" if M.blocked["pg"] and node_on() and running() and usable(i) else "down"
        elif not auth:
            refuse = klass if klass in ("forged",) else "closed-connection"
        elif health == H.FIXING:
            refuse = "fixing"
        res.label(f"query:{refuse or 'expected-run'}", f"query-kind:{klass}")
        if guard is not None:
            check_unchanged(guard, when, "query")
        post = file_health()
        if refuse:
            if r:
                res.violate(f"query-answered:{refuse}:{sqlk}", f"{when}: query reported success although {refuse}")
            if post != M.file:
                res.violate(
                    f"query-executed:{refuse}:{sqlk}", f"{when}: database.db went {M.file} -> {post} although {refuse}"
                )
                M.file = post
            return
        suspended = health == H.OVERWHELMED and M.cap_hit
        if suspended:
            res.label("query:suspended-overwhelmed")
        if sqlk == "SELECT":
            if not suspended:
                if M.file == "GOOD" and not r:
                    res.violate("select-good-refused", f"{when}: SELECT on healthy data over an open connection failed")
                if M.file == "COMPROMISED" and r:
                    res.violate("select-compromised-succeeded", f"{when}: SELECT on COMPROMISED data succeeded")
        elif sqlk in ("INSERT", "ADMIN"):
            if not suspended and not r:
                res.violate(f"query-refused:{sqlk}", f"{when}: {sqlk} over an open connection failed (health {health.name})")
        elif sqlk in ("DELETE", "ENCRYPT"):
            want = "COMPROMISED" if sqlk == "DELETE" else "CORRUPT"
            if not suspended and not r:
                res.violate(f"query-refused:{sqlk}", f"{when}: {sqlk} over an open connection failed (health {health.name})")
            if r or not suspended:
                if post != want:
                    res.violate(f"destructive-query-wrong-health:{sqlk}", f"{when}: database.db is {post}, expected {want}")
                M.file = post if post != want else want
        # UNKNOWN: result open; health must not move (sync_sets checks drift)

    # ---- the run ----------------------------------------------------------------------------------------------------
    def do(op, when):
        k = op[0]
        if k == "connect":
            _, i, kind = op
            i %= n
            if not usable(i):
                res.label("skipped:client-absent")
                return
            pw = {"right": M.pw, "wrong": WRONG_PW, "none": None}[kind]
            c = client(i)
            c.server_password = pw
            M.pw_cfg[i] = pw
            down = not (node_on() and running())
            guard = unavailable_guard(full=not wire(i)) if (down or not wire(i)) else None
            health = svc.health_state_actual
            h = cut(c.get_new_connection)
            judge_connect(i, pw, h, health, guard, when, "connect")
            sync_sets(when, "connect")
        elif k == "execute":
            _, i = op
            i %= n
            if not usable(i):
                res.label("skipped:client-absent")
                return
            c = client(i)
            had = c.native_connection is not None
            down = not (node_on() and running())
            guard = unavailable_guard(full=not wire(i)) if (down or not wire(i)) else None
            health = svc.health_state_actual
            status = request(am.form_request("node-application-execute", {"node_name": f"c{i}", "application_name": "database-client"}))
            if not had:
                ent = judge_connect(i, M.pw_cfg[i], c.native_connection, health, None, when, "execute")
                M.native[i] = ent
            ent = M.native[i]
            if ent is not None:
                # check_connection does not go through the handle object, only the id counts
                judge_query(i, ent["cid"], True, "ADMIN", status == "success", health, guard, when, "native")
            else:
                if guard is not None:
                    check_unchanged(guard, when, "execute")
                if status == "success":
                    res.violate("execute-success-without-connection", f"{when}: execute succeeded with no native connection")
            sync_sets(when, "execute")
        elif k == "bot":
            # a red application on client host i logs in through the host's database-client with ITS OWN password
            # (None = no password) and delivers its payload; same oracle as any other connection source
            _, i, kind, pwk = op
            i %= n
            name = BOT_APP[kind]
            bot = cnodes[i].software_manager.software.get(name)
            if bot is None:
                raise AssertionError(f"harness assumption: {name} is not installed on c{i}")
            if not usable(i) or bot.operating_state != ApplicationOperatingState.RUNNING:
                res.label("skipped:bot-host-client-not-running")
                return
            c = client(i)
            pw = {"right": M.pw, "wrong": WRONG_PW, "none": None}[pwk]
            if kind == "dm":
                cut(
                    bot.configure, server_ip_address=IPv4Address(ip["db"]), server_password=pw, payload="DELETE",
                    port_scan_p_of_success=1.0, data_manipulation_p_of_success=1.0, repeat=True,
                )
            else:
                bot.server_password = pw  # RansomwareScript.configure() cannot take a password away again
            res.label(
                f"bot:{kind}:bot-pw-{pwk}:host-pw-"
                + ("right" if M.pw_cfg[i] == M.pw else "none" if M.pw_cfg[i] is None else "wrong")
            )
            had = M.bot[i][kind]
            down = not (node_on() and running())
            guard = unavailable_guard(full=not wire(i)) if (down or not wire(i)) else None
            health = svc.health_state_actual
            c.last_query_response = None
            status = request(am.form_request("node-application-execute", {"node_name": f"c{i}", "application_name": name}))
            M.pw_cfg[i] = pw  # the bot hands its credentials to the host client (documented behaviour of both bots)
            if had is None:
                ent = judge_connect(i, pw, bot._db_connection, health, None, when, f"bot-{kind}")  # noqa
                M.bot[i][kind] = ent
            ent = M.bot[i][kind]
            if ent is not None:
                if ent["obj"] is not bot._db_connection:  # noqa
                    raise AssertionError("harness assumption: the bot keeps the connection handle it was given")
                resp = c.last_query_response
                r = bool(resp) and resp.get("status_code") == 200
                if kind == "rw" and r != (status == "success"):
                    res.violate("bot-result-disagrees-with-response", f"{when}: execute {status}, service answered {resp}")
                judge_query(i, ent["cid"], ent["active"] and usable(i), BOT_SQL[kind], r, health, guard, when, "bot")
            elif guard is not None:
                check_unchanged(guard, when, "bot")
            sync_sets(when, "bot")
        elif k == "query":
            _, i, hk, idx, sqlk = op
            i %= n
            if M.installed[i] and not usable(i):
                res.label("skipped:client-not-running")  # installing / closed / host off: it could send but not hear the answer
                return
            pool = M.handles[i]
            if hk != "forged" and not pool:
                hk = "forged"
            if hk == "forged":
                cid = "deadbeef-0000-4000-8000-%012x" % (idx + 1)
                obj = cut(DatabaseClientConnection, connection_id=cid, parent_node=cnodes[i])
                handle_ok = usable(i)
            else:
                ent = pool[-1] if (hk == "last" or idx == 99) else pool[idx % len(pool)]  # latest issued handle
                cid = ent["cid"]
                if hk in ("live", "last"):
                    obj = ent["obj"]
                    handle_ok = ent["active"] and usable(i)
                    if obj.is_active != ent["active"]:
                        res.violate("handle-active-flag-mismatch", f"{when}: handle.is_active={obj.is_active}, model {ent['active']}")
                else:  # clone: a fresh public handle object carrying an id the service once issued
                    obj = cut(DatabaseClientConnection, connection_id=cid, parent_node=cnodes[i])
                    handle_ok = usable(i)
            if hk == "forged" or cid not in M.open or (hk in ("live", "last") and not handle_ok):
                flags["bad_handle"] = True
            down = not (node_on() and running())
            guard = unavailable_guard(full=not wire(i)) if (down or not wire(i)) else None
            health = svc.health_state_actual
            r = bool(cut(obj.query, SQL[sqlk]))
            judge_query(i, cid, handle_ok, sqlk, r, health, guard, when, hk)
            sync_sets(when, "query")
        elif k == "disconnect":
            _, i, idx = op
            i %= n
            pool = M.handles[i]
            if not pool:
                res.label("skipped:no-handle")
                return
            ent = pool[-1] if idx == 99 else pool[idx % len(pool)]  # 99 = the handle issued most recently
            delivered = reach(i)
            was = ent["active"] and usable(i) and ent["owner"] is client(i)
            cut(ent["obj"].disconnect)
            if was:
                ent["active"] = False
                if delivered:
                    M.open.discard(ent["cid"])
                if ent["obj"].is_active:
                    res.violate("disconnect-left-handle-active", f"{when}: handle still active after disconnect")
            res.label("disconnect:" + ("delivered" if was and delivered else "local-only" if was else "noop"))
            sync_sets(when, "disconnect")
        elif k == "uninstall":
            _, i = op
            i %= n
            if not M.installed[i]:
                res.label("skipped:client-absent")
                return
            delivered = reach(i)
            could_act = usable(i)
            leaving = client(i)
            status = request(am.form_request("node-application-remove", {"node_name": f"c{i}", "application_name": "database-client"}))
            if client(i) is not None:
                res.label(f"skipped:uninstall-{status}")  # e.g. refused on a powered-off host
                sync_sets(when, "uninstall")
                return
            for ent in M.handles[i]:
                if ent["active"] and ent["owner"] is leaving:
                    if could_act:
                        ent["active"] = False
                        if delivered:
                            M.open.discard(ent["cid"])
                        if ent["obj"].is_active:
                            res.violate("uninstall-left-handle-active", f"{when}: a handle is still active after uninstall")
                    else:
                        # a client that cannot act (closed / host off) cannot close anything; what its orphaned
                        # handle objects look like is not the database service's business
                        ent["active"] = ent["obj"].is_active
            M.installed[i] = False
            M.native[i] = None
            sync_sets(when, "uninstall")
        elif k == "install":
            _, i = op
            i %= n
            if M.installed[i]:
                res.label("skipped:client-present")
                return
            request(am.form_request("node-application-install", {"node_name": f"c{i}", "application_name": "database-client"}))
            request(am.form_request("configure-database-client", {"node_name": f"c{i}", "server_ip_address": ip["db"]}))
            c = client(i)
            if c is None:
                res.label("skipped:install-refused")
                sync_sets(when, "install")
                return
            # the fresh client is INSTALLING for its install_duration; ops on it are skipped until it is RUNNING
            M.installed[i] = True
            M.pw_cfg[i] = None
            M.native[i] = None
            sync_sets(when, "install")
        elif k == "svc":
            verb = op[1]
            request(am.form_request(f"node-service-{verb}", {"node_name": DB, "service_name": "database-service"}))
            if verb in ("stop", "restart", "pause") and flags["pw_stage"] == 1:
                flags["pw_stage"] = 2
            sync_sets(when, f"svc-{verb}")
        elif k == "power":
            _, host, d = op
            if host not in (DB, BK):
                host = f"c{int(host[1:]) % n}"
            request(am.form_request("node-shutdown" if d == "off" else "node-startup", {"node_name": host}))
            if host == DB and d == "off" and flags["pw_stage"] == 1:
                flags["pw_stage"] = 2
            sync_sets(when, "power")
        elif k == "srv_close":
            # the service itself closes a connection (public IOSoftware.terminate_connection, as in
            # test_database_service_can_terminate_connection); closed is closed whatever the client heard
            _, i, idx = op
            i %= n
            pool = M.handles[i]
            if not pool:
                res.label("skipped:no-handle")
                return
            ent = pool[-1] if idx == 99 else pool[idx % len(pool)]
            was_open = ent["cid"] in M.open
            hearable = usable(i) and wire(i)
            cut(svc.terminate_connection, ent["cid"])
            M.open.discard(ent["cid"])
            M.srv_closed.add(ent["cid"])
            ent["active"] = ent["obj"].is_active  # whether the client heard the notice is the client's side of it
            if was_open:
                flags["srv_closed"] = True
                if ent["active"]:
                    flags["srv_unheard"] = True
            res.label(
                "srv_close:" + ("not-open" if not was_open else ("client-" + ("reachable" if hearable else "unreachable")
                                + (":still-active" if ent["active"] else ":told")))
            )
            sync_sets(when, "srv_close")
        elif k == "app":
            _, i, d = op
            i %= n
            c = client(i)
            if c is None:
                res.label("skipped:client-absent")
                return
            if d == "close":
                request(am.form_request("node-application-close", {"node_name": f"c{i}", "application_name": "database-client"}))
            else:
                cut(c.run)  # no request exposes run(); documented API
            sync_sets(when, "app")
        elif k == "nic":
            _, i, d = op
            i %= n
            request(am.form_request("host-nic-disable" if d == "off" else "host-nic-enable", {"node_name": f"c{i}", "nic_num": 1}))
            sync_sets(when, "nic")
        elif k == "acl":
            _, which, d = op
            if topo != "routed":
                res.label("skipped:acl-on-lan")
                return
            if (d == "block") == M.blocked[which]:
                res.label("skipped:acl-noop")
                return
            if d == "block":
                status = request(
                    am.form_request(
                        "router-acl-add-rule",
                        {
                            "target_router": RT, "position": ACL_POS[which], "permission": "DENY", "protocol_name": "tcp",
                            "src_ip": "ALL", "src_wildcard": "NONE", "src_port": "ALL",
                            "dst_ip": "ALL", "dst_wildcard": "NONE", "dst_port": ACL_PORT[which],
                        },
                    )
                )
            else:
                status = request(am.form_request("router-acl-remove-rule", {"target_router": RT, "position": ACL_POS[which]}))
            if status != "success":
                raise AssertionError(f"harness assumption: ACL {d} request returned {status}")
            M.blocked[which] = d == "block"
            sync_sets(when, "acl")
        elif k == "repair":
            status = request(am.form_request("node-file-repair", {"node_name": DB, "folder_name": "database", "file_name": "database.db"}))
            # what a file repair does to COMPROMISED / CORRUPT data is file-system behaviour (File.repair only mends
            # CORRUPT); the property only says reads keep failing *until* the data is repaired, so take the result as given
            res.label(f"repair:{status}:{M.file}->{file_health()}")
            M.file = file_health()
            sync_sets(when, "repair")
        elif k == "backup":
            before = stored()
            ok = bool(cut(svc.backup_database))
            after = stored()
            res.label("backup:" + ("taken" if ok else "refused-existing" if before is not None else "refused"))
            if ok or after != before:
                M.backup = M.file
            sync_sets(when, "backup")
        elif k == "restore":
            up = node_on() and running()
            avail = restore_avail()
            damaged = M.file != "GOOD"
            if damaged and M.backup is not None:
                flags["restore_damaged"] = True
            guard = None
            if not up:
                guard = unavailable_guard(full=True)
            elif M.blocked["ftp"]:
                guard = unavailable_guard(full=False)
            ok = bool(cut(svc.restore_backup))
            res.label("restore:" + ("avail" if avail else "unavail") + (":damaged" if damaged else ""))
            if guard is not None:
                if ok:
                    why = "down" if not up else "blocked"
                    res.violate(f"restore-succeeded:{why}", f"{when}: restore reported success although {why}")
                check_unchanged(guard, when, "restore")
            elif avail:
                if not ok:
                    res.violate(
                        "restore-refused",
                        f"{when}: service running, node on, ftp path open, backup host up, backup taken while "
                        f"{M.backup}: restore failed, database.db is {file_health()}",
                    )
                elif M.backup == "GOOD" and file_health() != "GOOD":
                    res.violate(
                        "restore-good-backup-not-good",
                        f"{when}: backup was taken while GOOD, restore succeeded, database.db is {file_health()}",
                    )
            if ok:
                M.file = file_health()  # the data is now what the backup held (asserted above when that was GOOD)
            sync_sets(when, "restore")
        elif k == "tick":
            for _ in range(op[1]):
                fixing = svc.health_state_actual == H.FIXING
                avail0 = restore_avail()
                st0 = stored()
                f0 = svc.db_file
                backup0 = M.backup
                cut(game.pre_timestep)
                cut(game.apply_agent_actions)
                cut(game.advance_timestep)
                if stored() != st0:
                    M.backup = M.file  # the service's own backup (timestep 1)
                    res.label("tick:auto-backup")
                if fixing and svc.health_state_actual != H.FIXING:
                    replaced = svc.db_file is not f0
                    if M.file != "GOOD" and backup0 is not None:
                        flags["restore_damaged"] = True
                    res.label("tick:fix-completed" + (":restored" if replaced else ""))
                    if replaced:
                        if avail0 and restore_avail() and backup0 == "GOOD" and M.backup == "GOOD" and file_health() != "GOOD":
                            res.violate(
                                "fix-restore-good-backup-not-good",
                                f"{when}: fix completed and replaced database.db from a backup taken while GOOD, file is {file_health()}",
                            )
                        M.file = file_health()
                sync_sets(when, "tick")
        else:
            raise ValueError(op)

    for n_op, op in enumerate(ops):
        when = f"op#{n_op} {op}"
        try:
            do(op, when)
        except CutRaised as cr:  # the code under test raised on an in-domain operation; anything else is a harness error
            res.violate(f"raise:{op[0]}:{exc_sig(cr.exc)}", f"{when}: {exc_msg(cr.exc)}")
            break

    nontrivial = flags["bad_handle"] or flags["pw_restart"] or flags["restore_damaged"]
    res.nontrivial = nontrivial
    for name in ("srv_closed", "srv_unheard"):
        if flags[name]:
            res.label(f"had:{name}")
    for name in ("bad_handle", "pw_restart", "restore_damaged"):
        if flags[name]:
            res.label(f"nt:{name}")
    if nontrivial:
        res.label("nontrivial")
    if M.cap_hit:
        res.label("capacity-hit")
    if flags["sticky"]:
        res.label(f"excluded:{FINDING_STICKY}")
    res.label(f"topo:{topo}", f"len<{(len(ops) // 10 + 1) * 10}")
    return res


# ---------------------------------------------------------------------------------------------------------------------
# generators


def op_strategy():
    ci = st.integers(0, 2)
    hidx = st.integers(0, 3)
    connect = st.tuples(st.just("connect"), ci, st.sampled_from(["right", "right", "right", "wrong", "none"]))
    query = st.tuples(
        st.just("query"), ci, st.sampled_from(["live", "live", "last", "last", "clone", "clone", "forged"]), hidx,
        st.sampled_from(["SELECT", "SELECT", "INSERT", "DELETE", "ENCRYPT", "UNKNOWN"]),
    )
    return st.one_of(
        connect, connect, connect,
        query, query, query, query,
        st.tuples(st.just("execute"), ci),
        st.tuples(st.just("disconnect"), ci, hidx),
        st.tuples(st.just("disconnect"), ci, hidx),
        st.tuples(st.just("uninstall"), ci),
        st.tuples(st.just("install"), ci),
        st.tuples(st.just("srv_close"), ci, st.sampled_from([0, 1, 2, 99, 99])),
        st.tuples(st.just("bot"), ci, st.sampled_from(["dm", "rw"]), st.sampled_from(["none", "none", "wrong", "right"])),
        st.tuples(st.just("app"), ci, st.sampled_from(["close", "run", "run"])),
        st.tuples(st.just("nic"), ci, st.sampled_from(["off", "on", "on"])),
        st.tuples(st.just("power"), st.sampled_from(["c0", "c1", "c2"]), st.sampled_from(["off", "on", "on"])),
        st.tuples(st.just("svc"), st.sampled_from(["stop", "start", "start", "pause", "resume", "resume", "restart", "fix", "fix"])),
        st.just(("backup",)),
        st.just(("restore",)),
        st.just(("restore",)),
        st.just(("repair",)),
        st.tuples(st.just("power"), st.sampled_from([DB, DB, BK]), st.sampled_from(["off", "on", "on", "on"])),
        st.tuples(st.just("acl"), st.sampled_from(["pg", "ftp"]), st.sampled_from(["block", "block", "unblock"])),
        st.tuples(st.just("acl"), st.sampled_from(["pg", "ftp"]), st.sampled_from(["block", "unblock", "unblock"])),
        st.tuples(st.just("tick"), st.integers(1, 3)),
        st.tuples(st.just("tick"), st.integers(1, 3)),
    ).map(list)


def snippet_strategy():
    """Short scripted fragments that make the property's interesting histories likely (each element is still one op)."""
    ci = st.integers(0, 2)
    hidx = st.integers(0, 3)
    dmg = st.sampled_from(["DELETE", "ENCRYPT"])
    cycle = st.sampled_from(
        [
            [["svc", "stop"], ["svc", "start"]],
            [["svc", "restart"], ["tick", 3], ["tick", 3]],
            [["svc", "pause"], ["svc", "resume"]],
            [["power", DB, "off"], ["tick", 3], ["power", DB, "on"], ["tick", 3]],
        ]
    )
    return st.one_of(
        # fill the service, overflow it, free a slot, try again
        st.tuples(ci, ci, hidx).map(
            lambda t: [["connect", t[0], "right"]] * 2 + [["connect", t[1], "right"]] * 2
            + [["disconnect", t[0], t[2]], ["connect", t[1], "right"], ["query", t[1], "last", 0, "SELECT"]]
        ),
        # wrong password, restart of some kind, right password
        st.tuples(ci, cycle).map(
            lambda t: [["connect", t[0], "wrong"]] + t[1] + [["connect", t[0], "right"], ["query", t[0], "last", 0, "SELECT"]]
        ),
        # damage, read, restore or repair, read
        st.tuples(ci, dmg, st.sampled_from([["restore"], ["repair"], ["svc", "fix"]])).map(
            lambda t: [["connect", t[0], "right"], ["backup"], ["query", t[0], "last", 0, t[1]],
                       ["query", t[0], "last", 0, "SELECT"], t[2], ["tick", 3], ["query", t[0], "last", 0, "SELECT"]]
        ),
        # bring everything back up
        st.just([["svc", "resume"], ["svc", "start"], ["power", DB, "on"], ["power", BK, "on"], ["acl", "pg", "unblock"],
                 ["acl", "ftp", "unblock"], ["tick", 3], ["tick", 3]]),
        # damage twice with a repair / restore in between
        st.tuples(ci, dmg, dmg, st.sampled_from([["restore"], ["repair"], ["backup"]])).map(
            lambda t: [["connect", t[0], "right"], ["query", t[0], "last", 0, t[1]], t[3], ["query", t[0], "last", 0, "SELECT"],
                       ["query", t[0], "last", 0, t[2]], ["restore"], ["query", t[0], "last", 0, "SELECT"]]
        ),
        # restore across a blocked / powered-off backup path
        st.tuples(ci, dmg, st.sampled_from([
            ([["acl", "ftp", "block"]], [["acl", "ftp", "unblock"]]),
            ([["power", BK, "off"], ["tick", 3]], [["power", BK, "on"], ["tick", 3]]),
            ([["acl", "pg", "block"]], [["acl", "pg", "unblock"]]),
        ])).map(
            lambda t: [["connect", t[0], "right"], ["backup"], ["query", t[0], "last", 0, t[1]]] + t[2][0]
            + [["restore"], ["query", t[0], "last", 0, "SELECT"], ["connect", t[0], "right"]] + t[2][1]
            + [["restore"], ["query", t[0], "last", 0, "SELECT"]]
        ),
        # the service closes a connection while its client cannot hear it; the client comes back and uses its handle
        st.tuples(
            ci,
            st.sampled_from(
                [
                    ("power", [["tick", 3]], [["tick", 3]]),
                    ("app", [], []),
                    ("nic", [], []),
                    ("acl", [], []),
                    ("svc", [], []),
                    ("none", [], []),
                ]
            ),
            dmg,
        ).map(
            lambda t: [["connect", t[0], "right"]]
            + {
                "power": [["power", f"c{t[0]}", "off"]], "app": [["app", t[0], "close"]], "nic": [["nic", t[0], "off"]],
                "acl": [["acl", "pg", "block"]], "svc": [["svc", "stop"]], "none": [],
            }[t[1][0]]
            + t[1][1] + [["srv_close", t[0], 99]]
            + {
                "power": [["power", f"c{t[0]}", "on"]], "app": [["app", t[0], "run"]], "nic": [["nic", t[0], "on"]],
                "acl": [["acl", "pg", "unblock"]], "svc": [["svc", "start"]], "none": [],
            }[t[1][0]]
            + t[1][2]
            + [["query", t[0], "last", 0, t[2]], ["query", t[0], "last", 0, "SELECT"], ["query", t[0], "clone", 99, "INSERT"]]
        ),
        # a red application logs in from a host whose legitimate client holds some password
        st.tuples(
            ci, st.sampled_from(["right", "right", "wrong", "none"]), st.sampled_from(["dm", "rw"]),
            st.sampled_from(["none", "none", "wrong", "right"]), st.sampled_from(["none", "wrong", "right"]),
        ).map(
            lambda t: [["connect", t[0], t[1]], ["bot", t[0], t[2], t[3]], ["query", t[0], "last", 0, "SELECT"],
                       ["bot", t[0], t[2], t[4]], ["execute", t[0]]]
        ),
        # bring a client back
        ci.map(lambda i: [["power", f"c{i}", "on"], ["tick", 3], ["app", i, "run"], ["nic", i, "on"]]),
        # close, then use the id again through a fresh handle object
        st.tuples(ci, hidx, dmg).map(
            lambda t: [["connect", t[0], "right"], ["disconnect", t[0], t[1]], ["query", t[0], "clone", t[1], t[2]],
                       ["query", t[0], "live", t[1], t[2]]]
        ),
        # close while the server cannot hear it, then look at what the service still accepts
        st.tuples(
            ci,
            st.sampled_from(
                [
                    ([["acl", "pg", "block"]], [["acl", "pg", "unblock"]]),
                    ([["svc", "stop"]], [["svc", "start"]]),
                    ([["svc", "pause"]], [["svc", "resume"]]),
                    ([["power", DB, "off"]], [["tick", 3], ["power", DB, "on"], ["tick", 3]]),
                ]
            ),
        ).map(
            lambda t: [["connect", t[0], "right"]] + t[1][0]
            + [["disconnect", t[0], 99], ["query", t[0], "clone", 99, "DELETE"]] + t[1][1]
            + [["query", t[0], "clone", 99, "SELECT"], ["query", t[0], "clone", 99, "ENCRYPT"]]
        ),
        # everything while unavailable
        st.tuples(ci, cycle, dmg).map(
            lambda t: [["connect", t[0], "right"]] + t[1][:1]
            + [["connect", t[0], "right"], ["query", t[0], "last", 0, t[2]], ["restore"], ["execute", t[0]]] + t[1][1:]
        ),
    )


def case_strategy(max_len: int, caps=(1, 2, 2, 3, 3, 100)):
    piece = st.one_of(op_strategy().map(lambda o: [o]), op_strategy().map(lambda o: [o]), snippet_strategy())
    ops = st.lists(piece, min_size=5, max_size=16).map(lambda ps: [list(o) for p_ in ps for o in p_][:max_len])
    return st.fixed_dictionaries(
        {
            "topo": st.sampled_from(["routed", "routed", "lan"]),
            "n_clients": st.integers(1, 3),
            "cap": st.sampled_from(list(caps)),
            "has_pw": st.sampled_from([True, True, True, False]),
            "dur": st.sampled_from([1, 2]),
            "ops": ops,
        }
    )


EXH_PARAMS = {"topo": "routed", "n_clients": 2, "cap": 2, "has_pw": True, "dur": 1}
PRELUDES = [
    [],
    [["connect", 0, "right"], ["backup"], ["query", 0, "live", 0, "DELETE"]],
]
EXH_ALPHABET = [
    ["connect", 0, "right"],
    ["connect", 0, "wrong"],
    ["connect", 1, "right"],
    ["query", 0, "live", 0, "SELECT"],
    ["query", 0, "clone", 0, "ENCRYPT"],
    ["query", 1, "forged", 0, "DELETE"],
    ["disconnect", 0, 0],
    ["srv_close", 0, 0],
    ["svc", "stop"],
    ["svc", "start"],
    ["restore"],
    ["power", DB, "off"],
    ["acl", "pg", "block"],
    ["tick", 2],
]
EXH_EXTRA = [  # thorough tier only
    ["bot", 0, "dm", "none"],
    ["bot", 0, "rw", "wrong"],
    ["bot", 0, "dm", "right"],
    ["svc", "fix"],
    ["power", "c0", "off"],
    ["power", "c0", "on"],
    ["app", 0, "close"],
    ["app", 0, "run"],
    ["nic", 0, "off"],
    ["power", DB, "on"],
    ["connect", 0, "none"],
    ["execute", 0],
    ["uninstall", 0],
    ["svc", "restart"],
    ["svc", "pause"],
    ["backup"],
    ["repair"],
    ["acl", "pg", "unblock"],
    ["acl", "ftp", "block"],
    ["power", BK, "off"],
]


PRELUDE_FULL = [["connect", 0, "right"], ["connect", 1, "right"], ["backup"]]  # thorough: starts at max_sessions


def exh_cases(alphabet, depth, preludes=None):
    for pre in PRELUDES if preludes is None else preludes:
        for seq in itertools.product(alphabet, repeat=depth):
            c = dict(EXH_PARAMS)
            c["ops"] = [list(o) for o in pre] + [list(o) for o in seq]
            yield c


def worker(ctx: Ctx):
    if ctx.tier == "quick":
        cases = exh_cases(EXH_ALPHABET, 3)
        domain = (
            f"{len(PRELUDES)} preludes x all {len(EXH_ALPHABET)}^3 sequences over the {len(EXH_ALPHABET)}-symbol alphabet"
        )
    else:
        big = EXH_ALPHABET + EXH_EXTRA
        cases = exh_cases(big, 3, PRELUDES + [PRELUDE_FULL])
        domain = f"{len(PRELUDES) + 1} preludes x all {len(big)}^3 sequences over the {len(big)}-symbol alphabet"
    enum_run(ctx, cases, run_case)
    ctx.extra["exhaustive"] = True
    ctx.extra["exhaustive_domain"] = domain + " (routed, 2 clients, max_sessions 2, password set)"
    n = 100 if ctx.tier == "quick" else 2000
    # exclusion by construction: while the sticky-OVERWHELMED finding is open, reaching capacity degrades the rest of a
    # case (positive expectations are suspended), so capacity is reached less often; cases that did are counted.
    caps = (2, 3, 3, 100, 100, 100) if FINDING_STICKY in ctx.excl else (1, 2, 2, 3, 3, 100)
    hyp_run(ctx, case_strategy(30, caps), run_case, n)
