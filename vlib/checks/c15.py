"""C15 — the file system stays structurally consistent under any operation sequence (DESIGN §C15)."""
from __future__ import annotations

import itertools
from typing import Any, Dict, List

from hypothesis import strategies as st

from ..harness import CaseResult, Ctx, enum_run, hyp_run
from ..simutil import exc_msg, exc_sig, lan_cfg, new_game

ID = "C15"
WORKERS = {"quick": 8, "thorough": 16}
RULE = (
    "case = operation sequence on one host's file system, issued through the request tree and through agent actions' "
    "form_request (create/delete/restore/scan/repair/corrupt/access on files and folders over a pool of 2 folder and 3 file "
    "names, plus ticks); random sequences to depth 40 from Hypothesis, and all sequences to a fixed depth over a "
    "reduced alphabet, plus 'focused' sequences that keep hitting one folder and 1-2 file names with ~25% ticks so that "
    "timed folder scans/restores complete while other operations interleave. Non-trivial = the sequence contains "
    "delete->restore on one name or create->create on one name; "
    "distinct by hash of the op list."
)
ASSUMPTIONS = [
    "requests are formed exactly as the action classes / request tree document them; only names vary",
    "model agreement is asserted only for effects the property states unambiguously (create of an absent name, "
    "delete of a live item, restore of a deleted item with no live namesake)",
]

FOLDERS = ["fa", "fb"]
FILES = ["x.txt", "y.txt", "z.txt"]
HOST = "h0"
P = ["network", "node", HOST, "file_system"]


def _am():
    from primaite.game.agent.actions import ActionManager

    return ActionManager()


def form(op: List) -> List:
    """Turn an op into a request. Ops naming an agent action are formed by that action's form_request."""
    k = op[0]
    am = _am()
    if k == "create_file":
        _, fo, fi, front = op
        if front == "action":
            return am.form_request("node-file-create", {"node_name": HOST, "folder_name": fo, "file_name": fi})
        if front == "action_force":
            return am.form_request("node-file-create", {"node_name": HOST, "folder_name": fo, "file_name": fi, "force": True})
        return P + ["create", "file", fo, fi, front == "req_true"]
    if k == "create_folder":
        _, fo, front = op
        if front == "action":
            return am.form_request("node-folder-create", {"node_name": HOST, "folder_name": fo})
        return P + ["create", "folder", fo]
    if k == "delete_file":
        _, fo, fi, front = op
        if front == "action":
            return am.form_request("node-file-delete", {"node_name": HOST, "folder_name": fo, "file_name": fi})
        return P + ["folder", fo, "delete", fi]
    if k == "delete_folder":
        return P + ["delete", "folder", op[1]]
    if k == "restore_file":
        _, fo, fi, front = op
        if front == "action":
            return am.form_request("node-file-restore", {"node_name": HOST, "folder_name": fo, "file_name": fi})
        return P + ["restore", "file", fo, fi]
    if k == "restore_folder":
        _, fo, front = op
        if front == "action":
            return am.form_request("node-folder-restore", {"node_name": HOST, "folder_name": fo})
        return P + ["restore", "folder", fo]
    if k == "file_verb":
        _, fo, fi, verb = op
        return am.form_request(f"node-file-{verb}", {"node_name": HOST, "folder_name": fo, "file_name": fi})
    if k == "folder_verb":
        _, fo, verb = op
        if verb == "corrupt":
            return P + ["folder", fo, "corrupt"]
        return am.form_request(f"node-folder-{verb}", {"node_name": HOST, "folder_name": fo})
    if k == "access":
        return am.form_request("node-file-access", {"node_name": HOST, "folder_name": op[1], "file_name": op[2]})
    raise ValueError(op)


# ---------------------------------------------------------------------------------------------------------------------


def structure(fs) -> Dict[str, Any]:
    """Read the structural facts straight from the objects."""
    out = {"live_folders": [], "deleted_folders": [], "files": {}}
    for f in fs.folders.values():
        out["live_folders"].append(f)
    for f in fs.deleted_folders.values():
        out["deleted_folders"].append(f)
    return out


def check_invariants(fs, res: CaseResult, when: str) -> bool:
    ok = True

    def bad(sig, msg):
        nonlocal ok
        ok = False
        res.violate(sig, f"{when}: {msg}")

    live_f = list(fs.folders.values())
    del_f = list(fs.deleted_folders.values())
    live_ids = {id(f) for f in live_f}
    for f in del_f:
        if id(f) in live_ids:
            bad("folder-in-both-sets", f"folder {f.name} is in folders and deleted_folders")
    for f in live_f:
        if f.deleted:
            bad("live-folder-flagged-deleted", f"folder {f.name} is live but deleted=True")
    for f in del_f:
        if not f.deleted and id(f) not in live_ids:
            bad("deleted-folder-not-flagged", f"folder {f.name} is in deleted_folders but deleted=False")
    names = [f.name for f in live_f]
    if len(names) != len(set(names)):
        bad("live-dup-folder", f"live folder names not unique: {sorted(names)}")
    st_ = fs.describe_state()
    if sorted(st_["folders"].keys()) != sorted(set(names)) or len(st_["folders"]) != len(names):
        bad("state-folders-mismatch", f"describe_state folders {sorted(st_['folders'])} vs live {sorted(names)}")
    if set(st_["deleted_folders"].keys()) != {f.name for f in del_f}:
        bad("state-deleted-folders-mismatch", f"{sorted(st_['deleted_folders'])} vs {sorted(f.name for f in del_f)}")

    for fol, fstate in [(f, st_["folders"].get(f.name)) for f in live_f] + [
        (f, st_["deleted_folders"].get(f.name)) for f in del_f
    ]:
        lf = list(fol.files.values())
        df = list(fol.deleted_files.values())
        lids = {id(x) for x in lf}
        for x in df:
            if id(x) in lids:
                bad("file-in-both-sets", f"file {fol.name}/{x.name} is in files and deleted_files")
        for x in lf:
            if x.deleted:
                bad("live-file-flagged-deleted", f"file {fol.name}/{x.name} is live but deleted=True")
        for x in df:
            if not x.deleted and id(x) not in lids:
                bad("deleted-file-not-flagged", f"file {fol.name}/{x.name} in deleted_files but deleted=False")
        fn = [x.name for x in lf]
        if len(fn) != len(set(fn)):
            bad("live-dup-file", f"live file names in {fol.name} not unique: {sorted(fn)}")
        if fstate is not None:
            # only compare the state entry that belongs to this folder object (names may collide across the two sets)
            same_obj = fstate.get("uuid") == fol.uuid
            if same_obj:
                if sorted(fstate["files"].keys()) != sorted(set(fn)) or len(fstate["files"]) != len(fn):
                    bad("state-files-mismatch", f"{fol.name}: state files {sorted(fstate['files'])} vs live {sorted(fn)}")
                if set(fstate["deleted_files"].keys()) != {x.name for x in df}:
                    bad(
                        "state-deleted-files-mismatch",
                        f"{fol.name}: state deleted {sorted(fstate['deleted_files'])} vs {sorted(x.name for x in df)}",
                    )
    return ok


class Model:
    """Names only. live[folder] = set of live file names; a folder missing from live is not live."""

    def __init__(self):
        self.live: Dict[str, set] = {"root": set()}
        self.deleted_folders: set = set()
        self.deleted_files: Dict[str, set] = {}


def run_case(case: Dict) -> CaseResult:
    res = CaseResult()
    ops = case["ops"]
    game = new_game(lan_cfg(1))
    node = game.simulation.network.get_node_by_hostname(HOST)
    fs = node.file_system
    sim = game.simulation

    def live_folder(name):
        return fs.get_folder(name)

    def live_file(fo, fi):
        f = fs.get_folder(fo)
        return f.get_file(fi) if f else None

    def del_file(fo, fi):
        f = fs.get_folder(fo)
        if not f:
            return None
        return any(x.name == fi for x in f.deleted_files.values())

    seen_create: Dict = {}
    seen_delete: Dict = {}
    nontrivial = False
    # every file / folder object ever observed in one of the sets, with its container: "never neither" needs the
    # history, a vanished item is by definition in no set that could be inspected afterwards
    reg_files: Dict[int, Any] = {}
    reg_folders: Dict[int, Any] = {}

    def registry_ok(when) -> bool:
        for fol in list(fs.folders.values()) + list(fs.deleted_folders.values()):
            reg_folders[id(fol)] = fol
        for fol in reg_folders.values():
            for x in list(fol.files.values()) + list(fol.deleted_files.values()):
                reg_files[id(x)] = (x, fol)
        ok = True
        for fol in reg_folders.values():
            if not any(v is fol for v in fs.folders.values()) and not any(v is fol for v in fs.deleted_folders.values()):
                res.violate("folder-in-neither-set", f"{when}: folder {fol.name} (seen earlier) is neither live nor deleted")
                ok = False
        for x, fol in reg_files.values():
            if not any(v is x for v in fol.files.values()) and not any(v is x for v in fol.deleted_files.values()):
                res.violate("file-in-neither-set", f"{when}: file {fol.name}/{x.name} (seen earlier, deleted={x.deleted}) is in "
                            f"neither files nor deleted_files of its folder")
                ok = False
        return ok

    registry_ok("initially")
    for i, op in enumerate(ops):
        k = op[0]
        when = f"op#{i} {op}"
        if k == "tick":
            try:
                game.pre_timestep()
                if fs.num_file_creations != 0 or fs.num_file_deletions != 0:
                    res.violate("counters-not-zero-at-tick-start", f"{when}: creations={fs.num_file_creations}")
                for fol in fs.folders.values():
                    for x in fol.files.values():
                        if x.num_access != 0:
                            res.violate("access-counter-not-zero-at-tick-start", f"{when}: {fol.name}/{x.name}")
                game.apply_agent_actions()
                game.advance_timestep()
            except Exception as e:  # the property: ticks never break the structure / raise
                res.violate(f"raise:tick:{exc_sig(e)}", f"{when}: {exc_msg(e)}")
                break
            if not check_invariants(fs, res, when) or not registry_ok(when):
                break
            continue
        # pre-state facts (read through the public getters)
        fo = op[1]
        fi = op[2] if k in ("create_file", "delete_file", "restore_file", "file_verb", "access") else None
        pre_folder_live = live_folder(fo) is not None
        pre_file_live = live_file(fo, fi) is not None if fi else None
        pre_file_deleted = del_file(fo, fi) if fi else None
        pre_names = sorted(x.name for x in live_folder(fo).files.values()) if pre_folder_live else None
        pre_folder_deleted = any(f.name == fo for f in fs.deleted_folders.values())
        req = form(op)
        try:
            resp = sim.apply_request(req)
            status = resp.status
        except Exception as e:
            res.violate(f"raise:{k}:{exc_sig(e)}", f"{when}: request {req} raised {exc_msg(e)}")
            break
        if status not in ("success", "failure", "unreachable", "pending"):
            res.violate("bad-status", f"{when}: {status}")
        if not check_invariants(fs, res, when) or not registry_ok(when):
            break
        # a deleted (or never created) folder is unavailable to further actions: nothing addressed INTO it succeeds
        # (creating is different: it makes the folder; restoring the folder itself is the way back)
        if k in ("delete_file", "restore_file", "file_verb", "access") and not pre_folder_live and status == "success":
            res.violate(f"action-in-nonlive-folder-succeeds:{k}{':deleted' if pre_folder_deleted else ':absent'}",
                        f"{when}: folder {fo} is not live, yet request {req} -> success")
        # model agreement, unambiguous effects only
        if k == "create_file":
            key = (fo, fi)
            if key in seen_create:
                nontrivial = True
            seen_create[key] = True
            if pre_file_live:
                # existing name: must be refused or a no-op
                post_names = sorted(x.name for x in live_folder(fo).files.values()) if live_folder(fo) else None
                if status == "success" and post_names != pre_names:
                    res.violate("create-existing-changed-folder", f"{when}: {pre_names} -> {post_names}")
            elif pre_folder_live and not pre_file_live:
                if status == "success" and live_file(fo, fi) is None:
                    res.violate("create-success-but-not-live", when)
                if status != "success" and not pre_file_deleted:
                    res.violate("create-absent-refused", f"{when}: status {status}")
        elif k == "create_folder":
            if pre_folder_live:
                pass
            elif not pre_folder_deleted:
                if live_folder(fo) is None:
                    res.violate("create-folder-absent-not-live", f"{when}: status {status}")
        elif k == "delete_file":
            if pre_file_live:
                seen_delete[(fo, fi)] = True
                if status == "success":
                    if live_file(fo, fi) is not None:
                        res.violate("delete-left-live", when)
                    if not del_file(fo, fi):
                        res.violate("delete-not-in-deleted-set", when)
                    # further actions on it are refused
                    for verb in ("scan", "repair", "corrupt"):
                        r2 = sim.apply_request(form(["file_verb", fo, fi, verb]))
                        if r2.status == "success":
                            res.violate("action-on-deleted-file-succeeds", f"{when}: then {verb} -> success")
                else:
                    res.violate("delete-live-refused", f"{when}: {status}")
            else:
                if status == "success":
                    res.violate("delete-nonlive-succeeds", when)
        elif k == "delete_folder":
            if pre_folder_live and fo != "root":
                seen_delete[(fo,)] = True
                if status == "success":
                    if live_folder(fo) is not None:
                        res.violate("delete-folder-left-live", when)
                    r2 = sim.apply_request(form(["folder_verb", fo, "scan"]))
                    if r2.status == "success":
                        res.violate("action-on-deleted-folder-succeeds", when)
                else:
                    res.violate("delete-live-folder-refused", f"{when}: {status}")
        elif k == "file_verb":
            # a live file is available to actions: scan / corrupt / repair / restore of a live file in a live folder
            # reach that file and report success (checkhash is documented as not implemented)
            if pre_file_live and pre_folder_live and op[3] in ("scan", "corrupt", "repair", "restore") and status != "success":
                res.violate(f"action-on-live-file-refused:{op[3]}", f"{when}: file is live but status {status}")
            if pre_file_live and pre_folder_live and op[3] == "corrupt" and status == "success":
                f_ = live_file(fo, fi)
                if f_ is not None and f_.health_status.name == "GOOD":
                    res.violate("corrupt-success-but-live-file-untouched", when)
        elif k == "restore_file":
            if (fo, fi) in seen_delete:
                nontrivial = True
            if pre_folder_live and pre_file_deleted and not pre_file_live and op[3] == "fs":
                if status == "success":
                    if live_file(fo, fi) is None:
                        res.violate("restore-success-not-live", when)
                    elif live_file(fo, fi).deleted:
                        res.violate("restore-left-flag", when)
        elif k == "restore_folder":
            if (fo,) in seen_delete:
                nontrivial = True
            if pre_folder_deleted and not pre_folder_live and op[2] == "fs":
                if status == "success":
                    f = live_folder(fo)
                    if f is None:
                        res.violate("restore-folder-success-not-live", when)
                    elif f.deleted:
                        res.violate("restore-folder-left-flag", when)
    res.nontrivial = nontrivial
    if any(o[0] == "tick" for o in ops):
        res.label("has_tick")
    if nontrivial:
        res.label("nontrivial")
    res.label(f"len<{(len(ops) // 10 + 1) * 10}")
    return res


# ---------------------------------------------------------------------------------------------------------------------
# generators


def op_strategy():
    fo = st.sampled_from(FOLDERS + ["root"])
    fo2 = st.sampled_from(FOLDERS)
    fi = st.sampled_from(FILES)
    return st.one_of(
        st.tuples(st.just("create_file"), fo, fi, st.sampled_from(["action", "action_force", "req_true", "req_false"])),
        st.tuples(st.just("create_folder"), fo2, st.sampled_from(["action", "req"])),
        st.tuples(st.just("delete_file"), fo, fi, st.sampled_from(["action", "folder"])),
        st.tuples(st.just("delete_folder"), fo2),
        st.tuples(st.just("restore_file"), fo, fi, st.sampled_from(["action", "fs"])),
        st.tuples(st.just("restore_folder"), fo2, st.sampled_from(["action", "fs"])),
        st.tuples(st.just("file_verb"), fo, fi, st.sampled_from(["scan", "repair", "corrupt", "restore", "checkhash"])),
        st.tuples(st.just("folder_verb"), fo2, st.sampled_from(["scan", "repair", "corrupt", "restore", "checkhash"])),
        st.tuples(st.just("access"), fo, fi),
        st.just(("tick",)),
    ).map(list)


def case_strategy(max_len):
    return st.fixed_dictionaries({"ops": st.lists(op_strategy(), min_size=1, max_size=max_len)})


@st.composite
def focused_case(draw, max_len):
    """Sequences that keep hitting ONE folder and ONE or two file names, with enough ticks for the timed folder
    operations (scan / restore, 3 ticks by default) to complete while other operations are interleaved."""
    fo = draw(st.sampled_from(FOLDERS))
    fis = draw(st.lists(st.sampled_from(FILES), min_size=1, max_size=2, unique=True))
    fi = st.sampled_from(fis)

    def mk(t):
        k, f, front, verb = t
        if k <= 3:
            return ["tick"]
        if k <= 6:
            return ["create_file", fo, f, ["action", "action_force", "req_true", "req_false"][front % 4]]
        if k <= 8:
            return ["delete_file", fo, f, ["action", "folder"][front % 2]]
        if k == 9:
            return ["restore_file", fo, f, ["action", "fs"][front % 2]]
        if k == 10:
            return ["delete_folder", fo]
        if k == 11:
            return ["restore_folder", fo, ["action", "fs"][front % 2]]
        if k == 12:
            return ["folder_verb", fo, ["restore", "scan", "repair", "corrupt", "restore"][verb % 5]]
        if k == 13:
            return ["file_verb", fo, f, ["scan", "repair", "corrupt", "restore", "checkhash"][verb % 5]]
        if k == 14:
            return ["create_folder", fo, ["action", "req"][front % 2]]
        return ["access", fo, f]

    op = st.tuples(st.integers(0, 15), fi, st.integers(0, 3), st.integers(0, 4)).map(mk)
    return {"ops": draw(st.lists(op, min_size=4, max_size=max_len))}


EXH_ALPHABET = [
    ["create_file", "fa", "x.txt", "action"],
    ["create_file", "fa", "x.txt", "req_false"],
    ["create_file", "fa", "y.txt", "req_true"],
    ["create_folder", "fa", "action"],
    ["delete_file", "fa", "x.txt", "action"],
    ["delete_file", "fa", "x.txt", "folder"],
    ["delete_folder", "fa"],
    ["restore_file", "fa", "x.txt", "fs"],
    ["restore_file", "fa", "x.txt", "action"],
    ["restore_folder", "fa", "fs"],
    ["file_verb", "fa", "x.txt", "corrupt"],
    ["file_verb", "fa", "x.txt", "scan"],
    ["folder_verb", "fa", "restore"],
    ["tick"],
]


def worker(ctx: Ctx):
    depth = 3 if ctx.tier == "quick" else 4
    cases = ({"ops": [list(o) for o in seq]} for seq in itertools.product(EXH_ALPHABET, repeat=depth))
    enum_run(ctx, cases, run_case)
    ctx.extra["exhaustive"] = True
    ctx.extra["exhaustive_domain"] = f"all {len(EXH_ALPHABET)}^{depth} sequences over the 14-symbol alphabet"
    n = 120 if ctx.tier == "quick" else 2000
    hyp_run(ctx, case_strategy(40), run_case, n)
    hyp_run(ctx, focused_case(30), run_case, 250 if ctx.tier == "quick" else 4000, sub=1)
