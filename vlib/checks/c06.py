"""C06 — blocking is effective: a host cut off from another cannot affect it (DESIGN §C06).

Three runs of one generated case on identically built simulations:
  attack   prefix, block, wait, then the attack schedule run on A
  idle     the same, A's operations replaced by nothing (same ticks, same B-side operations)
  control  as `attack` with the block left out (vacuity guard; makes the case count as non-trivial)
Oracle 1: after every post-block operation the victim's snapshot in `attack` equals the one in `idle`.
Oracle 2: a frame a router/firewall list denied is not afterwards sent by that device nor handed to its session manager,
          and the device's ARP cache / session table are the same when it has finished with the frame.
"""
from __future__ import annotations

import random
from typing import Any, Dict, List, Optional, Tuple

import numpy as np
import primaite.game.game  # noqa: F401  loaded here so that main's entropy.install() (which only patches modules that are
#                                     already imported) replaces uuid4 / datetime in every simulator module
from hypothesis import strategies as st

from .. import c06_topo as T
from .. import entropy
from ..harness import CaseResult, Ctx, hyp_run, open_ids
from ..simutil import exc_msg, exc_sig, new_game, norm_state

ID = "C06"
WORKERS = {"quick": 8, "thorough": 16}
SHRINK_KEY = ["ops", "prefix"]
RULE = (
    "case = topology spec (LAN1/LAN2 switched, R1/R2 routed, DMZ firewall; attacker hA and victim hB placements; 0-2 "
    "silent third hosts) x one complete block on the hA-hB cut of the tree (deny rule(s) of 10 shapes at the top of a "
    "router ACL or of one of the two firewall lists on the path, port-specific rules (dst-port only / src-port only / both; "
    "complete for one service, repertoire restricted to it and completeness observed), rules installed from the scenario "
    "file, by request or through the Python API, a bounded-exhaustive list x shape x installation product, wildcard rules with normalised and un-normalised bases and 5 wildcard widths; disabled host NIC / switch port / router port; absent "
    "link; powered-off victim, switch or router) installed from the scenario file, by request before anything else, or "
    "by request after an unblocked prefix x attack schedule on hA (ping, nmap ping/port/recon, install/configure/"
    "execute of data-manipulation-bot, ransomware-script, dos-bot, c2-beacon, c2-server commands, database client "
    "connect/query, FTP send, remote login/command/logoff) with ticks and victim-initiated pings in between. "
    "Non-trivial = the control run (same schedule, block left out) changes the victim relative to the idle run, i.e. "
    "the attack is effective when unblocked; the control run is executed for every case in the thorough tier and for "
    "the cases whose `control` flag was drawn (1 in 3) in the quick tier. Distinct by hash of the case."
)
ASSUMPTIONS = [
    "requests are formed by the action classes' form_request; database query, data-manipulation-bot configure and ping "
    "have no action and are issued through the public Python API the documentation shows",
    "the attack repertoire addresses the victim's IP address only, so destination-only deny rules are complete blocks",
    "harness entropy (uuid4, secrets, datetime.now) and the random module are pinned to the same value at the start of "
    "every operation and tick in all three runs, and the victim is the first node of the scenario, so frames the "
    "victim originates are byte-identical across runs",
    "exceptions raised by an operation are not C06 violations; the case stops there (counted as label aborted:*)",
    "two routers with default routes pointing at each other are not generated (known RecursionError, other property)",
]

A, B = T.A, T.B
INSTANT_OFF = "C06-instant-poweroff-not-a-block"
ARP_PORT = "C06-arp-port-bypasses-router-acl"

APPS = {"dmbot": "data-manipulation-bot", "ransom": "ransomware-script", "dos": "dos-bot", "c2s": "c2-server",
        "c2b": "c2-beacon", "dbc": "database-client"}
REMOTE_CMDS = {
    "mkdir": ["file_system", "create", "folder", "pwned"],
    "mkfile": ["file_system", "create", "file", "docs", "pwned.txt", False],
    "rmfile": ["file_system", "delete", "file", "docs", "secret.txt"],
    "stopdb": ["service", "database-service", "stop"],
    "adduser": ["service", "user-manager", "add_user", "eve", "evepw", True],
}
SQL = ("DELETE", "INSERT", "SELECT", "ENCRYPT", "SELECT * FROM pg_stat_activity")


def _am():
    from primaite.game.agent.actions import ActionManager

    return ActionManager()


# ---------------------------------------------------------------------------------------------------------------------
# Oracle 2 monitors: observe-only class-level wrappers, transparent unless Mon.current is set


class Mon:
    current: Optional["Mon"] = None

    def __init__(self):
        self.viol: List[Tuple[str, str]] = []
        self.acl_owner: Dict[int, Any] = {}      # id(AccessControlList) -> owning router / firewall
        self.acl_name: Dict[int, str] = {}
        self.denied: Dict[Tuple[int, int], str] = {}  # (id(device), id(frame)) -> list name
        self.keep: List[Any] = []                # strong refs: ids stay unique for the run
        self.stack: List[List] = []              # node-level receive_frame activations of routing devices
        self.n_denied = 0
        self.n_verdicts = 0
        self.victim = None
        self.ip_a = None
        self.watch = False                       # True in the post-block phase of blocked runs
        self.a_frames_at_b = 0
        self.b_accepts = 0
        self.attacker = None
        self.ip_b = None
        self.port_rule = None                    # the single rule of a port-specific block (completeness is observed)
        self.uncovered: List[str] = []           # frames hA sent towards hB after the block that the port rule does not name

    def v(self, sig: str, msg: str):
        if len(self.viol) < 20:
            self.viol.append((sig, msg))


def _dev_kind(node) -> str:
    return type(node).__name__.lower()


def _dev_snap(node):
    arp = node.software_manager.arp
    a = tuple(sorted((str(ip), str(e.mac_address)) for ip, e in arp.arp.items())) if arp else ()
    return a, len(node.session_manager.sessions_by_key)


def _frame_desc(frame) -> str:
    ip = frame.ip
    return f"{ip.protocol} {ip.src_ip_address}->{ip.dst_ip_address}" if ip else "non-ip"


_INSTALLED = False


def install_monitors():
    global _INSTALLED
    if _INSTALLED:
        return
    _INSTALLED = True
    from primaite.simulator.network.hardware.base import WiredNetworkInterface
    from primaite.simulator.network.hardware.nodes.host.host_node import HostNode
    from primaite.simulator.network.hardware.nodes.network.firewall import Firewall
    from primaite.simulator.network.hardware.nodes.network.router import AccessControlList, Router
    from primaite.simulator.system.core.session_manager import SessionManager

    orig_ip = AccessControlList.__dict__["is_permitted"]

    def is_permitted(self, frame):
        out = orig_ip(self, frame)
        m = Mon.current
        if m is None:
            return out
        dev = m.acl_owner.get(id(self))
        if dev is None:
            return out
        m.n_verdicts += 1
        ent = None
        for e in reversed(m.stack):
            if e[0] == (id(dev), id(frame)):
                ent = e
                break
        if ent is not None:
            ent[2] += 1
        if not out[0]:
            m.n_denied += 1
            m.keep.append(frame)
            m.denied[(id(dev), id(frame))] = m.acl_name.get(id(self), "?")
            if ent is not None and ent[3] is None:
                # what the device looked like when it had no reason yet to touch its tables for this frame:
                # on the first verdict that is the state at entry, on a later list the state at this verdict
                ent[3] = ent[1] if ent[2] == 1 else _dev_snap(dev)
        return out

    AccessControlList.is_permitted = is_permitted

    def wrap_node_rx(cls):
        orig = cls.__dict__["receive_frame"]

        def receive_frame(self, frame, from_network_interface):
            m = Mon.current
            if m is None or id(self) not in m.devices:
                return orig(self, frame, from_network_interface)
            ent = [(id(self), id(frame)), _dev_snap(self), 0, None]
            m.stack.append(ent)
            try:
                return orig(self, frame, from_network_interface)
            finally:
                m.stack.pop()
                if ent[3] is not None:
                    now = _dev_snap(self)
                    if now != ent[3]:
                        what = "arp" if now[0] != ent[3][0] else "sessions"
                        m.v(f"denied-frame-changed-device:{_dev_kind(self)}:{what}",
                            f"{self.config.hostname} denied a frame ({_frame_desc(frame)}, list "
                            f"{m.denied.get(ent[0])}) but its {what} table changed while it handled that frame: "
                            f"{ent[3][0] if what == 'arp' else ent[3][1]} -> {now[0] if what == 'arp' else now[1]}")

        cls.receive_frame = receive_frame

    wrap_node_rx(Router)
    wrap_node_rx(Firewall)

    orig_tx = WiredNetworkInterface.__dict__["send_frame"]

    def send_frame(self, frame):
        m = Mon.current
        if m is not None:
            node = self._connected_node
            if m.port_rule is not None and m.watch and node is m.attacker and frame.ip is not None \
                    and str(frame.ip.dst_ip_address) == m.ip_b:
                l4 = frame.tcp or frame.udp
                if not T.rule_covers(m.port_rule, str(frame.ip.protocol), str(frame.ip.src_ip_address), m.ip_b,
                                     int(l4.src_port) if l4 else None, int(l4.dst_port) if l4 else None):
                    if len(m.uncovered) < 5:
                        m.uncovered.append(_frame_desc(frame))
            k = (id(node), id(frame))
            if k in m.denied:
                m.v(f"denied-frame-sent:{_dev_kind(node)}",
                    f"{node.config.hostname} sends a frame ({_frame_desc(frame)}) out of port {self.port_num} after its "
                    f"list {m.denied[k]} denied it")
        return orig_tx(self, frame)

    WiredNetworkInterface.send_frame = send_frame

    orig_sm = SessionManager.__dict__["receive_frame"]

    def sm_receive_frame(self, frame, from_network_interface):
        m = Mon.current
        if m is not None:
            node = self.node
            k = (id(node), id(frame))
            if k in m.denied:
                m.v(f"denied-frame-to-session-manager:{_dev_kind(node)}",
                    f"{node.config.hostname} hands a frame ({_frame_desc(frame)}) to its session manager after its "
                    f"list {m.denied[k]} denied it")
        return orig_sm(self, frame, from_network_interface)

    SessionManager.receive_frame = sm_receive_frame

    orig_host = HostNode.__dict__["receive_frame"]

    def host_receive_frame(self, frame, from_network_interface):
        m = Mon.current
        if m is not None and m.victim is self:
            m.b_accepts += 1
            if m.watch and frame.ip is not None and str(frame.ip.src_ip_address) == m.ip_a:
                m.a_frames_at_b += 1
                proto = str(frame.ip.protocol)
                if frame.udp is not None and frame.is_arp:
                    proto += "-arp-port"
                m.v(f"attacker-frame-accepted-by-victim:{m.mech}:{proto}",
                    f"after the block ({m.mech}) the victim's NIC accepted a frame from the attacker: "
                    f"{_frame_desc(frame)} payload {type(frame.payload).__name__}")
        return orig_host(self, frame, from_network_interface)

    HostNode.receive_frame = host_receive_frame


def attach(m: Mon, game, meta: Dict, mech: str):
    from primaite.simulator.network.hardware.nodes.network.firewall import Firewall
    from primaite.simulator.network.hardware.nodes.network.router import Router

    net = game.simulation.network
    m.devices = set()
    for node in net.nodes.values():
        if isinstance(node, Router):
            m.devices.add(id(node))
            if isinstance(node, Firewall):
                for name in T.FW_LISTS:
                    acl = getattr(node, name)
                    m.acl_owner[id(acl)] = node
                    m.acl_name[id(acl)] = name
            else:
                m.acl_owner[id(node.acl)] = node
                m.acl_name[id(node.acl)] = "acl"
    m.victim = net.get_node_by_hostname(B)
    m.attacker = net.get_node_by_hostname(A)
    m.ip_a = meta["ip_a"]
    m.ip_b = meta["ip_b"]
    m.mech = mech


# ---------------------------------------------------------------------------------------------------------------------
# victim snapshot


def snapshot(b) -> Dict:
    st_ = b.describe_state()
    out: Dict[str, Any] = {}
    for k, v in st_.items():
        if k in ("applications", "services"):
            for name, sv in v.items():
                out[f"{k}.{name}"] = sv
        else:
            out[k] = v
    arp = b.software_manager.arp
    out["arp-cache"] = sorted((str(ip), str(e.mac_address), str(e.network_interface_uuid)) for ip, e in arp.arp.items()) \
        if arp else []
    sm = b.session_manager
    out["session-table"] = [[str(k[0]), str(k[1]), str(k[2]), str(k[3]), bool(s.connected), s.uuid]
                            for k, s in sm.sessions_by_key.items()]
    conns = {}
    for name, sw in b.software_manager.software.items():
        c = getattr(sw, "_connections", None)
        if c:
            conns[name] = [[str(cid), _conn_desc(cv)] for cid, cv in c.items()]
        for extra in ("_client_connection_requests", "client_connections", "_client_connections"):
            e = getattr(sw, extra, None)
            if e:
                conns[f"{name}.{extra}"] = [str(x) for x in e]  # insertion order (ids are relabelled by norm_state)
    out["software-connections"] = conns
    out["nic-counters"] = {str(n): {"traffic": nic.traffic, "nmne": nic.nmne, "enabled": nic.enabled}
                           for n, nic in b.network_interface.items()}
    usm = b.user_session_manager
    if usm is not None:
        def us(s):
            return None if s is None else [s.user.username, getattr(s, "remote_ip_address", None), s.start_step,
                                           s.last_active_step, s.end_step, s.uuid]

        out["user-sessions"] = {"local": us(usm.local_session),
                                "remote": [us(s) for s in usm.remote_sessions.values()],
                                "historic": [us(s) for s in usm.historic_sessions]}
        um = b.user_manager
        out["users"] = sorted((u.username, u.password, u.disabled, u.is_admin) for u in um.users.values())
    return norm_state(out)


def _conn_desc(cv) -> Any:
    if isinstance(cv, dict):
        return {str(k): (str(v) if k != "time" else "<time>") for k, v in cv.items()}
    d = {}
    for k in ("ip_address", "is_active", "ssh_session_id", "connection_request_id"):
        if hasattr(cv, k):
            d[k] = str(getattr(cv, k))
    return d


def first_diff(a: Any, b: Any, path: str = "") -> Optional[Tuple[str, Any, Any]]:
    if type(a) != type(b):
        return path, a, b
    if isinstance(a, dict):
        for k in list(a.keys()) + [k for k in b.keys() if k not in a]:
            if k not in a or k not in b:
                return f"{path}/{k}", a.get(k, "<absent>"), b.get(k, "<absent>")
            d = first_diff(a[k], b[k], f"{path}/{k}")
            if d:
                return d
        return None
    if isinstance(a, list):
        if len(a) != len(b):
            return f"{path}[len]", a, b
        for i, (x, y) in enumerate(zip(a, b)):
            d = first_diff(x, y, f"{path}[{i}]")
            if d:
                return d
        return None
    return None if a == b else (path, a, b)


# ---------------------------------------------------------------------------------------------------------------------
# operations


def is_b_op(op: List) -> bool:
    return op[0].startswith("b_")


def do_op(game, meta: Dict, op: List, am) -> Any:
    """Perform one operation; returns a short outcome string (used only for labels/messages)."""
    sim = game.simulation
    net = sim.network
    k = op[0]
    ip_a, ip_b = meta["ip_a"], meta["ip_b"]
    a = net.get_node_by_hostname(A)
    b = net.get_node_by_hostname(B)

    def req(action, **options):
        # (node-send-remote-command answers None instead of a RequestResponse when no reply came back - C05's business)
        return getattr(sim.apply_request(am.form_request(action, options)), "status", "no-response")

    if k == "tick":
        game.step()
        return "tick"
    if k == "ping":
        return str(a.ping(ip_b, pings=int(op[1]) if len(op) > 1 else 1))
    if k == "nmap_ping":
        return req("node-nmap-ping-scan", source_node=A, target_ip_address=ip_b)
    if k in ("nmap_port", "nmap_recon"):
        action = "node-nmap-port-scan" if k == "nmap_port" else "node-network-service-recon"
        scope = op[1] if len(op) > 1 else "all"
        if scope == "all":
            return req(action, source_node=A, target_ip_address=ip_b)
        return req(action, source_node=A, target_ip_address=ip_b, target_port=_ports_without_arp())
    if k == "install":
        return req("node-application-install", node_name=A, application_name=APPS[op[1]])
    if k == "remove":
        return req("node-application-remove", node_name=A, application_name=APPS[op[1]])
    if k == "execute":
        return req("node-application-execute", node_name=A, application_name=APPS[op[1]])
    if k == "close":
        return req("node-application-close", node_name=A, application_name=APPS[op[1]])
    if k == "configure":
        app = op[1]
        pw = meta["pw"]
        if app == "dmbot":
            bot = a.software_manager.software.get("data-manipulation-bot")
            if bot is None:
                return "absent"
            bot.configure(server_ip_address=_ip(ip_b), server_password=pw, payload=op[2] if len(op) > 2 else "DELETE",
                          port_scan_p_of_success=1.0, data_manipulation_p_of_success=1.0, repeat=True)
            return "ok"
        if app == "ransom":
            return req("configure-ransomware-script", node_name=A, server_ip_address=ip_b, server_password=pw,
                       payload="ENCRYPT")
        if app == "dos":
            return req("configure-dos-bot", node_name=A, target_ip_address=ip_b, payload="SPOOF DATA", repeat=True,
                       port_scan_p_of_success=1.0, dos_intensity=1.0, max_sessions=6)
        if app == "c2b":
            return req("configure-c2-beacon", node_name=A, c2_server_ip_address=ip_b, keep_alive_frequency=2)
        if app == "dbc":
            return req("configure-database-client", node_name=A, server_ip_address=ip_b, server_password=pw)
        return "n/a"
    if k == "dbc_query":
        dbc = a.software_manager.software.get("database-client")
        if dbc is None:
            return "absent"
        return str(dbc.query(op[1]))
    if k == "ftp_send":
        return getattr(sim.apply_request(["network", "node", A, "service", "ftp-client", "send",
                                          {"dest_ip_address": ip_b, "src_folder_name": "loot", "src_file_name": "a.txt",
                                           "dest_folder_name": op[1] if len(op) > 1 else "drop",
                                           "dest_file_name": "a.txt"}]), "status", "no-response")
    if k == "login":
        user, pwd = {"admin": ("admin", "admin"), "user": ("u0", "p0"), "bad": ("admin", "wrong")}[op[1]]
        return req("node-session-remote-login", node_name=A, remote_ip=ip_b, username=user, password=pwd)
    if k == "remote_cmd":
        return req("node-send-remote-command", node_name=A, remote_ip=ip_b, command=list(REMOTE_CMDS[op[1]]))
    if k == "logoff":
        return req("node-session-remote-logoff", node_name=A, remote_ip=ip_b)
    if k == "c2_terminal":
        return req("c2-server-terminal-command", node_name=A, commands=[list(REMOTE_CMDS[op[1]])], ip_address=None,
                   username="admin", password="admin")
    if k == "c2_ransom_cfg":
        return req("c2-server-ransomware-configure", node_name=A, server_ip_address=ip_b, payload="ENCRYPT")
    if k == "c2_ransom_launch":
        return req("c2-server-ransomware-launch", node_name=A)
    if k == "c2_exfil":
        return req("c2-server-data-exfiltrate", node_name=A, username="admin", password="admin",
                   target_ip_address=ip_b, target_file_name="secret.txt", target_folder_name="docs",
                   exfiltration_folder_name="spoils")
    if k == "local":
        return req("node-file-create", node_name=A, folder_name="tmp", file_name=f"n{op[1]}.txt")
    # victim-side operations (performed in every run)
    if k == "b_ping":
        tgt = ip_a if op[1] == "A" else (meta.get("ip_c") or ip_a)
        return str(b.ping(tgt, pings=1))
    if k == "b_beacon":
        # the scenario option c2_server_ip_address is not applied by the loader, so the beacon is configured by request
        c = req("configure-c2-beacon", node_name=B, c2_server_ip_address=ip_a, keep_alive_frequency=int(meta.get("kaf", 3)))
        return c + "/" + req("node-application-execute", node_name=B, application_name="c2-beacon")
    raise ValueError(op)


def _ports_without_arp() -> List[int]:
    from primaite.utils.validation.port import PORT_LOOKUP

    return sorted(v for k_, v in PORT_LOOKUP.items() if k_ not in ("NONE", "UNUSED", "ARP"))


def _ip(s):
    from ipaddress import IPv4Address

    return IPv4Address(s)


def pin(case_seed: int, i: int):
    """Same entropy, clock and RNG state at the start of operation i in every run."""
    n = (i + 1) * 1_000_000
    entropy.restore({"uuid": n, "bits": n, "tok": n, "clock": n})
    random.seed(case_seed * 7919 + i)
    np.random.seed((case_seed * 7919 + i) % (2 ** 32))


class Run:
    def __init__(self):
        self.snaps: List[Dict] = []        # post-block snapshots, one per operation
        self.aborted: Optional[str] = None
        self.aborted_at: Optional[int] = None
        self.mon: Optional[Mon] = None
        self.outcomes: List[str] = []


def run_once(case: Dict, mode: str) -> Run:
    """mode: 'attack' | 'idle' | 'control'."""
    spec = case["spec"]
    seed = int(case.get("seed", 0))
    blocked = mode != "control"
    cfg, meta = T.build(spec, with_block=blocked)
    extras = meta["extras"]
    if extras:
        for n in cfg["simulation"]["network"]["nodes"]:
            if n["hostname"] == extras[0]:
                meta["ip_c"] = n["ip_address"]
    r = Run()
    m = Mon()
    r.mon = m
    game = new_game(cfg, seed=seed)
    attach(m, game, meta, block_sig(spec))
    if spec["block"]["mech"] == "acl" and spec["block"]["shape"] in T.PORT_SHAPES:
        m.port_rule = T.block_target(spec)["rules"][0]
    am = _am()
    b = game.simulation.network.get_node_by_hostname(B)
    Mon.current = m
    i = 0
    try:
        def step(op, record: bool, skip: bool):
            nonlocal i
            pin(seed, i)
            i += 1
            if not skip:
                try:
                    r.outcomes.append(f"{op[0]}={do_op(game, meta, op, am)}")
                except Exception as e:  # driver boundary: not a C06 matter, the run stops here
                    if exc_sig(e).endswith("@?"):
                        raise  # no primaite frame in the traceback: the harness itself is wrong -> exit 2
                    r.aborted = f"{op[0]}:{exc_sig(e)}"
                    r.aborted_at = len(r.snaps)
                    r.outcomes.append(f"{op[0]} raised {exc_msg(e)[:120]}")
                    return False
            if record:
                r.snaps.append(snapshot(b))
            return True

        by_request = not (spec["when"] == "before" and spec.get("via") == "config")
        # 1. unblocked prefix (identical in all runs)
        if spec["when"] == "after":
            for op in case.get("prefix", []):
                if not step(op, False, False):
                    return r
        # 2. the block
        if by_request and spec.get("via") == "api":
            pin(seed, i)
            i += 1
            if blocked:
                add_rules_by_api(game, spec)
                r.outcomes.append("block api")
        elif by_request:
            for act in T.block_requests(spec):
                pin(seed, i)
                i += 1
                if blocked:
                    try:
                        resp = game.simulation.apply_request(am.form_request(act["action"], act["options"]))
                        r.outcomes.append(f"block {act['action']}={resp.status}")
                        if resp.status != "success":
                            r.aborted = f"block-refused:{act['action']}"
                            r.aborted_at = 0
                            return r
                    except Exception as e:
                        r.aborted = f"block:{exc_sig(e)}"
                        r.aborted_at = 0
                        return r
        for _ in range(int(case.get("wait", 0))):
            if not step(["tick"], False, False):
                return r
        # 3. the attack schedule
        m.watch = blocked
        for op in case["ops"]:
            skip = (mode == "idle") and not is_b_op(op) and op[0] != "tick"
            if not step(op, True, skip):
                return r
    finally:
        Mon.current = None
    return r


def add_rules_by_api(game, spec: Dict):
    """The block through the Python API the firewall/router documentation shows: <list>.add_rule(action=..., ...)."""
    from primaite.simulator.network.hardware.nodes.network.router import ACLAction
    from primaite.utils.validation.ip_protocol import PROTOCOL_LOOKUP

    t = T.block_target(spec)
    acl = t["acl"]
    dev = game.simulation.network.get_node_by_hostname(acl["dev"])
    lst = dev.acl if acl["kind"] == "router" else getattr(dev, f"{acl['port']}_{acl['dir']}_acl")
    for k, rule in enumerate(t["rules"]):
        lst.add_rule(
            action=ACLAction.DENY,
            protocol=None if rule["protocol_name"] == "ALL" else PROTOCOL_LOOKUP[rule["protocol_name"].upper()],
            src_ip_address=None if rule["src_ip"] == "ALL" else rule["src_ip"],
            src_wildcard_mask=None if rule["src_wildcard"] == "NONE" else rule["src_wildcard"],
            dst_ip_address=None if rule["dst_ip"] == "ALL" else rule["dst_ip"],
            dst_wildcard_mask=None if rule["dst_wildcard"] == "NONE" else rule["dst_wildcard"],
            src_port=None if rule["src_port"] == "ALL" else rule["src_port"],
            dst_port=None if rule["dst_port"] == "ALL" else rule["dst_port"],
            position=t["pos"] + k,
        )


STATS = {"acl_verdicts": 0, "acl_denials": 0, "frames_accepted_by_victim": 0}


def block_sig(spec: Dict) -> str:
    b = spec["block"]
    if b["mech"] == "acl":
        t = T.block_target(spec)
        return f"acl-{t['acl']['kind']}"
    if b["mech"] == "off":
        t = T.block_target(spec)["node"]
        kind = "victim" if t == B else ("switch" if t.startswith("sw") else ("firewall" if t == "fw" else "router"))
        return f"off-{kind}" + ("-instant" if int(spec.get("dur", 1)) == 0 else "")
    return b["mech"]


def run_case(case: Dict) -> CaseResult:
    install_monitors()
    res = CaseResult()
    spec = case["spec"]
    if not T.applicable(spec):
        res.label("inapplicable")
        return res
    bs = block_sig(spec)
    att = run_once(case, "attack")
    idle = run_once(case, "idle")
    seen = set()

    def mon_viol(r: Run, which: str):
        for sig, msg in r.mon.viol:
            if sig not in seen:
                seen.add(sig)
                res.violate(sig, f"[{which} run] {msg}")

    # a port-specific rule blocks one service: if hA put anything else on the wire towards hB after the block, the
    # premise "every path is blocked" does not hold for this schedule and only oracle 2 is applied
    incomplete = bool(att.mon.uncovered or idle.mon.uncovered)
    if incomplete:
        res.label("port-block-incomplete")
        for r_ in (att, idle):
            r_.mon.viol = [v for v in r_.mon.viol if not v[0].startswith("attacker-frame-accepted-by-victim")]
    mon_viol(att, "attack")
    mon_viol(idle, "idle")
    if idle.aborted:
        res.label(f"aborted:idle:{idle.aborted}")
    if att.aborted:
        res.label(f"aborted:attack:{att.aborted}")
    n = min(len(att.snaps), len(idle.snaps))
    if att.aborted_at is not None:
        n = min(n, att.aborted_at)
    if idle.aborted_at is not None:
        n = min(n, idle.aborted_at)
    ops = case["ops"]
    for j in range(0 if incomplete else n):
        if att.snaps[j] != idle.snaps[j]:
            d = first_diff(idle.snaps[j], att.snaps[j])
            section = d[0].split("/")[1] if d and "/" in d[0] else "?"
            optag = ops[j][0]
            if optag in ("nmap_port", "nmap_recon") and (len(ops[j]) < 2 or ops[j][1] == "all"):
                optag += "+arp-port"  # the full scan includes a probe to UDP/219
            res.violate(
                f"victim-differs:{bs}:{section}:{optag}",
                f"block {spec['block']} ({spec['when']}/{spec.get('via')}) in {spec['fam']} {spec['za']}->{spec['zb']}: after "
                f"op#{j} {ops[j]} the victim differs between the attack and the idle run at {d[0]}: idle={str(d[1])[:160]} "
                f"attack={str(d[2])[:160]}; attack outcomes: {att.outcomes[-6:]}")
            break
    # vacuity guard
    nontrivial = False
    if case.get("control") and not att.aborted and not idle.aborted:
        ctl = run_once(case, "control")
        mon_viol(ctl, "control")
        if ctl.aborted:
            res.label(f"aborted:control:{ctl.aborted}")
        k = min(len(ctl.snaps), len(idle.snaps))
        nontrivial = any(ctl.snaps[j] != idle.snaps[j] for j in range(k))
        res.label("control-run")
        res.label("control-effective" if nontrivial else "control-ineffective")
    res.nontrivial = nontrivial
    res.label(f"fam:{spec['fam']}", f"block:{bs}", f"when:{spec['when']}/{spec.get('via')}")
    if spec["block"]["mech"] == "acl":
        res.label(f"shape:{spec['block']['shape']}")
        if spec["block"]["shape"] in T.PORT_SHAPES:
            pp_ = spec["block"].get("pp", {})
            res.label(f"port-rule:{pp_.get('svc')}/{pp_.get('proto')}/addr-{pp_.get('addr')}")
        wc_ = spec["block"].get("wc")
        if wc_:
            t_ = T.block_target(spec)["rules"][0]
            unnorm = any(t_[f"{sd}_wildcard"] != "NONE" and
                         T.wild_base(t_[f"{sd}_ip"], t_[f"{sd}_wildcard"], "net") != t_[f"{sd}_ip"] for sd in ("src", "dst"))
            res.label(f"wildcard:{wc_['mask']}", "wildcard-base:un-normalised" if unnorm else "wildcard-base:normalised")
    for r_ in (att, idle):
        STATS["acl_verdicts"] += r_.mon.n_verdicts
        STATS["acl_denials"] += r_.mon.n_denied
        STATS["frames_accepted_by_victim"] += r_.mon.b_accepts
    if att.mon.n_denied:
        res.label("oracle2:attack-run-had-denied-frames")
    for op in ops:
        if op[0] != "tick":
            res.label(f"op:{op[0]}")
    return res


# ---------------------------------------------------------------------------------------------------------------------
# generators

FAMS = ("LAN1", "LAN2", "R1", "R2", "DMZ")
ZONES = ("ext", "int", "dmz")


@st.composite
def gadget(draw, a_sw: List[str], b_sw: List[str], post: bool, arp_scan_ok: bool = True, only=None):
    """A short coherent piece of attack (flattened into the op list, so ddmin can cut inside it).

    `only`: restrict to these gadget kinds (port-specific blocks: the service the rule names, plus local actions).
    """
    kinds = ["ping", "nmap", "dmbot", "ransom", "dos", "db", "db", "ftp", "ssh", "ssh", "local"]
    # victim runs a beacon -> attacker is the C2 server; otherwise the attacker may run a beacon towards the victim.
    # (never both: a beacon that is sent a keep-alive before it has a session raises AttributeError - not C06's business)
    kinds += ["c2srv", "c2srv"] if "c2b" in b_sw else ["c2bcn"]
    if post:
        kinds += ["bping"]
    if only is not None:
        kinds = [k_ for k_ in kinds if k_ in only] or ["local"]
    k = draw(st.sampled_from(kinds))
    t = [["tick"]] * _pick(draw, 3)
    if k == "ping":
        return [["ping", 1 + _pick(draw, 4)]] + t
    if k == "nmap":
        which = draw(st.sampled_from(["nmap_ping", "nmap_port", "nmap_recon"]))
        if which == "nmap_ping":
            return [[which]] + t
        return [[which, draw(st.sampled_from(["all", "noarp"] if arp_scan_ok else ["noarp"]))]] + t
    if k in ("dmbot", "ransom", "dos"):
        out = []
        if k not in a_sw:
            out += [["install", k], ["configure", k]] + [["tick"]] * _pick(draw, 3)
        elif k == "dos" or draw(st.booleans()):
            out += [["configure", k]]  # (a preinstalled dos-bot has no target until it is configured)
        out += [["execute", k]] + [["tick"]] * _pick(draw, 4)
        if _pick(draw, 5) == 0:
            out += [["remove", k]]
        return out
    if k == "db":
        out = [["configure", "dbc"]] if draw(st.booleans()) else []
        out += [["execute", "dbc"]]
        out += [["dbc_query", draw(st.sampled_from(SQL))] for _ in range(1 + _pick(draw, 2))]
        return out + t
    if k == "ftp":
        return [["ftp_send", draw(st.sampled_from(["drop", "docs"]))]] + t
    if k == "ssh":
        out = [["login", draw(st.sampled_from(["admin", "admin", "user", "bad"]))]]
        out += [["remote_cmd", draw(st.sampled_from(sorted(REMOTE_CMDS)))] for _ in range(_pick(draw, 3))]
        if draw(st.booleans()):
            out += [["logoff"]]
        return out + t
    if k == "c2srv":
        c = draw(st.sampled_from(["terminal", "ransom", "exfil"]))
        if c == "terminal":
            out = [["c2_terminal", draw(st.sampled_from(sorted(REMOTE_CMDS)))]]
        elif c == "ransom":
            out = [["c2_ransom_cfg"], ["c2_ransom_launch"]]
        else:
            out = [["c2_exfil"]]
        return out + t
    if k == "c2bcn":
        out = [] if "c2b" in a_sw else [["install", "c2b"]]
        return out + [["configure", "c2b"], ["execute", "c2b"]] + [["tick"]] * (1 + _pick(draw, 3))
    if k == "local":
        return [["local", _pick(draw, 4)]] + t
    if k == "bping":
        return [["b_ping", draw(st.sampled_from(["A", "C"]))]] + t
    raise ValueError(k)


def _pick(draw, n: int) -> int:
    """Uniform index (st.integers is biased towards 0, sampled_from is not)."""
    return draw(st.sampled_from(list(range(n))))


@st.composite
def case_strategy(draw, tier: str, fam: str, mech: str, allow_instant_off: bool = True, allow_arp_scan: bool = True):
    """One stratum: family x block mechanism ('off' comes as off:victim / off:switch / off:l3)."""
    if fam == "DMZ":
        za = draw(st.sampled_from(ZONES))
        zb = draw(st.sampled_from([z for z in ZONES if z != za]))
        extra_z = list(ZONES)
    elif fam == "LAN1":
        za, zb, extra_z = 0, 0, [0]
    else:
        za = _pick(draw, 2)
        zb = 1 - za
        extra_z = [0, 1]
    P = T.plan({"fam": fam, "za": za, "zb": zb})
    off_kind = None
    shapes = list(T.ACL_SHAPES)
    if mech.startswith("off:"):
        mech, off_kind = "off", mech[4:]
    elif mech.startswith("acl:"):
        g = int(mech[4:])
        mech, shapes = "acl", list(T.ACL_SHAPES[2 * g:2 * g + 2])
    block: Dict[str, Any] = {"mech": mech}
    svc = None
    if mech == "acl":
        block.update(shape=draw(st.sampled_from(shapes)), which=_pick(draw, len(P["acls"])), pos=_pick(draw, 7))
        if block["shape"] in T.PORT_SHAPES:
            svc = draw(st.sampled_from(sorted(T.SVC_PORT)))
            block["pp"] = {"svc": svc, "proto": draw(st.sampled_from(T.PP_PROTOS)),
                           "addr": draw(st.sampled_from(T.PP_ADDRS))}
        if block["shape"].startswith("wild"):
            # the wildcard applies to base and candidate alike: normalised bases, the host's own address, another address
            # of the range; /24-wide as well as narrower and wider wildcards that still cover the blocked address
            block["wc"] = {"mask": draw(st.sampled_from(("0.0.0.255",) + T.WILD_MASKS)),
                           "src_base": draw(st.sampled_from(T.WILD_BASES + ("other",))),
                           "dst_base": draw(st.sampled_from(T.WILD_BASES + ("other",))),
                           "off": _pick(draw, 256)}
    elif mech == "nic":
        block.update(side=draw(st.sampled_from(["A", "B"])))
    elif mech == "swport":
        block.update(which=_pick(draw, len(P["swports"])))
    elif mech == "l3port":
        block.update(which=_pick(draw, len(P["l3ports"])))
    elif mech == "link":
        block.update(which=_pick(draw, len(P["links"])))
    else:  # off: candidates are [victim] + devices on the path
        cands = [B] + P["devices"]
        if off_kind == "victim":
            idx = [0]
        elif off_kind == "switch":
            idx = [i for i, n in enumerate(cands) if n.startswith("sw")]
        else:
            idx = [i for i, n in enumerate(cands) if n.startswith("r") or n == "fw"]
        block.update(which=draw(st.sampled_from(idx)))
    if mech == "link":
        when, via = "before", "config"
    elif mech in ("nic", "swport", "l3port"):
        when, via = draw(st.sampled_from(["before", "after", "after"])), "request"
    elif mech == "acl":
        when = draw(st.sampled_from(["before", "after", "after"]))
        via = draw(st.sampled_from(["request", "api"] if when == "after" else ["config", "config", "request", "api"]))
    else:
        when = draw(st.sampled_from(["before", "after", "after"]))
        via = "request" if when == "after" else draw(st.sampled_from(["config", "request"]))
    if mech == "off" and via == "config" and block["which"] != 0:
        via = "request"  # only the victim can be declared OFF in the scenario file
    b_sw = sorted(draw(st.lists(st.sampled_from(T.B_TOKENS), max_size=3, unique=True)))
    a_sw = set(draw(st.lists(st.sampled_from(T.A_TOKENS), max_size=4, unique=True)))
    if "c2b" in b_sw:
        b_sw = [x for x in b_sw if x != "c2s"]
        a_sw = (a_sw - {"c2b"}) | {"c2s"}
    else:
        a_sw = a_sw - {"c2s"}
    only_pre = only_post = None
    if svc is not None:
        # a port-specific rule cuts one service: after the block hA uses only that service (anything else it put on the
        # wire towards hB would make the block incomplete; run_case checks that by observation and then skips oracle 1)
        if svc == "http":
            if "c2b" not in b_sw:
                b_sw = sorted(set(b_sw) | {"c2s"})
        else:
            b_sw = [x for x in b_sw if x != "c2b"]   # its keep-alives would be answered by hA on port 80
            a_sw = (a_sw - {"c2s"})
        only_post = SVC_GADGETS[svc]
        only_pre = only_post | {"ping", "nmap"}
    a_sw = sorted(a_sw)
    spec = {
        "fam": fam, "za": za, "zb": zb,
        "extra": draw(st.lists(st.sampled_from(extra_z), max_size=2)),
        "dur": draw(st.sampled_from([0, 1, 1, 2, 3] if (allow_instant_off or mech != "off") else [1, 1, 2, 3])),
        "routes": draw(st.sampled_from(["static", "default0", "default1"])),
        "a_sw": a_sw, "b_sw": b_sw, "kaf": 1 + _pick(draw, 4),
        "db_pw": draw(st.booleans()), "nmne": draw(st.sampled_from([None, True, True, False])),
        "block": block, "when": when, "via": via,
    }
    # open finding: a router exempts every UDP frame on the ARP port from its ACL -> no full port scans behind router ACLs
    arp_ok = allow_arp_scan or not (mech == "acl" and fam in ("R1", "R2"))
    prefix: List[List] = []
    if when == "after":
        if "c2b" in b_sw and _pick(draw, 4) > 0:
            prefix += [["b_beacon"], ["tick"]]
        for _ in range(_pick(draw, 5)):
            prefix += draw(gadget(a_sw, b_sw, False, arp_ok, only_pre))
    ops: List[List] = []
    for _ in range(1 + _pick(draw, 5)):
        ops += draw(gadget(a_sw, b_sw, True, arp_ok, only_post))
    wait = _pick(draw, 4)
    if mech == "off":
        wait += spec["dur"] + 1
    control = True if tier == "thorough" else _pick(draw, 3) == 0
    return {"spec": spec, "prefix": prefix[:40], "wait": wait, "ops": ops[:40], "seed": _pick(draw, 100),
            "control": control}


SVC_GADGETS = {"db": {"dmbot", "ransom", "dos", "db", "local"}, "ftp": {"ftp", "local"}, "ssh": {"ssh", "local"},
               "http": {"c2srv", "c2bcn", "local"}}

# ---------------------------------------------------------------------------------------------------------------------
# bounded-exhaustive part: every rule list on a path x every rule shape x every way of installing the rule

ENUM_PLACEMENTS = [("R1", 0, 1), ("R1", 1, 0), ("R2", 0, 1), ("R2", 1, 0)] + \
                  [("DMZ", a_, b_) for a_ in ZONES for b_ in ZONES if a_ != b_]
ENUM_OPS = {
    "gen0": (["dmbot"], [], [["ping", 1], ["execute", "dbc"], ["dbc_query", "DELETE"], ["tick"]]),
    "gen1": ([], [], [["login", "admin"], ["remote_cmd", "mkdir"], ["ftp_send", "drop"], ["tick"]]),
    "gen2": (["dmbot"], [], [["nmap_ping"], ["execute", "dmbot"], ["tick"], ["ping", 2]]),
    "db": (["dmbot"], [], [["execute", "dbc"], ["dbc_query", "DELETE"], ["execute", "dmbot"], ["tick"]]),
    "ftp": ([], [], [["ftp_send", "drop"], ["tick"], ["ftp_send", "docs"]]),
    "ssh": ([], [], [["login", "admin"], ["remote_cmd", "mkdir"], ["logoff"], ["tick"]]),
    "http": (["c2b"], ["c2s"], [["configure", "c2b"], ["execute", "c2b"], ["tick"], ["tick"]]),
}


def enum_shapes() -> List[Dict]:
    """Block descriptions without list index / position: 10 address/protocol shapes + 3 port sides x 2 protocols x 4
    address qualifiers (the service rotates with the index)."""
    out: List[Dict] = []
    for k_, sh in enumerate(x for x in T.ACL_SHAPES if x not in T.PORT_SHAPES):
        b = {"mech": "acl", "shape": sh}
        if sh.startswith("wild"):
            b["wc"] = {"mask": T.WILD_MASKS[k_ % len(T.WILD_MASKS)], "src_base": T.WILD_BASES[k_ % 3],
                       "dst_base": T.WILD_BASES[(k_ + 1) % 3], "off": 17 * k_ + 5}
        out.append(b)
    svcs = sorted(T.SVC_PORT)
    k_ = 0
    for sh in T.PORT_SHAPES:
        for proto in T.PP_PROTOS:
            for addr in T.PP_ADDRS:
                out.append({"mech": "acl", "shape": sh, "pp": {"svc": svcs[(k_ + k_ // 4) % len(svcs)], "proto": proto, "addr": addr}})
                k_ += 1
    return out


def enum_cases(tier: str):
    """(placement, list on its path) x shape x {scenario file; request or Python API, alternating before / after a prefix}.

    The scenario-file realisation is complete for every (list, shape); quick adds one of request / API for every second
    combination, thorough runs both.
    """
    n = 0
    shapes = enum_shapes()
    for pi, (fam, za, zb) in enumerate(ENUM_PLACEMENTS):
        nl = len(T.plan({"fam": fam, "za": za, "zb": zb})["acls"])
        for which in range(nl):
            for si, blk in enumerate(shapes):
                if tier == "thorough":
                    vias = ["config", "request", "api"]
                else:  # quick: request / API for every second combination, alternating between the two
                    vias = ["config"] + ([("request", "api")[(si // 2) % 2]] if (pi + which + si) % 2 == 0 else [])
                for via in vias:
                    n += 1
                    block = dict(blk, which=which, pos=(n % 5))
                    when = "before" if via == "config" or n % 2 == 0 else "after"
                    key = block["pp"]["svc"] if "pp" in block else f"gen{n % 3}"
                    a_sw, b_sw, ops = ENUM_OPS[key]
                    spec = {"fam": fam, "za": za, "zb": zb, "extra": [], "dur": 1,
                            "routes": ("static", "default0", "default1")[n % 3], "a_sw": list(a_sw), "b_sw": list(b_sw),
                            "kaf": 2, "db_pw": bool(n % 2), "nmne": None, "block": block, "when": when, "via": via}
                    prefix = [["ping", 1], ["execute", "dbc"]] if when == "after" else []
                    yield {"spec": spec, "prefix": prefix, "wait": n % 2, "ops": [list(o) for o in ops], "seed": n % 7,
                           "control": tier == "thorough" or n % 3 == 0}


def strata() -> List[Tuple[str, str, int]]:
    out = []
    for fam in FAMS:
        ms = [("nic", 1), ("swport", 1), ("link", 1), ("off:victim", 1), ("off:switch", 1)]
        if fam in ("R1", "R2", "DMZ"):
            ms += [(f"acl:{g}", 1) for g in range((len(T.ACL_SHAPES) + 1) // 2)] + [("l3port", 1), ("off:l3", 1)]
        out += [(fam, m, w) for m, w in ms]
    return out


def worker(ctx: Ctx):
    for k_ in STATS:
        STATS[k_] = 0  # the parent's finding replays ran before the fork
    allow_instant = not ctx.excl.get(INSTANT_OFF)
    allow_arp = not ctx.excl.get(ARP_PORT)
    per_unit = 8 if ctx.tier == "quick" else 120
    from ..harness import enum_run

    enum_run(ctx, enum_cases(ctx.tier), run_case)
    ctx.extra["exhaustive"] = True
    ctx.extra["exhaustive_domain"] = (
        "every rule list on the hA-hB path (router ACL of R1/R2 in both directions, all six firewall lists via the six "
        "ordered zone pairs: 18 placement x list combinations) x 34 rule shapes (10 address/protocol shapes, 24 port rules: "
        "dst-port only / src-port only / both x tcp|any x address qualifier) x installation from the scenario file "
        "(complete) and by request / Python API (both in thorough; one of them for every second combination in quick), each with a fixed short "
        "attack on the blocked service")
    # strata dealt to workers heaviest first, each to the currently lightest worker (deterministic)
    load = [0] * ctx.n
    mine = []
    for k_, (fam, mech, w) in sorted(enumerate(strata()), key=lambda x: (-x[1][2], x[0])):
        tgt = min(range(ctx.n), key=lambda i_: (load[i_], i_))
        load[tgt] += w
        if tgt == ctx.idx:
            mine.append((k_, fam, mech, w))
    for j_, (k_, fam, mech, w) in enumerate(mine):
        hyp_run(ctx, case_strategy(ctx.tier, fam, mech, allow_instant, allow_arp), run_case, per_unit * w, sub=j_ % 10)
    for k_, v_ in STATS.items():
        ctx.extra["monitor:" + k_] = int(v_)
    ctx.extra["strata"] = "52 equally weighted strata: 5 families x block mechanism (ACL split into 7 groups of rule shapes)"
    if not allow_instant:
        ctx.extra["excluded:" + INSTANT_OFF] = "power-off blocks are generated with shut_down_duration >= 1 while open"
    if not allow_arp:
        ctx.extra["excluded:" + ARP_PORT] = "behind a router-ACL block nmap port scans leave out UDP/ARP-port while open"
