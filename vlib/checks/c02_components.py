"""C02, component layer (DESIGN §C02(b)) — add-on to c02.py.

For every ``AbstractObservation`` subclass of ``primaite.game.agent.observations`` the observation object is built
through its ``from_config`` from a documented ``ConfigSchema``; a REAL ``describe_state()`` of a tiny simulation (the
"zoo": switch, two hosts, router, firewall, four links; NMNE capture on or off) is taken once per process and
mutated on exactly the leaves the observation reads. Oracle: ``obs.space.contains(obs.observe(state))``.

A case is ``{"layer": "component", "type": <discriminator>, "cfg": <ConfigSchema kwargs>, "pw": <parent_where>,
"zoo": "nmne_on"|"nmne_off", "ops": [...]}`` with ops

* ``["set", path, value]``   assign a leaf of the state (paths are lists, so integer keys survive JSON)
* ``["del", path]``          remove a key (component absent / deleted / uninstalled)
* ``["obs"]``                observe and check (a final observe is implied)

or ``{"layer": "component", "type": "env", "scn": {...}, "ops": [["act", k] | ["reset"]]}``: a hand-built
environment with biased histories (one FTP transfer of a big file over a 1000 Mbit link, DoS bot burst, several
file creations in one tick, remote logins up to the session cap) checked exactly like the environment layer.

Soundness: generators only emit values the simulator can produce — members of the simulator enums (read from the
enum classes at run time), non-negative counts, booleans, at most ``max_remote_sessions`` remote sessions,
monotone cumulative NMNE counters, per protocol/port NIC traffic between 0 and 10x the interface's nominal ``speed``
(nothing in the simulator enforces ``speed``; traffic is bounded by the *link* bandwidth, which the scenario sets
freely — the property text names "traffic above an interface's nominal speed"), link load 0..10x bandwidth.
"""
from __future__ import annotations

import copy
import itertools
import json
from typing import Any, Dict, Iterable, List, Optional, Tuple

from gymnasium import spaces
from hypothesis import strategies as st

from ..harness import CaseResult, Ctx, enum_run, hyp_run
from ..simutil import base_cfg, computer, exc_msg, exc_sig, link, new_env, new_game, switch

# ---------------------------------------------------------------------------------------------------------------------
# the zoo: one tiny simulation that has every kind of component an observation can read

H0 = ["network", "nodes", "h0"]
H1 = ["network", "nodes", "h1"]
R0 = ["network", "nodes", "r0"]
FW = ["network", "nodes", "fw"]
NODES = ["network", "nodes"]
LINKS = ["network", "links"]
SVC = H0 + ["services", "ftp-server"]
APP = H0 + ["applications", "database-client"]
FS = H0 + ["file_system"]
FOLDER = FS + ["folders", "docs"]
FILE = FOLDER + ["files", "a.txt"]
NIC1 = H0 + ["NICs", 1]
USM = ["services", "user-session-manager"]
FW_ACLS = ["internal_inbound_acl", "internal_outbound_acl", "dmz_inbound_acl", "dmz_outbound_acl",
           "external_inbound_acl", "external_outbound_acl"]

# the four lists have pairwise DIFFERENT lengths (2, 3, 4, 1) and the generators use the LAST listed element of each,
# so a space that sizes one field from another field's list cannot go unnoticed
IP_LISTED = ["192.168.1.10", "192.168.1.11"]
IP_UNLISTED = "172.16.9.9"
WC_LISTED = ["0.0.0.1", "0.0.0.255", "0.0.255.255"]
WC_UNLISTED = "0.255.255.255"
PORT_LISTED = ["HTTP", "POSTGRES_SERVER", "DNS", "FTP"]  # 80, 5432, 53, 21
PORT_LISTED_NUM = [80, 5432, 53, 21]
PORT_UNLISTED_NUM = 22
PROTO_LISTED = ["TCP"]
PROTO_UNLISTED = "udp"
ACL_LISTS = {"ip_list": IP_LISTED, "wildcard_list": WC_LISTED, "port_list": PORT_LISTED, "protocol_list": PROTO_LISTED}
ACL_LISTS_EMPTY = {"ip_list": [], "wildcard_list": [], "port_list": [], "protocol_list": []}
# a second set with the length order REVERSED (4, 1, 2, 3): sizing a field from another field's list only shows when the
# field's own list is the longer one, so both orders are needed
IP_LISTED_B = ["192.168.1.10", "192.168.1.11", "192.168.1.12", "192.168.1.13"]
WC_LISTED_B = ["0.0.0.1"]
PORT_LISTED_B = ["HTTP", "DNS"]
PORT_LISTED_B_NUM = [80, 53]
PROTO_LISTED_B = ["ICMP", "TCP", "UDP"]
ACL_LISTS_B = {"ip_list": IP_LISTED_B, "wildcard_list": WC_LISTED_B, "port_list": PORT_LISTED_B, "protocol_list": PROTO_LISTED_B}


def zoo_cfg(nmne: bool) -> Dict:
    acl = {
        1: {"action": "DENY", "protocol": "TCP", "src_ip": "192.168.1.10", "src_wildcard_mask": "0.0.0.1",
            "dst_ip": "10.0.0.2", "dst_port": "HTTP", "src_port": "HTTP"},
        22: {"action": "PERMIT"},
    }
    nodes = [
        switch("sw", 8, start_up_duration=0, shut_down_duration=0),
        computer("h0", "192.168.1.10", gw="192.168.1.1", start_up_duration=0, shut_down_duration=0,
                 services=[{"type": "ftp-server"}],
                 applications=[{"type": "database-client", "options": {"db_server_ip": "192.168.1.11"}}],
                 folders=[{"folder_name": "docs", "files": [{"file_name": "a.txt"}, {"file_name": "b.avi", "type": "AVI"}]}]),
        computer("h1", "192.168.1.11", gw="192.168.1.1", kind="server", start_up_duration=0, shut_down_duration=0,
                 services=[{"type": "database-service"}]),
        {"type": "router", "hostname": "r0", "num_ports": 3, "start_up_duration": 0, "shut_down_duration": 0,
         "ports": {1: {"ip_address": "192.168.1.1", "subnet_mask": "255.255.255.0"},
                   2: {"ip_address": "10.0.0.1", "subnet_mask": "255.255.255.252"}},
         "acl": acl},
        {"type": "firewall", "hostname": "fw", "start_up_duration": 0, "shut_down_duration": 0,
         "ports": {"internal_port": {"ip_address": "10.0.0.2", "subnet_mask": "255.255.255.252"},
                   "dmz_port": {"ip_address": "192.168.3.1", "subnet_mask": "255.255.255.0"},
                   "external_port": {"ip_address": "192.168.4.1", "subnet_mask": "255.255.255.0"}},
         "acl": {n: copy.deepcopy(acl) for n in FW_ACLS}},
    ]
    links = [link("sw", 1, "h0", 1, 1000), link("sw", 2, "h1", 1), link("sw", 8, "r0", 1), link("r0", 2, "fw", 2, 0.05)]
    extra = {"nmne_config": {"capture_nmne": bool(nmne), "nmne_capture_keywords": ["DELETE"]}}
    return base_cfg(nodes, links, network_extra=extra)


_BASE: Dict[str, Dict] = {}


def base_state(zoo: str) -> Dict:
    """Real describe_state() of the zoo (deterministic: entropy and RNGs are reset by new_game). Built once per process
    and never mutated: cases work on a copy-on-write view."""
    if zoo not in _BASE:
        game = new_game(zoo_cfg(zoo == "nmne_on"))
        sim = game.simulation
        # real events, so that traffic / load / nmne leaves have the shapes the simulator emits
        sim.apply_request(["network", "node", "h0", "application", "database-client", "execute"])
        _BASE[zoo] = game.get_sim_state()
    return _BASE[zoo]


class Cow:
    """Copy-on-write view of a nested dict: only the dicts on a mutated path are copied."""

    def __init__(self, base: Dict):
        self.root = dict(base)
        self._own = {id(self.root)}

    def _dir(self, path: List, create_from: Optional[int] = None) -> Optional[Dict]:
        """Owned dict at path; missing levels are created only at depth >= create_from (else None is returned)."""
        node = self.root
        for depth, k in enumerate(path):
            child = node.get(k)
            if not isinstance(child, dict):
                if create_from is None or depth < create_from:
                    return None
                child = {}
                node[k] = child
                self._own.add(id(child))
            elif id(child) not in self._own:
                child = dict(child)
                node[k] = child
                self._own.add(id(child))
            node = child
        return node

    def set(self, path: List, value: Any):
        """Assign a leaf. If the component that holds the leaf is absent (deleted earlier in the case) this is a no-op:
        a half-built component is not a state the simulator emits. Only below a NIC's per-tick ``traffic`` dict are
        missing protocol / port levels created, as the simulator does when it first sees such a frame."""
        parent = path[:-1]
        d = self._dir(parent, parent.index("traffic") + 1 if "traffic" in parent else None)
        if d is not None:
            d[path[-1]] = copy.deepcopy(value)

    def delete(self, path: List):
        d = self._dir(path[:-1])
        if d is not None:
            d.pop(path[-1], None)


# ---------------------------------------------------------------------------------------------------------------------
# oracle


def _norm_path(path):
    from .c02 import norm_path

    return norm_path(path)


def all_offenders(space, obs, path: List[Any]) -> List[List[Any]]:
    """Every leaf / structural mismatch that puts obs outside space (c02.find_offender stops at the first one, which
    would let a known offender mask an unknown one)."""
    if isinstance(space, spaces.Dict):
        if not isinstance(obs, dict):
            return [path + ["<not-a-dict>"]]
        out = []
        for k, sub in space.spaces.items():
            if k not in obs:
                out.append(path + [k, "<missing>"])
            else:
                out.extend(all_offenders(sub, obs[k], path + [k]))
        out.extend(path + [k, "<extra>"] for k in obs if k not in space.spaces)
        return out
    if isinstance(space, spaces.Tuple):
        out = []
        for i, sub in enumerate(space.spaces):
            out.extend(all_offenders(sub, obs[i], path + [i]))
        return out
    try:
        ok = space.contains(obs)
    except Exception:
        ok = False
    return [] if ok else [path + [f"<{type(space).__name__}>"]]


def leaf_at(obs, path):
    for k in path:
        try:
            obs = obs[k]
        except Exception:
            return "<n/a>"
    return obs


def count_nondefault(obs, default) -> int:
    if isinstance(obs, dict) and isinstance(default, dict):
        return sum(count_nondefault(v, default.get(k)) for k, v in obs.items())
    try:
        return 0 if obs == default else 1
    except Exception:
        return 1


def build_observation(case: Dict):
    from primaite.game.agent.observations.nic_observations import NICObservation
    from primaite.game.agent.observations.observations import AbstractObservation

    cls = AbstractObservation._registry[case["type"]]
    # the class-level switch PrimaiteGame.from_config sets from the scenario's nmne_config; keep it consistent with the
    # zoo variant whose state is observed
    NICObservation.capture_nmne = case.get("zoo", "nmne_on") == "nmne_on"
    cfg = cls.ConfigSchema(**copy.deepcopy(case.get("cfg", {})))
    return cls, cls.from_config(cfg, parent_where=list(case.get("pw", [])))


def run_case(case: Dict) -> CaseResult:
    if case.get("type") == "env":
        return run_env_case(case)
    from .c02 import find_offender

    res = CaseResult()
    try:
        cls, ob = build_observation(case)
        space = ob.space
    except Exception as e:  # configs are inside the documented schema: construction must not raise
        res.violate(f"component:{case['type']}:raise:config:{exc_sig(e)}", exc_msg(e))
        res.label("cmp:" + str(case["type"]))
        return res
    name = cls.__name__
    state = Cow(base_state(case.get("zoo", "nmne_on")))
    ops = list(case["ops"])
    if not ops or ops[-1][0] != "obs":
        ops.append(["obs"])
    rich = 0
    n_obs = 0
    for i, op in enumerate(ops):
        if op[0] == "set":
            state.set(op[1], op[2])
            continue
        if op[0] == "del":
            state.delete(op[1])
            continue
        n_obs += 1
        try:
            o = ob.observe(state.root)
        except Exception as e:  # the driver boundary: an observe() that raises on a producible state breaks step/reset
            res.violate(f"component:{name}:raise:{exc_sig(e)}", f"op#{i}: observe raised {exc_msg(e)}")
            break
        try:
            ok = bool(space.contains(o))
        except Exception:
            ok = False
        if not ok:
            offs = all_offenders(space, o, [])
            first = find_offender(space, o, [])
            if not offs or first != offs[0]:
                raise AssertionError(f"harness: offender walkers disagree: {first} vs {offs[:1]}")
            for off in offs:
                res.violate(f"component:{name}:{_norm_path(off)}",
                            f"op#{i}: {describe_offender(space, o, off)}")
        if count_nondefault(o, ob.default_observation) >= 1:
            rich += 1
    try:
        same = ob.space == space
    except Exception:
        same = False
    if not same:
        res.violate(f"component:{name}:space-changed", "space after observing differs from the space before")
    res.nontrivial = rich >= 1
    res.label("cmp:" + name, "cmp:rich" if rich else "cmp:default-only")
    for lab in case.get("labels", []):
        res.label("cmp:" + lab)
    return res


def describe_offender(space, obs, off) -> str:
    if off[-1] == "<missing>":
        return f"key {off[:-1]} is declared by the space ({leaf_at_space(space, off[:-1])}) but missing from the observation"
    if off[-1] == "<extra>":
        return f"key {off[:-1]} = {leaf_at(obs, off[:-1])!r} is in the observation but not declared by the space"
    return f"leaf {off} = {leaf_at(obs, off[:-1])!r} not in {leaf_at_space(space, off[:-1])}"


def leaf_at_space(space, path):
    for k in path:
        try:
            space = space.spaces[k]
        except Exception:
            return "<n/a>"
    return space


# ---------------------------------------------------------------------------------------------------------------------
# value domains (read from the simulator at run time)


def enum_values() -> Dict[str, List[int]]:
    from primaite.simulator.file_system.file_system_item_abc import FileSystemItemHealthStatus
    from primaite.simulator.network.hardware.node_operating_state import NodeOperatingState
    from primaite.simulator.network.hardware.nodes.network.router import ACLAction
    from primaite.simulator.system.applications.application import ApplicationOperatingState
    from primaite.simulator.system.services.service import ServiceOperatingState
    from primaite.simulator.system.software import SoftwareHealthState

    return {
        "node": [m.value for m in NodeOperatingState],
        "service": [m.value for m in ServiceOperatingState],
        "application": [m.value for m in ApplicationOperatingState],
        "software_health": [m.value for m in SoftwareHealthState],
        "fs_health": [m.value for m in FileSystemItemHealthStatus],
        "acl_action": [m.value for m in ACLAction],
    }


def session_cap() -> int:
    from primaite.simulator.network.hardware.base import UserSessionManager

    return int(UserSessionManager.model_fields["max_remote_sessions"].default)


THRESHOLD_SETS = [None, (1, 2, 3), (0, 20, 21)]


def thr(key: str, t) -> Dict:
    return {} if t is None else {key: {"low": t[0], "medium": t[1], "high": t[2]}}


def count_points(t) -> List[int]:
    lo, me, hi = t if t is not None else (0, 5, 10)
    return sorted({0, lo, lo + 1, me, me + 1, hi, hi + 1, hi + 5, 10**6})


def band_points(cap: float) -> List[float]:
    """Traffic / load values around every band edge of int(util*9)+1, up to 10x the nominal capacity."""
    pts = [0.0, cap * 1e-9, cap / 18, cap / 9, cap * 0.5, cap * 8.999 / 9, cap, cap * 1.05, cap * 10 / 9, cap * 2, cap * 10]
    return pts


def mk(typ: str, cfg: Dict, pw: List, ops: List, zoo: str = "nmne_on", labels: Optional[List[str]] = None) -> Dict:
    c = {"layer": "component", "type": typ, "cfg": cfg, "pw": pw, "zoo": zoo, "ops": ops}
    if labels:
        c["labels"] = labels
    return c


def S(path, value):
    return ["set", list(path), value]


def D(path):
    return ["del", list(path)]


OBS = ["obs"]

# ---------------------------------------------------------------------------------------------------------------------
# exhaustive (finite) parts, one generator per observation class


def ex_service(E) -> Iterable[Dict]:
    for scan in (True, False, None):
        cfg = {"service_name": "ftp-server", "services_requires_scan": scan}
        for op, ha, hv in itertools.product(E["service"], E["software_health"], E["software_health"]):
            yield mk("service", cfg, H0, [S(SVC + ["operating_state"], op), S(SVC + ["health_state_actual"], ha),
                                            S(SVC + ["health_state_visible"], hv)])
        yield mk("service", cfg, H0, [D(SVC)], labels=["absent"])
        yield mk("service", cfg, H0, [D(H0)], labels=["absent"])
        yield mk("service", {"service_name": "nope", "services_requires_scan": scan}, H0, [], labels=["absent"])


def ex_application(E) -> Iterable[Dict]:
    for scan, t in itertools.product((True, False), THRESHOLD_SETS):
        cfg = {"application_name": "database-client", "applications_requires_scan": scan,
               "thresholds": thr("app_executions", t)}
        for op, ha, hv, n in itertools.product(E["application"], E["software_health"], E["software_health"],
                                               count_points(t)):
            yield mk("application", cfg, H0, [S(APP + ["operating_state"], op), S(APP + ["health_state_actual"], ha),
                                                S(APP + ["health_state_visible"], hv), S(APP + ["num_executions"], n)])
        yield mk("application", cfg, H0, [D(APP)], labels=["absent"])


def ex_file(E) -> Iterable[Dict]:
    for scan, acc, t in itertools.product((True, False), (True, False, None), THRESHOLD_SETS):
        cfg = {"file_name": "a.txt", "include_num_access": acc, "file_system_requires_scan": scan,
               "thresholds": thr("file_access", t)}
        for hs, vs, n in itertools.product(E["fs_health"], E["fs_health"], count_points(t)):
            yield mk("file", cfg, FOLDER, [S(FILE + ["health_status"], hs), S(FILE + ["visible_status"], vs),
                                           S(FILE + ["num_access"], n)])
        yield mk("file", cfg, FOLDER, [D(FILE)], labels=["absent"])
        yield mk("file", cfg, FOLDER, [D(FOLDER)], labels=["absent"])


def ex_folder(E) -> Iterable[Dict]:
    for scan, acc, nf in itertools.product((True, False), (True, False), (0, 1, 3)):
        cfg = {"folder_name": "docs", "files": [{"file_name": "a.txt"}, {"file_name": "gone.txt"}][: min(nf, 2)],
               "num_files": nf, "include_num_access": acc, "file_system_requires_scan": scan}
        for hs, vs, sc in itertools.product(E["fs_health"], E["fs_health"], (True, False)):
            # two observations: the second one flips scanned_this_step (the cached branch)
            yield mk("folder", cfg, H0, [S(FOLDER + ["health_status"], hs), S(FOLDER + ["visible_status"], vs),
                                          S(FOLDER + ["scanned_this_step"], sc), S(FILE + ["health_status"], hs),
                                          S(FILE + ["num_access"], 11), OBS,
                                          S(FOLDER + ["scanned_this_step"], not sc), OBS])
        yield mk("folder", cfg, H0, [D(FOLDER)], labels=["absent"])
        yield mk("folder", cfg, H0, [D(FILE)], labels=["absent"])


MONITORED = [None, {"icmp": ["NONE"]}, {"tcp": ["HTTP", "FTP"], "udp": ["DNS"]}, {"icmp": ["NONE"], "tcp": ["POSTGRES_SERVER"]}]
PORTNUM = {"HTTP": 80, "FTP": 21, "DNS": 53, "POSTGRES_SERVER": 5432, "NONE": 0}


def traffic_leaves(mon: Optional[Dict]) -> List[List]:
    out = []
    for proto, ports in (mon or {}).items():
        if proto == "icmp":
            out.append(["icmp"])
        else:
            out.extend([proto, PORTNUM[p]] for p in ports)
    return out


def nmne_value(inb: int, outb: int) -> Dict:
    d: Dict[str, Any] = {}
    if inb or outb:
        d["direction"] = {}
        if inb:
            d["direction"]["inbound"] = {"keywords": {"*": inb}}
        if outb:
            d["direction"]["outbound"] = {"keywords": {"*": outb}}
    return d


def ex_nic(E, speed: float) -> Iterable[Dict]:
    for zoo, nmne, mon, en in itertools.product(("nmne_on", "nmne_off"), (True, False, None), MONITORED, (True, False)):
        cfg = {"nic_num": 1, "include_nmne": nmne, "monitored_traffic": mon}
        leaves = traffic_leaves(mon)
        base_ops = [S(NIC1 + ["enabled"], en)]
        # traffic: every band edge, inbound and outbound separately, protocol entry absent / port entry absent
        for v in band_points(speed) if leaves else [0.0]:
            for direction in ("inbound", "outbound"):
                ops = list(base_ops) + [S(NIC1 + ["traffic"], {})]
                for lf in leaves:
                    ops.append(S(NIC1 + ["traffic"] + lf, {"inbound": 0.0, "outbound": 0.0}))
                    ops.append(S(NIC1 + ["traffic"] + lf + [direction], v))
                yield mk("network-interface", cfg, H0, ops, zoo, labels=["traffic>speed"] if v > speed else None)
        yield mk("network-interface", cfg, H0, base_ops + [S(NIC1 + ["traffic"], {})], zoo)
        if mon and "tcp" in mon:
            yield mk("network-interface", cfg, H0, base_ops + [S(NIC1 + ["traffic"], {}), S(NIC1 + ["traffic", "tcp", 9999],
                                                                  {"inbound": 1.0, "outbound": 1.0})], zoo)
        # NMNE: cumulative counters over three observations, default and custom thresholds
        if zoo == "nmne_on":
            for t in THRESHOLD_SETS:
                c = dict(cfg, thresholds=thr("nmne", t))
                pts = count_points(t)
                ops = list(base_ops)
                tot = 0
                for p in pts:
                    tot += p
                    ops += [S(NIC1 + ["nmne"], nmne_value(tot, tot if p % 2 else 0)), OBS]
                yield mk("network-interface", c, H0, ops, zoo, labels=["nmne-seq"])
        yield mk("network-interface", cfg, H0, [D(NIC1)], zoo, labels=["absent"])
        yield mk("network-interface", dict(cfg, nic_num=2), H0, [], zoo, labels=["absent"])


def ex_port(E) -> Iterable[Dict]:
    for pid in (1, 2, 3, 4):
        for en in (True, False):
            yield mk("port", {"port_id": pid}, R0, [S(R0 + ["NICs", pid, "enabled"], en)] if pid <= 3 else [])
        yield mk("port", {"port_id": pid}, R0, [D(R0 + ["NICs", pid])], labels=["absent"])
    yield mk("port", {"port_id": 1}, R0, [D(R0)], labels=["absent"])


def acl_rule(action, proto, sip, swc, sport, dip, dwc, dport) -> Dict:
    return {"uuid": "00000000-0000-4000-8000-000000000001", "action": action, "protocol": proto, "src_ip_address": sip,
            "src_wildcard_mask": swc, "src_port": sport, "dst_ip_address": dip, "dst_wildcard_mask": dwc,
            "dst_port": dport, "match_count": 0}


def ex_acl(E) -> Iterable[Dict]:
    ips = [None, IP_LISTED[-1], IP_UNLISTED]
    wcs = [None, WC_LISTED[-1], WC_UNLISTED]
    pts = [None, PORT_LISTED_NUM[-1], PORT_UNLISTED_NUM]
    prs = [None, "tcp", PROTO_UNLISTED]
    table = R0 + ["acl", "acl"]
    for lists, nr in ((ACL_LISTS, 3), (ACL_LISTS_EMPTY, 1), (ACL_LISTS, 24)):
        cfg = dict(lists, num_rules=nr)
        positions = sorted({0, nr - 1})
        if nr == 3:
            combos = itertools.product(E["acl_action"], prs, ips, wcs, pts, ips, wcs, pts)
        else:
            combos = [(a, p, i, w, q, i, w, q) for a, p, i, w, q in
                      itertools.product(E["acl_action"], prs, ips, wcs, pts)]
        for combo in combos:
            for pos in positions:
                yield mk("acl", cfg, R0, [S(table + [pos], acl_rule(*combo))])
        yield mk("acl", cfg, R0, [S(table + [p], None) for p in range(24)], labels=["empty-table"])
        yield mk("acl", cfg, R0, [D(R0)], labels=["absent"])
    cfg_b = dict(ACL_LISTS_B, num_rules=2)
    for a, p, i, w, q in itertools.product(E["acl_action"], [None, "udp", "icmp"], [None, IP_LISTED_B[-1], IP_UNLISTED],
                                           [None, WC_LISTED_B[-1], WC_UNLISTED], [None, PORT_LISTED_B_NUM[-1], PORT_UNLISTED_NUM]):
        for pos in (0, 1):
            yield mk("acl", cfg_b, R0, [S(table + [pos], acl_rule(a, p, i, w, q, i, w, q))], labels=["lists-b"])


def host_cfg(users, acc, mon=None, nmne=True, hostname="h0", thresholds=None) -> Dict:
    c = {"hostname": hostname,
         "services": [{"service_name": "ftp-server"}, {"service_name": "nope"}],
         "applications": [{"application_name": "database-client"}],
         "folders": [{"folder_name": "docs", "files": [{"file_name": "a.txt"}]}],
         "num_services": 3, "num_applications": 2, "num_folders": 2, "num_files": 2, "num_nics": 2,
         "include_nmne": nmne, "monitored_traffic": mon, "include_num_access": acc, "include_users": users,
         "file_system_requires_scan": False, "services_requires_scan": True, "applications_requires_scan": False}
    if thresholds:
        c["thresholds"] = thresholds
    return c


def sessions_value(n: int) -> List[str]:
    return [f"00000000-0000-4000-8000-{i:012d}" for i in range(n)]


def ex_host(E, cap: int) -> Iterable[Dict]:
    usm = H0 + USM
    for users, acc in itertools.product((True, False), (True, False)):
        cfg = host_cfg(users, acc, mon={"tcp": ["FTP"]})
        for nos, ns, local, cr, de in itertools.product(E["node"], range(cap + 1), (None, "admin"),
                                                        (0, 1, 3, 4, 9, 10**6), (0, 4)):
            yield mk("host", cfg, [], [S(H0 + ["operating_state"], nos), S(usm + ["active_remote_sessions"], sessions_value(ns)),
                                       S(usm + ["current_local_user"], local), S(FS + ["num_file_creations"], cr),
                                       S(FS + ["num_file_deletions"], de)])
        yield mk("host", cfg, [], [D(H0)], labels=["absent"])
        yield mk("host", dict(cfg, hostname="ghost"), [], [], labels=["absent"])
        # interfaces listed explicitly (one present, one absent) instead of "the first num_nics"
        nic_cfg = dict(cfg, network_interfaces=[{"nic_num": 1, "monitored_traffic": {"icmp": ["NONE"], "udp": ["DNS"]}},
                                                {"nic_num": 5}], num_nics=3)
        for nos, en in itertools.product(E["node"], (True, False)):
            yield mk("host", nic_cfg, [], [S(H0 + ["operating_state"], nos), S(NIC1 + ["enabled"], en),
                                           S(NIC1 + ["traffic", "udp", 53], {"inbound": 50.0, "outbound": 0.0}),
                                           S(NIC1 + ["traffic", "icmp"], {"inbound": 0.0, "outbound": 100.0})])
        # inner components at every enum member while the node itself is in every power state
        for nos in E["node"]:
            for v in E["service"]:
                yield mk("host", cfg, [], [S(H0 + ["operating_state"], nos), S(SVC + ["operating_state"], v)])
            for v in E["software_health"]:
                yield mk("host", cfg, [], [S(H0 + ["operating_state"], nos), S(SVC + ["health_state_visible"], v),
                                           S(APP + ["health_state_actual"], v)])
            for v in E["fs_health"]:
                yield mk("host", cfg, [], [S(H0 + ["operating_state"], nos), S(FOLDER + ["health_status"], v),
                                           S(FILE + ["health_status"], v)])
            for v in E["application"]:
                yield mk("host", cfg, [], [S(H0 + ["operating_state"], nos), S(APP + ["operating_state"], v)])


def router_cfg(users, nports, lists=ACL_LISTS, nr=3, hostname="r0") -> Dict:
    return dict(lists, hostname=hostname, num_ports=nports, num_rules=nr, include_users=users)


def ex_router(E, cap: int) -> Iterable[Dict]:
    usm = R0 + USM
    table = R0 + ["acl", "acl"]
    rules = [None, acl_rule(E["acl_action"][0], None, None, None, None, None, None, None),
             acl_rule(E["acl_action"][-1], PROTO_UNLISTED, IP_UNLISTED, WC_UNLISTED, PORT_UNLISTED_NUM, IP_LISTED[0],
                      WC_LISTED[0], PORT_LISTED_NUM[0])]
    for users, nports in itertools.product((True, False, None), (0, 2, 4)):
        cfg = router_cfg(users, nports)
        for nos, ns, local, en, rule in itertools.product(E["node"], range(cap + 1), (None, "admin"), (True, False), rules):
            yield mk("router", cfg, NODES, [S(R0 + ["operating_state"], nos), S(usm + ["active_remote_sessions"], sessions_value(ns)),
                                            S(usm + ["current_local_user"], local), S(R0 + ["NICs", 1, "enabled"], en),
                                            S(table + [0], rule)])
        yield mk("router", cfg, NODES, [D(R0)], labels=["absent"])
        yield mk("router", dict(cfg, hostname="ghost"), NODES, [], labels=["absent"])


def ex_firewall(E, cap: int) -> Iterable[Dict]:
    usm = FW + USM
    rules = [None, acl_rule(E["acl_action"][0], None, None, None, None, None, None, None),
             acl_rule(E["acl_action"][-1], PROTO_UNLISTED, IP_UNLISTED, WC_UNLISTED, PORT_UNLISTED_NUM, IP_LISTED[0],
                      WC_LISTED[0], PORT_LISTED_NUM[0])]
    for users, (lists, nr) in itertools.product((True, False, None), ((ACL_LISTS, 2), (ACL_LISTS_EMPTY, 24))):
        cfg = dict(lists, hostname="fw", num_rules=nr, include_users=users)
        for nos, ns, local, en, rule in itertools.product(E["node"], range(cap + 1), (None, "admin"), (True, False), rules):
            ops = [S(FW + ["operating_state"], nos), S(usm + ["active_remote_sessions"], sessions_value(ns)),
                   S(usm + ["current_local_user"], local)]
            ops += [S(FW + ["NICs", p, "enabled"], en) for p in (1, 2, 3)]
            ops += [S(FW + [a, "acl", nr - 1], rule) for a in FW_ACLS]
            yield mk("firewall", cfg, NODES, ops)
        yield mk("firewall", cfg, NODES, [D(FW)], labels=["absent"])


def link_refs(state: Dict) -> Dict[str, float]:
    return {ref: float(v["bandwidth"]) for ref, v in state["network"]["links"].items()}


def ex_link(E, refs: Dict[str, float]) -> Iterable[Dict]:
    for ref, bw in refs.items():
        rev = "<->".join(ref.split("<->")[::-1])
        for r in (ref, rev):
            for v in band_points(bw):
                yield mk("link", {"link_reference": r}, [], [S(LINKS + [ref, "current_load"], v)],
                         labels=["load>bandwidth"] if v > bw else None)
            yield mk("link", {"link_reference": r}, [], [D(LINKS + [ref])], labels=["absent"])
    yield mk("link", {"link_reference": "ghost:eth-1<->h0:eth-9"}, [], [], labels=["absent"])


def ex_links(E, refs: Dict[str, float]) -> Iterable[Dict]:
    names = list(refs)
    cfg = {"link_references": names + ["ghost:eth-1<->h0:eth-9"]}
    for k in range(11):
        ops = []
        for j, ref in enumerate(names):
            pts = band_points(refs[ref])
            ops.append(S(LINKS + [ref, "current_load"], pts[(k + j) % len(pts)]))
        yield mk("links", cfg, [], ops)
    yield mk("links", cfg, [], [D(LINKS + [names[0]])], labels=["absent"])
    yield mk("links", {"link_references": []}, [], [])


def nodes_cfg(mon=None, acc=True, users=True, nmne=True) -> Dict:
    h = host_cfg(None, None)
    for k in ("num_services", "num_applications", "num_folders", "num_files", "num_nics", "include_nmne",
              "monitored_traffic", "include_num_access", "include_users", "file_system_requires_scan",
              "services_requires_scan", "applications_requires_scan"):
        h.pop(k)
    return dict(ACL_LISTS, hosts=[h, {"hostname": "h1", "services": [{"service_name": "database-service"}]},
                                  {"hostname": "ghost"}],
                routers=[{"hostname": "r0"}], firewalls=[{"hostname": "fw"}],
                num_services=2, num_applications=1, num_folders=1, num_files=2, num_nics=1, include_nmne=nmne,
                monitored_traffic=mon, include_num_access=acc, include_users=users, num_ports=3, num_rules=4,
                file_system_requires_scan=True, services_requires_scan=False, applications_requires_scan=True)


def nested_cfg(refs, mon=None, thresholds=None) -> Dict:
    comps = [{"type": "nodes", "label": "NODES", "options": nodes_cfg(mon)},
             {"type": "links", "label": "LINKS", "options": {"link_references": list(refs)}},
             {"type": "none", "label": "ICS", "options": {}},
             {"type": "host", "label": "LONE_HOST", "options": host_cfg(True, True, mon)},
             {"type": "link", "label": "LONE_LINK", "options": {"link_reference": list(refs)[0]}}]
    c: Dict[str, Any] = {"components": comps}
    if thresholds:
        c["thresholds"] = thresholds
    return c


def ex_nodes(E) -> Iterable[Dict]:
    for zoo in ("nmne_on", "nmne_off"):
        cfg = nodes_cfg(mon={"icmp": ["NONE"], "tcp": ["FTP"]})
        for a, b, c, d in itertools.product(E["node"], repeat=4):
            yield mk("nodes", cfg, [], [S(H0 + ["operating_state"], a), S(H1 + ["operating_state"], b),
                                        S(R0 + ["operating_state"], c), S(FW + ["operating_state"], d)], zoo)
    yield mk("nodes", {}, [], [])
    yield mk("nodes", nodes_cfg(), [], [D(["network", "nodes"]), S(["network", "nodes"], {})], labels=["absent"])


def ex_nested(E, refs) -> Iterable[Dict]:
    for t in THRESHOLD_SETS:
        th = {}
        for k in ("nmne", "file_access", "app_executions"):
            th.update(thr(k, t))
        cfg = nested_cfg(refs, {"udp": ["DNS"], "tcp": ["FTP"]}, th)
        for nos in E["node"]:
            for n in count_points(t):
                yield mk("custom", cfg, [], [S(H0 + ["operating_state"], nos), S(APP + ["num_executions"], n),
                                             S(FILE + ["num_access"], n), S(FS + ["num_file_creations"], n),
                                             S(NIC1 + ["nmne"], nmne_value(n, n))])
    yield mk("custom", {"components": []}, [], [])
    yield mk("none", {}, [], [])


def exhaustive_cases(tier: str) -> Iterable[Dict]:
    E = enum_values()
    st0 = base_state("nmne_on")
    speed = float(st0["network"]["nodes"]["h0"]["NICs"][1]["speed"])
    refs = link_refs(st0)
    cap = session_cap()
    return itertools.chain(
        ex_service(E), ex_application(E), ex_file(E), ex_folder(E), ex_nic(E, speed), ex_port(E), ex_acl(E),
        ex_host(E, cap), ex_router(E, cap), ex_firewall(E, cap), ex_link(E, refs), ex_links(E, refs), ex_nodes(E),
        ex_nested(E, refs),
    )


COVERED_TYPES = {"service", "application", "file", "folder", "network-interface", "port", "acl", "host", "router",
                 "firewall", "link", "links", "nodes", "custom", "none"}

# ---------------------------------------------------------------------------------------------------------------------
# Hypothesis part: numeric leaves and whole-state fuzzing


def thresholds_strategy(keys=("nmne", "file_access", "app_executions")):
    triple = st.lists(st.integers(0, 30), min_size=3, max_size=3, unique=True).map(sorted)

    def build(parts):
        out = {}
        for k, t in zip(keys, parts):
            out.update(thr(k, t))
        return out

    return st.tuples(*[st.one_of(st.none(), triple) for _ in keys]).map(build)


def top_of(thresholds: Dict, key: str) -> int:
    return int(thresholds[key]["high"]) if key in thresholds else 10


def count_strategy(top: int):
    return st.one_of(st.integers(0, top + 5), st.integers(0, top + 5), st.sampled_from([top + 6, 100, 10**6, 2**31, 10**12]))


def amount_strategy(cap: float):
    """Traffic or load between 0 and 10x the nominal capacity, biased to the band edges k*cap/9."""
    edges = st.integers(0, 90).flatmap(lambda k: st.sampled_from([k * cap / 9, k * cap / 9 * (1 - 1e-9), k * cap / 9 * (1 + 1e-9)]))
    return st.one_of(st.just(0.0), st.floats(0, cap, allow_nan=False), st.floats(0, 10 * cap, allow_nan=False), edges,
                     st.floats(0, cap * 1e-6, allow_nan=False))


@st.composite
def nic_case(draw, speed: float):
    zoo = draw(st.sampled_from(["nmne_on", "nmne_on", "nmne_off"]))
    protos = draw(st.lists(st.sampled_from(["icmp", "tcp", "udp"]), unique=True, max_size=3))
    mon = {}
    for p in protos:
        mon[p] = ["NONE"] if p == "icmp" else draw(st.lists(st.sampled_from(["HTTP", "FTP", "DNS", "POSTGRES_SERVER"]),
                                                             min_size=1, max_size=3, unique=True))
    th = draw(thresholds_strategy(("nmne",)))
    cfg = {"nic_num": 1, "include_nmne": draw(st.sampled_from([True, True, False, None])),
           "monitored_traffic": mon or None, "thresholds": th}
    top = top_of(th, "nmne")
    ops = []
    tin = tout = 0
    over = False
    for _ in range(draw(st.integers(1, 4))):
        ops.append(S(NIC1 + ["enabled"], draw(st.booleans())))
        ops.append(S(NIC1 + ["traffic"], {}))
        for lf in traffic_leaves(mon):
            if draw(st.integers(0, 5)) == 0:
                continue  # no traffic of this kind seen this tick: entry absent
            a, b = draw(amount_strategy(speed)), draw(amount_strategy(speed))
            over = over or a > speed or b > speed
            ops.append(S(NIC1 + ["traffic"] + lf, {"inbound": a, "outbound": b}))
        if zoo == "nmne_on":
            tin += draw(count_strategy(top))
            tout += draw(count_strategy(top))
            ops.append(S(NIC1 + ["nmne"], nmne_value(tin, tout)))
        ops.append(OBS)
    return mk("network-interface", cfg, H0, ops, zoo, labels=["hyp", "traffic>speed"] if over else ["hyp"])


@st.composite
def counts_case(draw):
    """application / file / host counters against random thresholds."""
    kind = draw(st.sampled_from(["application", "file", "host"]))
    th = draw(thresholds_strategy())
    if kind == "application":
        top = top_of(th, "app_executions")
        cfg = {"application_name": "database-client", "applications_requires_scan": draw(st.booleans()), "thresholds": th}
        ops = []
        for _ in range(draw(st.integers(1, 4))):
            ops += [S(APP + ["num_executions"], draw(count_strategy(top))), OBS]
        return mk("application", cfg, H0, ops, labels=["hyp"])
    if kind == "file":
        top = top_of(th, "file_access")
        cfg = {"file_name": "a.txt", "include_num_access": True, "file_system_requires_scan": draw(st.booleans()),
               "thresholds": th}
        ops = []
        for _ in range(draw(st.integers(1, 4))):
            ops += [S(FILE + ["num_access"], draw(count_strategy(top))), OBS]
        return mk("file", cfg, FOLDER, ops, labels=["hyp"])
    cfg = host_cfg(True, True, thresholds=th)
    ops = []
    for _ in range(draw(st.integers(1, 3))):
        ops += [S(FS + ["num_file_creations"], draw(count_strategy(3))), S(FS + ["num_file_deletions"], draw(count_strategy(3))),
                S(FILE + ["num_access"], draw(count_strategy(top_of(th, "file_access")))),
                S(APP + ["num_executions"], draw(count_strategy(top_of(th, "app_executions")))), OBS]
    return mk("host", cfg, [], ops, labels=["hyp"])


@st.composite
def link_case(draw, refs: Dict[str, float]):
    names = list(refs)
    use = draw(st.lists(st.sampled_from(names), min_size=1, max_size=len(names), unique=True))
    flip = draw(st.booleans())
    cfg_refs = ["<->".join(r.split("<->")[::-1]) if flip else r for r in use]
    ops = []
    over = False
    for _ in range(draw(st.integers(1, 3))):
        for r in use:
            v = draw(amount_strategy(refs[r]))
            over = over or v > refs[r]
            ops.append(S(LINKS + [r, "current_load"], v))
        ops.append(OBS)
    labels = ["hyp", "load>bandwidth"] if over else ["hyp"]
    if len(use) == 1 and draw(st.booleans()):
        return mk("link", {"link_reference": cfg_refs[0]}, [], ops, labels=labels)
    return mk("links", {"link_references": cfg_refs}, [], ops, labels=labels)


def leaf_catalogue(state: Dict, E: Dict, cap: int, mon: Optional[Dict]) -> List[Tuple[List, str, Any]]:
    """Every leaf of the zoo state that some observation reads: (path, kind, parameter)."""
    cat: List[Tuple[List, str, Any]] = []
    for name, node in state["network"]["nodes"].items():
        p = NODES + [name]
        cat.append((p + ["operating_state"], "enum", "node"))
        cat.append((p, "del", None))
        for s, sv in node.get("services", {}).items():
            if s == "user-session-manager":
                cat.append((p + ["services", s, "current_local_user"], "local", None))
                cat.append((p + ["services", s, "active_remote_sessions"], "sessions", cap))
                continue
            if s not in ("ftp-server", "database-service"):
                continue
            cat.append((p + ["services", s, "operating_state"], "enum", "service"))
            cat.append((p + ["services", s, "health_state_actual"], "enum", "software_health"))
            cat.append((p + ["services", s, "health_state_visible"], "enum", "software_health"))
            cat.append((p + ["services", s], "del", None))
        for a in node.get("applications", {}):
            if a != "database-client":
                continue
            q = p + ["applications", a]
            cat += [(q + ["operating_state"], "enum", "application"), (q + ["health_state_actual"], "enum", "software_health"),
                    (q + ["health_state_visible"], "enum", "software_health"), (q + ["num_executions"], "count", "app_executions"),
                    (q, "del", None)]
        fs = node.get("file_system", {})
        if name in ("h0", "h1"):
            cat += [(p + ["file_system", "num_file_creations"], "count", 3), (p + ["file_system", "num_file_deletions"], "count", 3)]
        for fo, fv in fs.get("folders", {}).items():
            if fo != "docs":
                continue
            q = p + ["file_system", "folders", fo]
            cat += [(q + ["health_status"], "enum", "fs_health"), (q + ["visible_status"], "enum", "fs_health"),
                    (q + ["scanned_this_step"], "bool", None), (q, "del", None)]
            for fi in fv.get("files", {}):
                r = q + ["files", fi]
                cat += [(r + ["health_status"], "enum", "fs_health"), (r + ["visible_status"], "enum", "fs_health"),
                        (r + ["num_access"], "count", "file_access"), (r, "del", None)]
        for n, nv in node.get("NICs", {}).items():
            q = p + ["NICs", n]
            cat.append((q + ["enabled"], "bool", None))
            if name in ("h0", "h1"):
                cat.append((q, "del", None))
                cat.append((q + ["nmne"], "nmne", None))
                for lf in traffic_leaves(mon):
                    cat.append((q + ["traffic"] + lf, "traffic", float(nv["speed"])))
        for aclname in ["acl"] + FW_ACLS:
            if aclname in node and isinstance(node[aclname], dict) and "acl" in node[aclname]:
                for pos in (0, 1, 2, 3, 23):
                    cat.append((p + [aclname, "acl", pos], "aclslot", None))
    for ref, lv in state["network"]["links"].items():
        cat.append((LINKS + [ref, "current_load"], "load", float(lv["bandwidth"])))
        cat.append((LINKS + [ref], "del", None))
    return cat


@st.composite
def fuzz_case(draw, E: Dict, cap: int, refs: Dict[str, float], typ: str):
    """Whole observation (nodes / custom / host) over random assignments of many leaves at once."""
    zoo = draw(st.sampled_from(["nmne_on", "nmne_off"]))
    mon = draw(st.sampled_from(MONITORED))
    th = draw(thresholds_strategy())
    state = base_state(zoo)
    cat = leaf_catalogue(state, E, cap, mon)
    nm: Dict[str, int] = {}
    ops = []
    labels = {"hyp", "fuzz"}
    for _ in range(draw(st.integers(1, 3))):
        for _ in range(draw(st.integers(1, 14))):
            path, kind, par = cat[draw(st.integers(0, len(cat) - 1))]
            if kind == "del":
                if draw(st.integers(0, 3)) == 0:
                    ops.append(D(path))
                    labels.add("absent")
                continue
            if kind == "enum":
                v = draw(st.sampled_from(E[par]))
            elif kind == "count":
                v = draw(count_strategy(par if isinstance(par, int) else top_of(th, par)))
            elif kind == "bool":
                v = draw(st.booleans())
            elif kind == "local":
                v = draw(st.sampled_from([None, "admin", "u1"]))
            elif kind == "sessions":
                v = sessions_value(draw(st.integers(0, par)))
            elif kind == "nmne":
                if zoo != "nmne_on":
                    continue
                key = json.dumps(path)
                nm[key] = nm.get(key, 0) + draw(count_strategy(top_of(th, "nmne")))
                v = nmne_value(nm[key], nm[key] // 2)
            elif kind == "traffic":
                a, b = draw(amount_strategy(par)), draw(amount_strategy(par))
                if a > par or b > par:
                    labels.add("traffic>speed")
                v = {"inbound": a, "outbound": b}
            elif kind == "load":
                v = draw(amount_strategy(par))
                if v > par:
                    labels.add("load>bandwidth")
            elif kind == "aclslot":
                if draw(st.booleans()):
                    v = None
                else:
                    ips = [None] + IP_LISTED + [IP_UNLISTED]
                    wcs = [None] + WC_LISTED + [WC_UNLISTED]
                    pts = [None] + PORT_LISTED_NUM + [PORT_UNLISTED_NUM]
                    v = acl_rule(draw(st.sampled_from(E["acl_action"])), draw(st.sampled_from([None, "tcp", "udp", "icmp"])),
                                 draw(st.sampled_from(ips)), draw(st.sampled_from(wcs)), draw(st.sampled_from(pts)),
                                 draw(st.sampled_from(ips)), draw(st.sampled_from(wcs)), draw(st.sampled_from(pts)))
            else:  # pragma: no cover
                raise AssertionError(kind)
            ops.append(S(path, v))
        ops.append(OBS)
    if typ == "nodes":
        cfg = nodes_cfg(mon, acc=draw(st.booleans()), users=draw(st.booleans()), nmne=draw(st.booleans()))
        cfg["thresholds"] = th
    elif typ == "host":
        cfg = host_cfg(draw(st.booleans()), draw(st.booleans()), mon, nmne=draw(st.booleans()),
                       hostname=draw(st.sampled_from(["h0", "h0", "h1"])), thresholds=th)
    else:
        cfg = nested_cfg(refs, mon, th)
    return mk(typ, cfg, [], ops, zoo, labels=sorted(labels))


# ---------------------------------------------------------------------------------------------------------------------
# environment-level biased histories (real simulation, no synthetic state)

ENV_ACTIONS = ["idle", "ftp_send", "file_create", "file_delete", "dos", "login01", "login10", "loginr0", "db_exec", "h0_off", "h0_on"]


def env_cfg(scn: Dict) -> Dict:
    bw = scn.get("bw")
    ftype = scn.get("file_type", "AVI")
    fname = "big." + ftype.lower()  # the simulator derives the file type (and default size) from the extension
    nodes = [
        switch("sw", 8, start_up_duration=0, shut_down_duration=0),
        computer("h0", "192.168.1.10", gw="192.168.1.1", start_up_duration=0, shut_down_duration=1,
                 services=[{"type": "ftp-client"}],
                 applications=[{"type": "database-client", "options": {"db_server_ip": "192.168.1.11"}},
                               {"type": "dos-bot", "options": {"target_ip_address": "192.168.1.11", "payload": "SPOOF DATA",
                                                               "port_scan_p_of_success": 1.0, "dos_intensity": 1.0,
                                                               "max_sessions": int(scn.get("dos_sessions", 150)), "repeat": True}}],
                 folders=[{"folder_name": "media", "files": [{"file_name": fname, "type": ftype}]}]),
        computer("h1", "192.168.1.11", gw="192.168.1.1", kind="server", start_up_duration=0, shut_down_duration=0,
                 services=[{"type": "ftp-server"}]),
        {"type": "router", "hostname": "r0", "num_ports": 2, "start_up_duration": 0, "shut_down_duration": 0,
         "ports": {1: {"ip_address": "192.168.1.1", "subnet_mask": "255.255.255.0"}},
         "acl": {20: {"action": "PERMIT"}}},
    ]
    links = [link("sw", 1, "h0", 1, bw), link("sw", 2, "h1", 1, bw), link("sw", 8, "r0", 1, bw)]
    opts = {
        "hosts": [{"hostname": "h0", "applications": [{"application_name": "dos-bot"}],
                   "folders": [{"folder_name": "media", "files": [{"file_name": fname}]}]},
                  {"hostname": "h1", "services": [{"service_name": "ftp-server"}]}],
        "routers": [{"hostname": "r0"}],
        "num_services": 1, "num_applications": 1, "num_folders": 1, "num_files": 1, "num_nics": 1,
        "include_nmne": True, "include_num_access": True, "include_users": True, "num_ports": 1, "num_rules": 2,
        "ip_list": ["192.168.1.10"], "wildcard_list": ["0.0.0.1"], "port_list": ["HTTP"], "protocol_list": ["TCP"],
        "monitored_traffic": {"icmp": ["NONE"], "tcp": ["FTP", "POSTGRES_SERVER", "SSH"], "udp": ["ARP"]},
        "file_system_requires_scan": False, "services_requires_scan": False, "applications_requires_scan": False,
    }
    refs = ["sw:eth-1<->h0:eth-1", "h1:eth-1<->sw:eth-2"]
    obs = {"type": "custom", "options": {"components": [
        {"type": "nodes", "label": "NODES", "options": opts},
        {"type": "links", "label": "LINKS", "options": {"link_references": refs}}]}}
    login = lambda a, ip: {"action": "node-session-remote-login", "options": {"node_name": a, "remote_ip": ip,  # noqa: E731
                                                                              "username": "admin", "password": "admin"}}
    amap = {
        "idle": {"action": "do-nothing", "options": {}},
        "ftp_send": {"action": "node-send-local-command", "options": {
            "node_name": "h0", "username": "admin", "password": "admin",
            "command": ["service", "ftp-client", "send", {"dest_ip_address": "192.168.1.11", "src_folder_name": "media",
                                                          "src_file_name": fname, "dest_folder_name": "in",
                                                          "dest_file_name": fname}]}},
        "file_create": {"action": "node-file-create", "options": {"node_name": "h0", "folder_name": "media", "file_name": "blue.txt"}},
        "file_delete": {"action": "node-file-delete", "options": {"node_name": "h0", "folder_name": "media", "file_name": "blue.txt"}},
        "dos": {"action": "node-application-execute", "options": {"node_name": "h0", "application_name": "dos-bot"}},
        "login01": login("h0", "192.168.1.11"),
        "login10": login("h1", "192.168.1.10"),
        "loginr0": login("h0", "192.168.1.1"),
        "db_exec": {"action": "node-application-execute", "options": {"node_name": "h0", "application_name": "database-client"}},
        "h0_off": {"action": "node-shutdown", "options": {"node_name": "h0"}},
        "h0_on": {"action": "node-startup", "options": {"node_name": "h0"}},
    }
    agents = [{
        "ref": "defender", "team": "BLUE", "type": "proxy-agent", "observation_space": obs,
        "action_space": {"action_map": {i: amap[n] for i, n in enumerate(ENV_ACTIONS)}},
        "reward_function": {"reward_components": [{"type": "dummy"}]},
        "agent_settings": {"flatten_obs": bool(scn.get("flatten")), "action_masking": False},
    }]
    for g in range(int(scn.get("greens", 0))):
        # scripted agents that create one file each on h0 in every tick: several creations within one tick
        agents.append({
            "ref": f"green{g}", "team": "GREEN", "type": "probabilistic-agent",
            "action_space": {"action_map": {
                0: {"action": "node-file-create", "options": {"node_name": "h0", "folder_name": "media", "file_name": f"g{g}.txt"}},
                1: {"action": "node-file-delete", "options": {"node_name": "h0", "folder_name": "media", "file_name": f"g{g}.txt"}}}},
            "agent_settings": {"action_probabilities": {0: 0.5, 1: 0.5}},
            "reward_function": {"reward_components": [{"type": "dummy"}]},
        })
    thresholds = {"thresholds": {"nmne": {"low": 0, "medium": 1, "high": 2}}} if scn.get("thresholds") else {}
    return base_cfg(nodes, links, agents=agents, max_len=int(scn.get("max_len", 12)), seed=int(scn.get("seed", 3)),
                    extra_game=thresholds,
                    network_extra={"nmne_config": {"capture_nmne": True, "nmne_capture_keywords": ["SPOOF", "SELECT"]}})


def run_env_case(case: Dict) -> CaseResult:
    import gymnasium
    import numpy as np

    from .c02 import find_offender

    res = CaseResult()
    try:
        env = new_env(env_cfg(case["scn"]))
    except Exception as e:
        res.violate(f"raise:build:{exc_sig(e)}", exc_msg(e))
        return res
    ag = env.agent
    peak = {"band": 0, "creations": 0, "sessions": 0}
    space0 = None

    def note_peaks(nested):
        try:
            h0 = nested["NODES"]["HOST0"]
            for proto in h0["NICS"][1].get("TRAFFIC", {}).values():
                for v in ([proto] if "inbound" in proto else proto.values()):
                    peak["band"] = max(peak["band"], v["inbound"], v["outbound"])
            peak["creations"] = max(peak["creations"], h0.get("num_file_creations", 0))
            peak["sessions"] = max([peak["sessions"]] + [nested["NODES"][k].get("users", {}).get("remote_sessions", 0)
                                                         for k in ("HOST0", "HOST1", "ROUTER0")])
        except (KeyError, TypeError, AttributeError):  # a malformed observation is reported by the oracle, not here
            pass

    def check(tag, i, ret):
        nested_space = ag.observation_manager.space
        nested = ag.observation_manager.current_observation
        note_peaks(nested)
        offs = all_offenders(nested_space, nested, [])
        for off in offs:
            res.violate(f"obs-not-in-space:{_norm_path(off)}",
                        f"{tag} op#{i}: {describe_offender(nested_space, nested, off)}")
        if offs:
            if find_offender(nested_space, nested, []) != offs[0]:
                raise AssertionError("harness: offender walkers disagree")
            return
        try:
            ok = env.observation_space.contains(ret)
        except Exception:
            ok = False
        if not ok:
            res.violate("returned-obs-not-in-env-space" + (":flat" if ag.flatten_obs else ""), f"{tag} op#{i}")
        if ag.flatten_obs:
            fs = gymnasium.spaces.flatten_space(nested_space)
            if not isinstance(ret, np.ndarray) or ret.shape != fs.shape:
                res.violate("flat-obs-shape", f"{tag} op#{i}")

    ops = [["reset"]] + list(case["ops"])
    steps = 0
    for i, op in enumerate(ops):
        try:
            if op[0] == "reset" or steps >= env.game.options.max_episode_length:
                o, _ = env.reset()
                steps = 0
                sp = (env.observation_space, env.action_space)
                if space0 is not None and sp != space0:
                    res.violate("obs-space-changed-between-episodes", f"op#{i}")
                space0 = sp
                ag = env.agent
                check("reset", i, o)
            else:
                out = env.step(int(op[1]) % len(ENV_ACTIONS))
                steps += 1
                check("step", i, out[0])
        except Exception as e:  # driver boundary; such failures are C01's business unless raised while observing
            sig = exc_sig(e)
            if "_get_obs" in sig or "observ" in sig:
                phase = "reset" if op[0] == "reset" else "step"
                res.violate(f"raise:{phase}:{sig}", f"op#{i} {op}: {exc_msg(e)}")
                # the nested observation was stored before flattening failed: name the offending leaf as well
                nested_space, nested = ag.observation_manager.space, ag.observation_manager.current_observation
                note_peaks(nested)
                for off in all_offenders(nested_space, nested, []):
                    res.violate(f"obs-not-in-space:{_norm_path(off)}",
                                f"{phase} op#{i}: {describe_offender(nested_space, nested, off)}")
            res.label("cmp:env-raised")
            break
        if res.violations:
            break
    res.nontrivial = peak["band"] >= 2 or peak["creations"] >= 2 or peak["sessions"] >= 1
    res.label("cmp:env", f"cmp:env-band>={min(peak['band'], 11)}", f"cmp:env-creations>={min(peak['creations'], 3)}",
              f"cmp:env-sessions={peak['sessions']}")
    return res


def env_case_strategy():
    act = st.one_of(
        st.sampled_from(list(range(len(ENV_ACTIONS)))),
        st.sampled_from([ENV_ACTIONS.index(a) for a in ("ftp_send", "file_create", "dos", "login01", "login10", "loginr0")]),
        st.sampled_from([ENV_ACTIONS.index(a) for a in ("ftp_send", "login01")]),
    ).map(lambda k: ["act", k])
    ops = st.lists(st.one_of(act, act, act, act, act, act, st.just(["reset"])), min_size=2, max_size=14)
    scn = st.fixed_dictionaries({
        "bw": st.sampled_from([None, 1000, 1000, 10000]),
        "file_type": st.sampled_from(["AVI", "AVI", "WAV", "DB", "TXT"]),
        "flatten": st.booleans(),
        "greens": st.integers(0, 5),
        "thresholds": st.booleans(),
        "dos_sessions": st.sampled_from([20, 150]),
        "max_len": st.sampled_from([6, 12]),
        "seed": st.integers(0, 9),
    })
    return st.fixed_dictionaries({"layer": st.just("component"), "type": st.just("env"), "scn": scn, "ops": ops})


# ---------------------------------------------------------------------------------------------------------------------


def worker(ctx: Ctx):
    from primaite.game.agent.observations.observations import AbstractObservation

    import time

    cpu0 = time.process_time()
    q = ctx.tier == "quick"
    E = enum_values()
    cap = session_cap()
    st0 = base_state("nmne_on")
    base_state("nmne_off")
    speed = float(st0["network"]["nodes"]["h0"]["NICs"][1]["speed"])
    refs = link_refs(st0)

    # every registered observation class must have a generator here
    reg = sorted(k for k, v in AbstractObservation._registry.items() if v.__module__.startswith("primaite.game.agent.observations"))
    missing = [k for k in reg if k not in COVERED_TYPES]
    if missing:
        raise AssertionError(f"harness: observation classes without a component generator: {missing}")
    ctx.extra["component_classes"] = ",".join(reg)
    ctx.extra["component_enum_ranges"] = json.dumps(E)

    before = ctx.evaluations
    enum_run(ctx, exhaustive_cases(ctx.tier), run_case)
    ctx.extra["component_exhaustive_cases"] = ctx.evaluations - before
    ctx.extra["exhaustive"] = True
    ctx.extra["exhaustive_domain"] = (
        "component layer: per observation class the full product of every member of each simulator enum it reads x its "
        "boolean config flags x threshold sets x the counts {0, low, low+1, med, med+1, high, high+1, high+5, 1e6} / "
        "traffic and load at every band edge up to 10x nominal / 0..max_remote_sessions sessions / component absent"
    )
    ctx.extra["component_rule"] = (
        "component case = (observation class, ConfigSchema kwargs, zoo variant, list of leaf assignments / deletions / "
        "observe points on a real describe_state()); non-trivial = >=1 observed leaf off the component's default "
        "observation; distinct by case hash = (component type, config, leaf-value tuple). env cases = hand-built "
        "scenario knobs + action list; non-trivial = traffic band >= 2, >= 2 file creations in a tick or >= 1 remote session"
    )
    ctx.extra["component_assumptions"] = (
        "synthetic states contain only enum members, non-negative counts, <= max_remote_sessions sessions, monotone "
        "NMNE counters; NIC traffic up to 10x nominal speed is producible because only the link bandwidth (freely "
        "configurable) bounds it; link load above bandwidth is generated up to 10x (the simulator admits a frame while "
        "load+size <= bandwidth, overshoot occurs through C18's open findings) — the link observation clamps, so this "
        "part of the domain produces no violation on the unchanged tree"
    )

    n = (lambda a, b: a if q else b)
    hyp_run(ctx, nic_case(speed), run_case, n(60, 1500), sub=10)
    hyp_run(ctx, counts_case(), run_case, n(40, 1000), sub=11)
    hyp_run(ctx, link_case(refs), run_case, n(30, 600), sub=12)
    hyp_run(ctx, fuzz_case(E, cap, refs, "custom"), run_case, n(40, 1500), sub=13)
    hyp_run(ctx, fuzz_case(E, cap, refs, "nodes"), run_case, n(30, 1000), sub=14)
    hyp_run(ctx, fuzz_case(E, cap, refs, "host"), run_case, n(30, 1000), sub=15)
    hyp_run(ctx, env_case_strategy(), run_case, n(3, 60), sub=16)
    ctx.extra["component_cpu_s"] = round(time.process_time() - cpu0, 2)  # summed over the workers in the evidence
