"""C19 — scripted green/red agents act only when and how their settings allow (DESIGN §C19).

Two case families:

* ``sched``: a small routed network of our own (three clients behind a router, one database server) with 1–3 scripted
  agents (``periodic-agent``, ``red-database-corrupting-agent``, ``probabilistic-agent``, ``random-agent``) whose
  ``agent_settings`` are generated, plus a ``proxy-agent`` whose action map is the blue interference alphabet.
* ``tap``: the shipped UC7 scenarios (``uc7_config.yaml`` for TAP001, ``uc7_config_tap003.yaml`` for TAP003); only the
  threat actor's ``agent_settings`` are mutated and the defender's action map is *extended* by a few interference entries.

Every case is driven through ``PrimaiteGymEnv`` (reset(seed) → steps → reset → steps …), so that the episode boundary is the
real one (the game and all agents are rebuilt from the scenario dict by ``reset``).

The oracle reads ``agent.history`` of every scripted agent at the end of each episode and, for threat actors,
``agent.current_kill_chain_stage`` sampled after ``reset`` and after every step.
"""
from __future__ import annotations

import copy
from typing import Any, Dict, List, Optional, Tuple

from hypothesis import strategies as st

from ..harness import CaseResult, Ctx, hyp_run
from ..simutil import ALL_PORTS, ALL_PROTOCOLS, IO_OFF, exc_msg, exc_sig, new_env

ID = "C19"
WORKERS = {"quick": 8, "thorough": 16}
SHRINK_KEY = "ops"
RULE = (
    "case = (scripted-agent settings, seed, op list) where ops are env.step(blue action) / env.reset(seed). Family 'sched': "
    "1-3 agents drawn from periodic-agent / red-database-corrupting-agent / probabilistic-agent / random-agent on a small "
    "routed network, settings start_step 0-12, start_variance 0-4, frequency 1-8, variance < frequency, max_executions "
    "0-4 or default, 1-3 possible start nodes, probability tables with zeros and ones in shuffled key order. Family 'tap': "
    "shipped UC7 scenarios with the tap-001 / tap-003 agent_settings mutated (start_step, frequency, variance, repeat flags, "
    "starting_nodes (all four repeat-flag pairs), per-stage probabilities in {0, 0.3, 0.5, 0.7, 1}, propagate/payload options, number of ACLs / account changes). "
    "Blue ops: shut down / start / isolate a start node, add / remove a deny-all ACL rule on the path, uninstall the target "
    "application (also as a reacting defender that removes what the attacker just installed), change a router password. Non-trivial = some scripted agent made >=2 non-idle actions in one episode, or a "
    "threat actor advanced >=2 stages, in a case that contains at least one effective blue interference op and >=2 "
    "episodes; distinct by hash of the case."
)
ASSUMPTIONS = [
    "agent.history holds one item per step in step order with the action/parameters the agent returned (checked by C01)",
    "timestep numbering is the game's: the first step of an episode is timestep 0",
    "settings stay inside the documented domain: frequency >= 1, 0 <= variance < frequency (validated by the periodic "
    "schema, applied by the generator to the TAPs too), probabilities in [0, 1] summing to 1 for the probabilistic agent",
    "the documented action set of a persona is what the TAP notebooks and the TAP001/TAP003 class docstrings list "
    "(names that drifted between notebook and registry are treated as the same action)",
    "for threat actors only lower bounds on timing are asserted (no action or stage change before start_step - variance; "
    ">= frequency - variance between consecutive events); no liveness",
]

# ---------------------------------------------------------------------------------------------------------------------
# family 'sched': scenario

CLIENTS = ["c0", "c1", "c2"]
SRV_IP = "192.168.11.2"
APPS = ["database-client", "data-manipulation-bot"]


def _sched_blue_map() -> List[Dict]:
    m: List[Dict] = [{"action": "do-nothing", "options": {}}]
    for c in CLIENTS:
        m.append({"action": "node-shutdown", "options": {"node_name": c}})
        m.append({"action": "node-startup", "options": {"node_name": c}})
        for a in APPS:
            m.append({"action": "node-application-remove", "options": {"node_name": c, "application_name": a}})
    m.append({"action": "router-acl-add-rule", "options": {
        "target_router": "r0", "position": 1, "permission": "DENY", "src_ip": "ALL", "src_wildcard": "NONE",
        "src_port": "ALL", "dst_ip": "ALL", "dst_wildcard": "NONE", "dst_port": "ALL", "protocol_name": "ALL"}})
    m.append({"action": "router-acl-remove-rule", "options": {"target_router": "r0", "position": 1}})
    return m


SCHED_BLUE = _sched_blue_map()
SCHED_INTERFERE = [i for i, a in enumerate(SCHED_BLUE) if a["action"] in
                   ("node-shutdown", "node-application-remove", "router-acl-add-rule")]

# action-map pool for probabilistic / random agents: distinct (action, options) pairs so that a history item identifies
# its index
PROB_POOL: List[Dict] = [{"action": "do-nothing", "options": {}}]
for _c in CLIENTS:
    PROB_POOL.append({"action": "node-application-execute", "options": {"node_name": _c, "application_name": "database-client"}})
    PROB_POOL.append({"action": "node-file-create", "options": {"node_name": _c, "folder_name": "docs", "file_name": "g.txt"}})
    PROB_POOL.append({"action": "node-application-scan", "options": {"node_name": _c, "application_name": "database-client"}})

TYPE_OF = {"periodic": "periodic-agent", "dm": "red-database-corrupting-agent", "prob": "probabilistic-agent",
           "random": "random-agent"}


def sched_agent_cfg(i: int, a: Dict) -> Dict:
    kind = a["kind"]
    ref = f"s{i}"
    base = {"ref": ref, "team": "RED" if kind == "dm" else "GREEN", "type": TYPE_OF[kind],
            "reward_function": {"reward_components": [{"type": "dummy"}]}}
    if kind in ("periodic", "dm"):
        s: Dict[str, Any] = {"possible_start_nodes": list(a["nodes"])}
        for k in ("start_step", "start_variance", "frequency", "variance", "max_executions", "target_application"):
            if a.get(k) is not None:
                s[k] = a[k]
        base["agent_settings"] = s
        base["action_space"] = {"action_map": {0: {"action": "do-nothing", "options": {}}}}
    else:
        amap = {j: copy.deepcopy(PROB_POOL[p]) for j, p in enumerate(a["map"])}
        base["action_space"] = {"action_map": amap}
        if kind == "prob":
            tot = sum(w for _, w in a["probs"])
            base["agent_settings"] = {"action_probabilities": {int(j): w / tot for j, w in a["probs"]}}
    return base


def sched_cfg(case: Dict) -> Dict:
    d = case.get("dur", 1)
    node_kw = {"start_up_duration": d, "shut_down_duration": d}
    nodes: List[Dict] = [
        {"type": "router", "hostname": "r0", "num_ports": 3,
         "ports": {1: {"ip_address": "192.168.10.1", "subnet_mask": "255.255.255.0"},
                   2: {"ip_address": "192.168.11.1", "subnet_mask": "255.255.255.0"}},
         "acl": {20: {"action": "PERMIT", "protocol": "ICMP"}, 21: {"action": "PERMIT", "protocol": "TCP"},
                 22: {"action": "PERMIT", "protocol": "UDP"}, 23: {"action": "PERMIT", "src_port": "ARP", "dst_port": "ARP"}}},
        {"type": "switch", "hostname": "sw0", "num_ports": 8},
        {"type": "switch", "hostname": "sw1", "num_ports": 8},
        {"type": "server", "hostname": "srv", "ip_address": SRV_IP, "subnet_mask": "255.255.255.0",
         "default_gateway": "192.168.11.1", "services": [{"type": "database-service"}], **node_kw},
    ]
    links = [
        {"endpoint_a_hostname": "r0", "endpoint_a_port": 1, "endpoint_b_hostname": "sw0", "endpoint_b_port": 8},
        {"endpoint_a_hostname": "r0", "endpoint_a_port": 2, "endpoint_b_hostname": "sw1", "endpoint_b_port": 8},
        {"endpoint_a_hostname": "sw1", "endpoint_a_port": 1, "endpoint_b_hostname": "srv", "endpoint_b_port": 1},
    ]
    for i, c in enumerate(CLIENTS):
        nodes.append({
            "type": "computer", "hostname": c, "ip_address": f"192.168.10.{2 + i}", "subnet_mask": "255.255.255.0",
            "default_gateway": "192.168.10.1",
            "applications": [
                {"type": "database-client", "options": {"db_server_ip": SRV_IP}},
                {"type": "data-manipulation-bot", "options": {"port_scan_p_of_success": 1.0,
                                                              "data_manipulation_p_of_success": 1.0,
                                                              "payload": "DELETE", "server_ip": SRV_IP}},
            ],
            "folders": [{"folder_name": "docs"}], **node_kw})
        links.append({"endpoint_a_hostname": "sw0", "endpoint_a_port": i + 1, "endpoint_b_hostname": c, "endpoint_b_port": 1})
    blue = {
        "ref": "defender", "team": "BLUE", "type": "proxy-agent",
        "observation_space": {"type": "custom", "options": {"components": [
            {"type": "nodes", "label": "NODES", "options": {
                "hosts": [{"hostname": c, "applications": [{"application_name": a} for a in APPS]} for c in CLIENTS],
                "num_services": 1, "num_applications": 2, "num_folders": 1, "num_files": 1, "num_nics": 1,
                "include_nmne": False, "include_num_access": False,
                "routers": [{"hostname": "r0"}], "num_ports": 2, "num_rules": 4,
                "ip_list": [SRV_IP], "wildcard_list": ["0.0.0.1"], "port_list": ["POSTGRES_SERVER"],
                "protocol_list": ["ICMP", "TCP", "UDP"]}}]}},
        "action_space": {"action_map": {i: copy.deepcopy(a) for i, a in enumerate(SCHED_BLUE)}},
        "reward_function": {"reward_components": [{"type": "dummy"}]},
        "agent_settings": {"flatten_obs": False, "action_masking": False},
    }
    agents = [sched_agent_cfg(i, a) for i, a in enumerate(case["agents"])]
    agents.insert(case.get("blue_pos", 0) % (len(agents) + 1), blue)
    game = {"max_episode_length": 256, "ports": list(ALL_PORTS), "protocols": list(ALL_PROTOCOLS), "seed": case["seed"]}
    return {"io_settings": dict(IO_OFF), "game": game, "agents": agents,
            "simulation": {"network": {"nodes": nodes, "links": links}}}


# ---------------------------------------------------------------------------------------------------------------------
# family 'tap': scenario

UC7 = {"tap-001": "src/primaite/config/_package_data/uc7_config.yaml",
       "tap-003": "src/primaite/config/_package_data/uc7_config_tap003.yaml"}
START_NODES = ["ST_PROJ-A-PRV-PC-1", "ST_PROJ-B-PRV-PC-2", "ST_PROJ-C-PRV-PC-3"]
START_NODE_IPS = {"ST_PROJ-A-PRV-PC-1": "192.168.230.2", "ST_PROJ-B-PRV-PC-2": "192.168.240.3",
                  "ST_PROJ-C-PRV-PC-3": "192.168.250.4"}
# subnets the propagate stage may be told to scan; index 3 is the /26 whose ping scan costs seconds
NETS = ["192.168.230.0/29", "192.168.20.0/30", "192.168.220.0/29", "192.168.10.0/26", "192.168.240.0/29"]
ROUTERS_003 = ["ST_INTRA-PRV-RT-DR-1", "ST_INTRA-PRV-RT-CR", "REM-PUB-RT-DR"]
C2_SERVER = "ISP-PUB-SRV-DNS"  # kill_chain.COMMAND_AND_CONTROL.c2_server_name in the shipped tap-001 settings (not mutated)

TAP_EXTRA_BLUE: List[Dict] = []
for _n in START_NODES:
    TAP_EXTRA_BLUE.append({"action": "node-application-remove", "options": {"node_name": _n, "application_name": "ransomware-script"}})
    TAP_EXTRA_BLUE.append({"action": "node-application-remove", "options": {"node_name": _n, "application_name": "c2-beacon"}})
TAP_EXTRA_BLUE.append({"action": "router-acl-add-rule", "options": {
    "target_router": "ST_INTRA-PRV-RT-DR-1", "position": 1, "permission": "DENY", "src_ip": "ALL", "src_wildcard": "NONE",
    "src_port": "ALL", "dst_ip": "ALL", "dst_wildcard": "NONE", "dst_port": "ALL", "protocol_name": "ALL"}})
TAP_EXTRA_BLUE.append({"action": "node-service-stop", "options": {"node_name": "ST_DATA-PRV-SRV-DB", "service_name": "database-service"}})
TAP_EXTRA_BLUE.append({"action": "node-service-start", "options": {"node_name": "ST_DATA-PRV-SRV-DB", "service_name": "database-service"}})

TAP_INTERFERE_ACTIONS = ("node-shutdown", "host-nic-disable", "node-application-remove", "router-acl-add-rule",
                         "node-account-change-password", "node-service-stop", "node-reset")

PERSONA = {
    "tap-001": {
        "last": 6,
        "prob_stages": {"ACTIVATE": 3, "PROPAGATE": 4, "COMMAND_AND_CONTROL": 5, "PAYLOAD": 6},
        # notebook UC7-TAP001-Kill-Chain-E2E (stage sections) + TAP001._c2c/_payload/_payload_handler docstrings
        "actions": {"node-folder-create", "node-file-create", "node-file-access", "node-application-install",
                    "node-nmap-ping-scan", "node-nmap-port-scan", "node-network-service-recon", "configure-c2-beacon",
                    "node-application-execute", "c2-server-ransomware-configure", "c2-server-data-exfiltrate",
                    "c2-server-ransomware-launch"},
    },
    "tap-003": {
        "last": 5,  # notebook: "In the final attack stage [EXPLOIT] the TAP003 agent insert a malicious ACL rule(s)"
        "prob_stages": {"PLANNING": 2, "ACCESS": 3, "MANIPULATION": 4, "EXPLOIT": 5},
        "actions": {"node-session-remote-login", "node-send-remote-command", "node-account-change-password"},
    },
}
NOT_STARTED, SUCCEEDED, FAILED = 100, 200, 300
SCAN_ACTIONS = ("node-nmap-ping-scan", "node-nmap-port-scan", "node-network-service-recon")

_UC7_CACHE: Dict[str, Dict] = {}


def _uc7(persona: str) -> Dict:
    from ..envdrive import load_shipped

    if persona not in _UC7_CACHE:
        _UC7_CACHE[persona] = load_shipped(UC7[persona])
    return copy.deepcopy(_UC7_CACHE[persona])


_BLUE_CACHE: Dict[str, List[Dict]] = {}


def tap_blue_map(persona: str) -> List[Dict]:
    """The shipped defender action map (in key order) followed by our extra interference entries."""
    if persona not in _BLUE_CACHE:
        cfg = _uc7(persona)
        d = [a for a in cfg["agents"] if a["type"] == "proxy-agent"][0]
        am = d["action_space"]["action_map"]
        assert sorted(am) == list(range(len(am)))
        _BLUE_CACHE[persona] = [am[k] for k in sorted(am)] + TAP_EXTRA_BLUE
    return _BLUE_CACHE[persona]


def tap_cfg(case: Dict) -> Dict:
    persona = case["persona"]
    s = case["settings"]
    cfg = _uc7(persona)
    cfg["game"]["seed"] = case["seed"]
    cfg["game"]["max_episode_length"] = 256
    for a in cfg["agents"]:
        if a["type"] == "proxy-agent":
            am = a["action_space"]["action_map"]
            n = len(am)
            for j, extra in enumerate(TAP_EXTRA_BLUE):
                am[n + j] = copy.deepcopy(extra)
        if a["type"] != persona:
            continue
        st_ = a["agent_settings"]
        for k in ("start_step", "frequency", "variance", "repeat_kill_chain", "repeat_kill_chain_stages"):
            st_[k] = s[k]
        st_["starting_nodes"] = list(s["starting_nodes"])
        if s.get("default_starting_node"):
            st_["default_starting_node"] = s["default_starting_node"]
        kc = st_["kill_chain"]
        for stage, p in s["probs"].items():
            kc[stage]["probability"] = p
        if persona == "tap-001":
            o = s["tap001"]
            kc["PROPAGATE"]["network_addresses"] = [NETS[i] for i in o["nets"]]
            kc["PROPAGATE"]["scan_attempts"] = o["scan_attempts"]
            kc["PROPAGATE"]["repeat_scan"] = o["repeat_scan"]
            kc["PAYLOAD"]["exfiltrate"] = o["exfiltrate"]
            kc["PAYLOAD"]["corrupt"] = o["corrupt"]
            kc["PAYLOAD"]["continue_on_failed_exfil"] = o["continue_on_failed_exfil"]
        else:
            o = s["tap003"]
            kc["MANIPULATION"]["account_changes"] = kc["MANIPULATION"]["account_changes"][: o["n_changes"]]
            kc["EXPLOIT"]["malicious_acls"] = kc["EXPLOIT"]["malicious_acls"][: o["n_acls"]]
    return cfg


# ---------------------------------------------------------------------------------------------------------------------
# oracles


def _acts(hist) -> List[Tuple[int, str, Dict]]:
    return [(h.timestep, h.action, h.parameters) for h in hist if h.action != "do-nothing"]


def check_periodic(res: CaseResult, a: Dict, hist: List, T: int, ep: int) -> int:
    """Oracle for periodic-agent / red-database-corrupting-agent over one episode of T steps. Returns #non-idle actions."""
    typ = TYPE_OF[a["kind"]]
    start = a["start_step"] if a.get("start_step") is not None else 5
    sv = a["start_variance"] if a.get("start_variance") is not None else 0
    f = a["frequency"] if a.get("frequency") is not None else 5
    v = a["variance"] if a.get("variance") is not None else 0
    mx = a["max_executions"] if a.get("max_executions") is not None else 999999
    app = a.get("target_application") or "data-manipulation-bot"
    where = f"episode {ep} agent {typ} settings start={start}+-{sv} freq={f}+-{v} max={mx} nodes={a['nodes']}"
    acts = _acts(hist)
    ts = [t for t, _, _ in acts]
    nodes_used = []
    for t, act, par in acts:
        if act != "node-application-execute" or par.get("application_name") != app:
            res.violate(f"foreign-action:{typ}", f"{where}: step {t} chose {act} {par}, configured target application {app}")
        else:
            nodes_used.append(par.get("node_name"))
            if par.get("node_name") not in a["nodes"]:
                res.violate(f"start-node-not-configured:{typ}", f"{where}: step {t} executed from {par.get('node_name')}")
    if len(set(nodes_used)) > 1:
        res.violate(f"start-node-changed:{typ}", f"{where}: nodes used in one episode {nodes_used}")
    lo, hi = start - sv, start + sv
    if ts:
        if ts[0] < lo:
            res.violate(f"acts-before-start:{typ}", f"{where}: first non-idle action at step {ts[0]} < {lo}")
        if ts[0] > hi:
            res.violate(f"first-action-late:{typ}", f"{where}: first non-idle action at step {ts[0]} > {hi}")
    elif lo >= 0 and hi < T and mx >= 1:
        res.violate(f"no-action-in-start-window:{typ}", f"{where}: {T} steps, no action inside [{lo},{hi}]")
    for x, y in zip(ts, ts[1:]):
        if not (f - v <= y - x <= f + v):
            res.violate(f"gap-out-of-range:{typ}", f"{where}: consecutive actions at {x} and {y}, gap {y - x} not in [{f - v},{f + v}]")
    if ts and len(ts) < mx and ts[-1] + f + v < T:
        res.violate(f"missed-execution:{typ}", f"{where}: last action at {ts[-1]}, none by {ts[-1] + f + v} in {T} steps "
                                               f"({len(ts)} executions so far)")
    if len(ts) > mx:
        res.violate(f"count-exceeds-max-executions:{typ}", f"{where}: {len(ts)} executions at steps {ts[:8]}")
    return len(ts)


def _same_opts(x: Dict, y: Dict) -> bool:
    return x == y or {k: str(v) for k, v in x.items()} == {k: str(v) for k, v in y.items()}


def check_prob(res: CaseResult, a: Dict, hist: List, ep: int) -> int:
    typ = TYPE_OF[a["kind"]]
    amap = [PROB_POOL[p] for p in a["map"]]
    n = 0
    w = None
    if a["kind"] == "prob":
        w = {int(j): x for j, x in a["probs"]}
    for h in hist:
        idx = [j for j, e in enumerate(amap) if e["action"] == h.action and _same_opts(e["options"], h.parameters)]
        if h.action != "do-nothing":
            n += 1
        if not idx:
            res.violate(f"action-not-in-map:{typ}", f"episode {ep} step {h.timestep}: {h.action} {h.parameters} is no "
                                                    f"entry of the configured action map")
            continue
        if w is not None:
            j = idx[0]
            if w[j] == 0:
                # "probability 1 is always chosen" is the same statement (the table sums to 1), so one clause suffices
                order = "" if [k for k, _ in a["probs"]] == sorted(w) else ":unsorted-keys"
                res.violate(f"prob0-action-chosen:probabilistic-agent{order}",
                            f"episode {ep} step {h.timestep}: chose action_map[{j}] = {h.action} {h.parameters} whose "
                            f"configured probability is 0 (action_probabilities written in the order "
                            f"{[[k, x] for k, x in a['probs']]} as [index, weight], weight/total = probability)")
    return n


def _act_key(h) -> str:
    """Structural key of an action: its type, plus the application for install/execute (fixed names of the persona)."""
    if h.action in ("node-application-install", "node-application-execute"):
        return f"{h.action}:{h.parameters.get('application_name')}"
    return h.action


def stage_name(persona: str, v: int) -> str:
    names = {NOT_STARTED: "NOT_STARTED", SUCCEEDED: "SUCCEEDED", FAILED: "FAILED"}
    if v in names:
        return names[v]
    inv = {1: "DOWNLOAD", 2: "INSTALL", 3: "ACTIVATE", 4: "PROPAGATE", 5: "COMMAND_AND_CONTROL", 6: "PAYLOAD"} \
        if persona == "tap-001" else {1: "RECONNAISSANCE", 2: "PLANNING", 3: "ACCESS", 4: "MANIPULATION", 5: "EXPLOIT"}
    return inv.get(v, str(v))


def check_tap(res: CaseResult, case: Dict, hist: List, stages: List[int], ep: int) -> Tuple[int, int]:
    """stages[0] is sampled after reset, stages[t+1] after step t. Returns (#non-idle actions, #stage advances)."""
    persona = case["persona"]
    P = PERSONA[persona]
    s = case["settings"]
    last = P["last"]
    repeat = s["repeat_kill_chain"]
    f, v, start = s["frequency"], s["variance"], s["start_step"]
    where = (f"episode {ep} {persona} start={start} freq={f}+-{v} repeat={repeat} "
             f"repeat_stages={s['repeat_kill_chain_stages']} probs={s['probs']}")
    nm = lambda x: stage_name(persona, x)  # noqa: E731
    if stages[0] != NOT_STARTED:
        res.violate(f"initial-stage-not-NOT_STARTED:{persona}", f"{where}: after reset the stage is {nm(stages[0])}")
    prob0 = {num: name for name, num in P["prob_stages"].items() if s["probs"].get(name) == 0}
    advances = 0
    events: List[int] = []
    concluded_at: Optional[int] = None
    for t in range(len(stages) - 1):
        a, b = stages[t], stages[t + 1]
        h = hist[t] if t < len(hist) else None
        non_idle = h is not None and h.action != "do-nothing"
        if a != b or non_idle:
            events.append(t)
        if not repeat and concluded_at is not None:
            if a != b and b != FAILED:
                res.violate(f"left-terminal-without-repeat:{persona}",
                            f"{where}: stage was {nm(stages[concluded_at + 1])} after step {concluded_at}, then "
                            f"{nm(a)} -> {nm(b)} at step {t} although repeat_kill_chain is false")
            if non_idle:
                res.violate(f"acts-after-conclusion:{persona}",
                            f"{where}: kill chain ended ({nm(stages[concluded_at + 1])}) after step {concluded_at} but step {t} "
                            f"chose {h.action}")
        if a == b:
            if not repeat and concluded_at is None and b in (SUCCEEDED, FAILED):
                concluded_at = t
            continue
        ok = False
        if b == FAILED:
            ok = True
            # repeat_kill_chain_stages (TAP notebooks: "Indicates if the kill_chain stage should reset upon failure or retry";
            # _agent_trial_handler / _tap_return_handler log "Retrying from stage <name>" and set FAILED only "if the relevant
            # setting is set"): with the flag true neither a failed probability trial nor a failed action fails the chain,
            # the agent stays on the stage and tries again at its next slot (with probability 0: for ever).
            if s["repeat_kill_chain_stages"] and a != SUCCEEDED:
                trial = " (an idle step on a stage with probability of success < 1: a failed trial)" \
                    if (not non_idle and s["probs"].get(nm(a), 1) < 1) else ""
                res.violate(f"failed-despite-stage-retry:{persona}:{nm(a)}",
                            f"{where}: stage moved {nm(a)} -> FAILED at step {t}{trial} although repeat_kill_chain_stages is "
                            f"true (retry the stage, do not fail the chain); action of that step: {h.action if h else None}")
        elif a == NOT_STARTED:
            ok = b == 1
        elif 1 <= a < last:
            ok = b == a + 1
        elif a == last:
            ok = b == SUCCEEDED
        if not ok and repeat and b in (NOT_STARTED, 1):
            ok = True  # (a ->) SUCCEEDED/FAILED -> NOT_STARTED (-> first stage) inside one step
        if 1 <= a <= last and (b == a + 1 or (a == last and b == SUCCEEDED)):
            advances += 1
            if a in prob0:
                res.violate(f"prob0-stage-passed:{persona}:{prob0[a]}",
                            f"{where}: stage {nm(a)} has probability of success 0 but the kill chain moved {nm(a)} -> {nm(b)} "
                            f"at step {t}")
        if not ok:
            if 1 <= b <= last and ((1 <= a <= last and b > a + 1) or (a == NOT_STARTED and b > 1)) or \
                    (b == SUCCEEDED and 1 <= a < last) or (b == SUCCEEDED and a == NOT_STARTED):
                sig = "stage-skipped"
            elif 1 <= a <= last and 1 <= b < a:
                sig = "stage-backwards"
            else:
                sig = "stage-illegal-transition"
            res.violate(f"{sig}:{persona}", f"{where}: stage moved {nm(a)} -> {nm(b)} at step {t}")
        if not repeat and concluded_at is None and b in (SUCCEEDED, FAILED):
            concluded_at = t
    # repeat_kill_chain_stages false: the first execution slot on a stage whose probability of success is 0 fails the chain
    # (then repeat_kill_chain decides between stopping and restarting - checked by the transition rules above). The slot comes at
    # most frequency + variance steps after the stage was entered, so the stage cannot be sampled more often than that in a row.
    if not s["repeat_kill_chain_stages"]:
        run_start = 0
        for i in range(1, len(stages) + 1):
            if i == len(stages) or stages[i] != stages[run_start]:
                a0 = stages[run_start]
                if a0 in prob0 and i - run_start > f + v and not (persona == "tap-001" and prob0[a0] == "ACTIVATE"):
                    res.violate(f"prob0-stage-retried-without-stage-retry:{persona}:{prob0[a0]}",
                                f"{where}: stage {nm(a0)} (probability of success 0) was held for {i - run_start} steps from step "
                                f"{run_start}; with repeat_kill_chain_stages false the first slot on it (at most {f + v} steps "
                                f"after entering) has to fail the chain")
                run_start = i
    # timing: lower bounds only
    if events and events[0] < start - v:
        res.violate(f"acts-before-start:{persona}", f"{where}: first action/stage change at step {events[0]} < {start - v}")
    for x, y in zip(events, events[1:]):
        if y - x < f - v:
            res.violate(f"gap-below-frequency:{persona}", f"{where}: events at steps {x} and {y}, gap {y - x} < {f - v}")
    # where and how
    allowed_nodes = list(s["starting_nodes"]) or [s.get("default_starting_node") or START_NODES[0]]
    used = []
    n_act = 0
    for t, act, par in _acts(hist):
        n_act += 1
        if act not in P["actions"]:
            res.violate(f"foreign-action:{persona}", f"{where}: step {t} chose {act}, not in the persona's documented action set")
            continue
        node = par.get("node_name", par.get("source_node"))
        if act.startswith("c2-server-"):
            if node != C2_SERVER:
                res.violate(f"c2-action-not-on-c2-server:{persona}", f"{where}: step {t} {act} on {node}")
        elif node == C2_SERVER and C2_SERVER not in allowed_nodes:
            # its own clause (structural key: the persona's C2 server host), so that the open finding about it cannot hide
            # any other departure from the configured start nodes
            res.violate(f"start-node-action-on-c2-server:{persona}",
                        f"{where}: step {t} {act} {par} was aimed at the C2 server {C2_SERVER}, configured start nodes {allowed_nodes}")
        else:
            used.append(node)
            if node not in allowed_nodes:
                res.violate(f"start-node-not-configured:{persona}", f"{where}: step {t} {act} from {node}, configured {allowed_nodes}")
        if persona == "tap-001":
            o = s["tap001"]
            if act == "c2-server-data-exfiltrate" and not o["exfiltrate"]:
                res.violate("action-disabled-by-option:tap-001:exfiltrate", f"{where}: step {t} {act} with PAYLOAD.exfiltrate false")
            if act == "c2-server-ransomware-launch" and not o["corrupt"]:
                res.violate("action-disabled-by-option:tap-001:corrupt", f"{where}: step {t} {act} with PAYLOAD.corrupt false")
    if len(set(used)) > 1:
        res.violate(f"start-node-changed:{persona}", f"{where}: nodes used in one episode {sorted(set(used))}")
    # an action that was not answered "success" is retried or ends the chain (AbstractTAP._tap_return_handler: "Returns
    # False if the previous action was any other state (Including Pending and Failure)"; notebooks: repeat_kill_chain_stages
    # "Indicates if the kill_chain stage should reset upon failure or retry"). The stage variable itself moves when the
    # stage's last action is *chosen*, so the observable statement is about what the agent does next: the next event after
    # an unsuccessful action is the same action again (stage unchanged) or an idle step on which the chain shows
    # FAILED / NOT_STARTED - never a different action and never a further stage change.
    # Documented exceptions: the PROPAGATE scans ("handles simulation failure independently") and a failed exfiltration
    # with PAYLOAD.continue_on_failed_exfil.
    for t, h in enumerate(hist):
        if h.action == "do-nothing" or h.response.status == "success" or h.action in SCAN_ACTIONS:
            continue
        if persona == "tap-001" and h.action == "c2-server-data-exfiltrate" and s["tap001"]["continue_on_failed_exfil"]:
            continue
        for u in range(t + 1, min(len(hist), len(stages) - 1)):
            hu = hist[u]
            changed = stages[u + 1] != stages[u]
            if hu.action == "do-nothing" and not changed:
                continue
            retry = hu.action == h.action and _same_opts(hu.parameters, h.parameters) and not changed
            gave_up = hu.action == "do-nothing" and stages[u + 1] in (FAILED, NOT_STARTED)
            if not (retry or gave_up):
                res.violate(f"proceeds-after-unsuccessful-action:{persona}:{_act_key(h)}",
                            f"{where}: step {t} {h.action} {h.parameters} was answered {h.response.status!r} "
                            f"({str(h.response.data)[:80]}); the next thing the agent did (step {u}) was {hu.action} "
                            f"{hu.parameters if hu.action != h.action else '(other parameters)'} with the stage "
                            f"{nm(stages[u])} -> {nm(stages[u + 1])} instead of retrying or failing the chain")
            break
    # ... and the chain may not stay SUCCEEDED when the action that completed its last stage was not answered success and the
    # agent has had its next execution slot since (with repeat_kill_chain_stages false the next slot turns it into FAILED)
    acts_ = [(t, h) for t, h in enumerate(hist) if h.action != "do-nothing"]
    if acts_ and stages[-1] == SUCCEEDED:
        t, h = acts_[-1]
        exempt = persona == "tap-001" and h.action == "c2-server-data-exfiltrate" and s["tap001"]["continue_on_failed_exfil"]
        if h.response.status != "success" and not exempt and len(hist) - 1 - t > f + v and \
                all(x == SUCCEEDED for x in stages[t + 1:]):
            res.violate(f"succeeded-after-unsuccessful-last-action:{persona}:{_act_key(h)}",
                        f"{where}: the last action of the chain, step {t} {h.action} {h.parameters}, was answered "
                        f"{h.response.status!r} ({str(h.response.data)[:80]}); {len(hist) - 1 - t} steps later the stage is "
                        f"still SUCCEEDED and the action was never retried")
    if FAILED in stages:
        res.label("episodes-with-FAILED-chain")
    if any(h.response.status == "unreachable" for h in hist):
        res.label("episodes-with-unreachable-red-response")
    if any(h.response.status == "failure" for h in hist if h.action != "do-nothing"):
        res.label("episodes-with-failed-red-response")
    return n_act, advances


# ---------------------------------------------------------------------------------------------------------------------
# driver


def _react(env, blue_map: List[Dict]) -> int:
    """Op ["k"]: a defender that reacts to what it sees. If the application the threat actor installed most recently
    (successful node-application-install in its history) is still on that node, choose the blue action that removes it;
    otherwise stay idle. Deterministic given the case, so the case stays a pure description of the run."""
    ag = env.game.agents.get("attacker")
    if ag is None:
        return 0
    for h in reversed(ag.history):
        if h.action == "node-application-install" and h.response.status == "success":
            node, app = h.parameters.get("node_name"), h.parameters.get("application_name")
            n = env.game.simulation.network.get_node_by_hostname(node)
            if n is not None and app in n.software_manager.software:
                for i, a in enumerate(blue_map):
                    if a["action"] == "node-application-remove" and a["options"] == {"node_name": node, "application_name": app}:
                        return i
            return 0
    return 0


def run_case(case: Dict) -> CaseResult:
    res = CaseResult()
    fam = case["fam"]
    if fam == "sched":
        cfg = sched_cfg(case)
        refs = {f"s{i}": a for i, a in enumerate(case["agents"])}
        blue_map = SCHED_BLUE
        interfere_actions = ("node-shutdown", "node-application-remove", "router-acl-add-rule")
    else:
        cfg = tap_cfg(case)
        refs = {"attacker": None}
        blue_map = tap_blue_map(case["persona"])
        interfere_actions = TAP_INTERFERE_ACTIONS
    try:
        env = new_env(cfg)
    except Exception as e:
        res.violate(f"raise:build:{exc_sig(e)}", f"building the environment: {exc_msg(e)}")
        return res

    ep = 0
    T = 0
    stages: List[int] = []
    best_acts = 0
    best_adv = 0
    interfered = False
    episodes_with_steps = 0

    def close_episode():
        nonlocal best_acts, best_adv, episodes_with_steps
        if T == 0:
            return
        episodes_with_steps += 1
        for ref, a in refs.items():
            ag = env.game.agents[ref]
            hist = list(ag.history)
            if fam == "tap":
                n, adv = check_tap(res, case, hist, stages, ep)
                best_adv = max(best_adv, adv)
            elif a["kind"] in ("periodic", "dm"):
                n = check_periodic(res, a, hist, T, ep)
            else:
                n = check_prob(res, a, hist, ep)
            best_acts = max(best_acts, n)

    def sample():
        if fam == "tap":
            stages.append(int(env.game.agents["attacker"].current_kill_chain_stage))

    ops = [["r", case["seed"]]] + [list(o) for o in case["ops"]]
    for i, op in enumerate(ops):
        if op[0] == "r":
            close_episode()
            try:
                env.reset(seed=op[1]) if op[1] is not None else env.reset()
            except Exception as e:
                res.violate(f"raise:reset:{exc_sig(e)}", f"op#{i} {op}: {exc_msg(e)}")
                return res
            ep += 1
            T = 0
            stages = []
            sample()
        else:
            b = _react(env, blue_map) if op[0] == "k" else op[1] % len(blue_map)
            if blue_map[b]["action"] in interfere_actions:
                interfered = True
            try:
                env.step(b)
            except Exception as e:
                kinds = "+".join(sorted({a["kind"] for a in case["agents"]})) if fam == "sched" else case["persona"]
                res.violate(f"raise:step:{exc_sig(e)}", f"op#{i} {op} episode {ep} step {T} (agents {kinds}): {exc_msg(e)}")
                return res
            T += 1
            sample()
    close_episode()

    res.nontrivial = bool(interfered and episodes_with_steps >= 2 and (best_acts >= 2 or best_adv >= 2))
    res.label(f"fam:{fam}" if fam == "sched" else f"fam:{case['persona']}")
    if interfered:
        res.label("blue-interference")
    if any(o[0] == "k" for o in case["ops"]):
        res.label("has-reactive-uninstall-op")
    if episodes_with_steps >= 2:
        res.label("episodes>=2")
    if best_acts >= 2:
        res.label("nonidle>=2")
    if fam == "tap":
        res.label(f"stage-advances:{min(best_adv, 6)}")
        if best_adv >= PERSONA[case["persona"]]["last"]:
            res.label("kill-chain-completed")
        if any(p == 0 for p in case["settings"]["probs"].values()):
            res.label("tap-has-prob0-stage")
        if case["settings"]["repeat_kill_chain"]:
            res.label("tap-repeat")
        st_ = case["settings"]
        res.label(f"flags:repeat_kill_chain={int(st_['repeat_kill_chain'])},repeat_kill_chain_stages={int(st_['repeat_kill_chain_stages'])}")
        if any(0 < p < 1 for p in st_["probs"].values()):
            res.label("tap-has-fractional-probability")
    else:
        for a in case["agents"]:
            res.label(f"kind:{a['kind']}")
            if a["kind"] in ("periodic", "dm"):
                if (a.get("start_variance") or 0) > (a.get("start_step") if a.get("start_step") is not None else 5):
                    res.label("start-window-partly-negative")
                if a.get("max_executions") is not None:
                    res.label("max_executions-set")
            if a["kind"] == "prob":
                if any(w == 0 for _, w in a["probs"]):
                    res.label("prob-has-zero")
                if [j for j, _ in a["probs"]] != sorted(j for j, _ in a["probs"]):
                    res.label("prob-keys-unsorted")
    for x in case.get("excl", ()):
        res.label(f"excluded:{x}")
    if res.nontrivial:
        res.label("nontrivial")
    return res


# ---------------------------------------------------------------------------------------------------------------------
# generators
#
# Exclusions by construction (switched on only while the listed finding is open AND still reproduces at start-up):
#   C19-random-agent-get-action   every game with a random-agent dies on its first step -> 'random' is drawn as 'prob'
#   C19-prob-key-order            tables are written in ascending key order
#   C19-tap-slot-zero-crash       start_step - variance >= 1 for threat actors
# Excluded draws are recorded in case["excl"] and counted with the label "excluded:<id>".

X_RANDOM = "C19-random-agent-get-action"
X_KEYS = "C19-prob-key-order"
X_SLOT0 = "C19-tap-slot-zero-crash"


@st.composite
def periodic_settings(draw, kind: str):
    f = draw(st.integers(1, 8))
    a: Dict[str, Any] = {
        "kind": kind,
        "start_step": draw(st.one_of(st.none(), st.integers(0, 12))),
        "start_variance": draw(st.one_of(st.none(), st.integers(0, 4))),
        "frequency": f,
        "variance": draw(st.integers(0, f - 1)),
        "max_executions": draw(st.one_of(st.none(), st.integers(0, 4))),
        "nodes": draw(st.lists(st.sampled_from(CLIENTS), min_size=1, max_size=3, unique=True)),
    }
    if kind == "periodic":
        a["target_application"] = draw(st.sampled_from(APPS))
    else:
        a["target_application"] = draw(st.sampled_from([None, "data-manipulation-bot"]))
    return a


@st.composite
def prob_settings(draw, kind: str, excl, used: List[str]):
    n = draw(st.integers(1, 5))
    amap = draw(st.lists(st.integers(0, len(PROB_POOL) - 1), min_size=n, max_size=n, unique=True))
    a: Dict[str, Any] = {"kind": kind, "map": amap}
    if kind == "prob":
        shape = draw(st.sampled_from(["onehot", "zeros", "any"]))
        if shape == "onehot":
            k = draw(st.integers(0, n - 1))
            w = [1 if j == k else 0 for j in range(n)]
        else:
            w = draw(st.lists(st.sampled_from([0, 0, 1, 2, 3] if shape == "zeros" else [0, 1, 2, 3, 5]), min_size=n, max_size=n))
            if sum(w) == 0:
                w[draw(st.integers(0, n - 1))] = 1
        order = list(range(n))
        if draw(st.booleans()):
            if X_KEYS in excl:
                used.append(X_KEYS)
            else:
                order = list(draw(st.permutations(order)))
        a["probs"] = [[j, w[j]] for j in order]
    return a


def _ops_strategy(n_blue: int, strong: List[int], lo: int, hi: int, idle_weight: int, allow_quiet: bool,
                  reactive: bool = False, sniper: bool = False):
    step = st.one_of(*([st.just(["s", 0])] * idle_weight),
                     *([st.just(["k"])] if reactive else []),
                     st.sampled_from(strong).map(lambda i: ["s", i]),
                     st.integers(0, n_blue - 1).map(lambda i: ["s", i]))

    @st.composite
    def ops(draw):
        n_ep = draw(st.sampled_from([2, 2, 2, 3]))
        quiet = allow_quiet and draw(st.booleans())  # first episode without interference: chains run to the end
        out: List = []
        for e in range(n_ep):
            if e:
                out.append(["r", draw(st.one_of(st.none(), st.integers(0, 50)))])
            n = draw(st.integers(lo, hi))
            if quiet and e == 0:
                out.extend([["s", 0]] * n)
            elif sniper and draw(st.booleans()):
                # "sniper" episode: the defender removes whatever the attacker installs, right after it appears, and is
                # otherwise idle - requests aimed at the removed application come back "unreachable", not "failure"
                out.extend(draw(st.lists(st.sampled_from([["k"], ["k"], ["k"], ["s", 0]]), min_size=n, max_size=n)))
            else:
                out.extend(draw(st.lists(step, min_size=n, max_size=n)))
        return out

    return ops()


@st.composite
def sched_case(draw, max_steps: int = 45, excl=()):
    kinds = draw(st.lists(st.sampled_from(["periodic", "periodic", "dm", "prob", "prob", "random"]), min_size=1, max_size=3))
    agents = []
    used: List[str] = []
    for k in kinds:
        if k == "random" and X_RANDOM in excl:
            k = "prob"
            used.append(X_RANDOM)
        agents.append(draw(periodic_settings(k) if k in ("periodic", "dm") else prob_settings(k, excl, used)))
    case = {"fam": "sched", "seed": draw(st.integers(0, 10_000)), "dur": draw(st.sampled_from([0, 1, 2])),
            "blue_pos": draw(st.integers(0, 3)), "agents": agents,
            "ops": draw(_ops_strategy(len(SCHED_BLUE), SCHED_INTERFERE, 8, max_steps, 3, False))}
    if used:
        case["excl"] = sorted(set(used))
    return case


@st.composite
def tap_case(draw, persona: str, max_steps: int = 60, slow_nets: bool = False, excl=()):
    f = draw(st.sampled_from([1, 1, 1, 1, 2, 2, 3, 4]))
    P = PERSONA[persona]
    v = draw(st.integers(0, f - 1))
    used: List[str] = []
    start = draw(st.integers(0, 6))
    if start - v < 1 and X_SLOT0 in excl:
        start = v + 1
        used.append(X_SLOT0)
    # at most one stage with probability 0 (it ends the chain there), the others 1 or 1/2
    probs = {name: draw(st.sampled_from([1, 1, 1, 0.5, 0.3, 0.7])) for name in P["prob_stages"]}
    if draw(st.integers(0, 2)) == 0:
        probs[draw(st.sampled_from(sorted(P["prob_stages"])))] = 0
    # all four flag combinations on purpose (st.booleans() twice gave (False, False) half of the time)
    flags = draw(st.sampled_from([[False, False], [False, True], [False, True], [True, False], [True, True]]))
    settings: Dict[str, Any] = {
        "start_step": start,
        "frequency": f,
        "variance": v,
        "repeat_kill_chain": flags[0],
        "repeat_kill_chain_stages": flags[1],
        "starting_nodes": draw(st.one_of(st.just([]), st.lists(st.sampled_from(START_NODES), min_size=1, max_size=3, unique=True))),
        "default_starting_node": draw(st.sampled_from(START_NODES)),
        "probs": probs,
    }
    if persona == "tap-001":
        pool = [0, 1, 2, 4] + ([3] if slow_nets else [])
        nets = draw(st.lists(st.sampled_from(pool), min_size=1, max_size=3, unique=True))
        if draw(st.integers(0, 3)) and 2 not in nets:
            nets.append(2)  # the target's subnet is usually on the list, so that PROPAGATE can succeed
        settings["tap001"] = {
            "nets": nets, "scan_attempts": draw(st.sampled_from([1, 3, 20, 20])), "repeat_scan": draw(st.booleans()),
            "exfiltrate": draw(st.booleans()), "corrupt": draw(st.booleans()),
            "continue_on_failed_exfil": draw(st.booleans()),
        }
    else:
        settings["tap003"] = {"n_changes": draw(st.integers(0, 3)), "n_acls": draw(st.integers(1, 3))}
    bm = tap_blue_map(persona)
    strong = [i for i, a in enumerate(bm) if a["action"] in TAP_INTERFERE_ACTIONS]
    ops = draw(_ops_strategy(len(bm), strong, max(8, max_steps * 2 // 3), max_steps, 10, True, reactive=True,
                             sniper=persona == "tap-001"))  # only tap-001 installs applications
    if persona == "tap-001" and draw(st.integers(0, 3)) == 0:
        # steered sub-family (measured: "unreachable" answers to red were near zero without it): a chain that reaches
        # COMMAND_AND_CONTROL quickly against a defender that uninstalls what the attacker installs as soon as it appears
        settings.update(frequency=1, variance=0, probs={name: 1 for name in P["prob_stages"]})
        settings["start_step"] = max(1, min(settings["start_step"], 3))
        settings["tap001"].update(nets=draw(st.sampled_from([[2], [0, 2], [4, 2]])), scan_attempts=20)
        ops = [o if o[0] == "r" else draw(st.sampled_from([["k"], ["k"], ["k"], ["s", 0]])) for o in ops]
    case = {"fam": "tap", "persona": persona, "seed": draw(st.integers(0, 10_000)), "settings": settings, "ops": ops}
    if used:
        case["excl"] = used
    return case


def worker(ctx: Ctx):
    q = ctx.tier == "quick"
    excl = tuple(k for k, on in ctx.excl.items() if on)
    hyp_run(ctx, sched_case(45 if q else 70, excl=excl), run_case, 36 if q else 800, sub=0)
    hyp_run(ctx, tap_case("tap-003", 32 if q else 70, excl=excl), run_case, 4 if q else 26, sub=1)
    hyp_run(ctx, tap_case("tap-001", 32 if q else 70, slow_nets=not q, excl=excl), run_case, 4 if q else 26, sub=2)
