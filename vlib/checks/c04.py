"""C04 — episodes and environment instances are isolated from one another (DESIGN §C04)."""
from __future__ import annotations

import copy
import hashlib
import json
import random
from typing import Any, Dict, List, Optional, Tuple

import numpy as np
from hypothesis import strategies as st

from .. import entropy
from ..envdrive import case_cfg, expand_ops, gen_case_strategy, ops_strategy, resolve_action, shipped_case_strategy
from ..harness import CaseResult, Ctx, hyp_run
from ..simutil import exc_msg, exc_sig, norm_state
from ..traj_worker import canon, step_digest
from .c01 import usable_shipped

ID = "C04"
WORKERS = {"quick": 8, "thorough": 16}
SHRINK_KEY = ["history", "ops"]
RULE = (
    "(a) episode isolation: case = (scenario, seed s, dirty history H of 1-3 episodes biased to power changes, ACL edits, "
    "file corrupt/delete, logins, installs, red attacks; later actions A). Run 1 = construct, H, reset(seed=s), A; run 2 = "
    "fresh environment, reset(seed=s), A; trajectories (observation, reward, every agent's action/response) and the "
    "normalised simulation state must be identical at every step, and no SimComponent/agent/manager object of the old "
    "game may be reachable from the new one. (b) reset == construction: a freshly constructed environment (config seed s) "
    "vs the same configuration after reset(seed=s). (c) instance isolation: two environments with different options "
    "(nmne_config, pcap/sys-log saving, thresholds, durations) under a generated interleaving of construct/step/reset "
    "calls; X's trajectory must equal X's solo trajectory (global Python/NumPy RNG and harness entropy are saved and "
    "restored around every call on the other instance); (d) the same (scenario, reset(seed), actions) in a pristine "
    "interpreter vs in the worker process after ANOTHER environment with different process-wide options (NMNE capture, "
    "log saving, a shipped scenario) was built and used: state after reset, observations, rewards, agent histories and "
    "per-step state must be equal. Reset seeds include 0 in a fifth of the cases. Non-trivial = H changed the state in >=3 top-level subsystems "
    "or an interleaving with >=2 switches between instances with differing options; distinct by case hash."
)
ASSUMPTIONS = [
    "Python's and NumPy's global RNGs are shared by design: the harness equalises them, any remaining difference is leaked state",
    "harness entropy (uuid4/secrets/clock) is restarted at the same logical point in both runs of a differential",
]


def _state_hash(game) -> str:
    return hashlib.sha1(json.dumps(canon(norm_state(game.simulation.describe_state())), sort_keys=True).encode()).hexdigest()


def _subsystem_diff(a: Dict, b: Dict) -> int:
    """How many (node, subsystem) pairs differ between two normalised states (a measure of how dirty H made things)."""
    n = 0
    na, nb = a.get("network", {}).get("nodes", {}), b.get("network", {}).get("nodes", {})
    for host in set(na) | set(nb):
        x, y = na.get(host, {}), nb.get(host, {})
        for k in set(x) | set(y):
            if x.get(k) != y.get(k):
                n += 1
    return n


def _leaf_key(path: str) -> str:
    import re

    parts = [p for p in path.split("/") if p]
    keep = [re.sub(r"\d+", "*", p) for p in parts if not re.search(r"[<>]|^z\d+h\d+$|^sw\d+$|^r\d+$|^fw$|\.", p)]
    return "/".join(keep[-3:]) if keep else "?"


def obs_diff_key(a, b, path="") -> Optional[str]:
    if isinstance(a, dict) and isinstance(b, dict):
        for k in sorted(set(a) | set(b), key=str):
            if a.get(k, "<absent>") != b.get(k, "<absent>"):
                return obs_diff_key(a.get(k, "<absent>"), b.get(k, "<absent>"), f"{path}/{k}")
        return None
    if a != b:
        return _leaf_key(path) if path else "flat"
    return None


def drive(env, ops: List, meta, record: Optional[List], label: str, keep_state: bool = False, mask_at: Optional[int] = None):
    """Apply ops; append digests to record. Returns an error tuple or None.

    mask_at: read env.action_masks() (the call a policy makes) ONLY when the episode's step counter equals that value -
    also while record is None - so that a value remembered from an earlier episode is not refreshed in between."""
    for i, op in enumerate(expand_ops(ops, meta)):
        try:
            if op[0] == "reset":
                obs, _ = env.reset(seed=op[1]) if op[1] is not None else env.reset()
                if record is not None:
                    record.append({"k": "reset", "obs": canon(obs), "state": _state_hash(env.game)})
                    if keep_state:
                        record[-1]["state_full"] = canon(norm_state(env.game.simulation.describe_state()))
            else:
                a = resolve_action(op, env.action_space.n, meta)
                obs, reward, term, trunc, info = env.step(a)
                if record is not None:
                    d = step_digest(obs, reward, env.game, norm_state)
                    d["k"] = "step"
                    d["trunc"] = bool(trunc)
                    d["state"] = _state_hash(env.game)
                    if keep_state:
                        d["state_full"] = canon(norm_state(env.game.simulation.describe_state()))
                    record.append(d)
                if mask_at is not None and env.game.step_counter == mask_at:
                    m = [int(x) for x in env.action_masks()]
                    if record is not None:
                        record[-1]["env_mask"] = m
        except Exception as e:
            return (label, i, exc_sig(e), exc_msg(e))
    return None


def first_difference(r1: List[Dict], r2: List[Dict]) -> Optional[Tuple[str, str]]:
    if len(r1) != len(r2):
        return ("length", f"{len(r1)} vs {len(r2)} records")
    for i, (a, b) in enumerate(zip(r1, r2)):
        if a["k"] != b["k"]:
            return ("kind", f"record {i}")
        if a["k"] == "reset":
            if a["obs"] != b["obs"]:
                return (f"first-obs:{obs_diff_key(a['obs'], b['obs'])}", f"record {i}: observation returned by reset differs")
            if a["state"] != b["state"]:
                return (f"state-after-reset{_state_key(a, b)}", f"record {i}: normalised state after reset differs {_state_paths(a, b)}")
            continue
        for name in sorted(set(a["agents"]) | set(b["agents"])):
            if a["agents"].get(name) != b["agents"].get(name):
                act = (a["agents"].get(name) or b["agents"].get(name))[0]
                return (f"agent:{act}", f"record {i}: agent {name}: {json.dumps(a['agents'].get(name))[:250]} vs {json.dumps(b['agents'].get(name))[:250]}")
        if a["obs"] != b["obs"]:
            return (f"obs:{obs_diff_key(a['obs'], b['obs'])}", f"record {i}: observations differ")
        if a["reward"] != b["reward"]:
            return ("reward", f"record {i}: {a['reward']} vs {b['reward']}")
        if a["trunc"] != b["trunc"]:
            return ("truncated", f"record {i}")
        if a.get("masks") != b.get("masks"):
            return ("action-mask", f"record {i}: action masks differ: {_mask_diff(a.get('masks'), b.get('masks'))}")
        if a.get("env_mask") != b.get("env_mask"):
            return ("env-action-mask", f"record {i}: env.action_masks() read at step {i} differs: "
                                       f"{_mask_diff({'blue': a.get('env_mask')}, {'blue': b.get('env_mask')})}")
        if a["state"] != b["state"]:
            return (f"state{_state_key(a, b)}", f"record {i}: normalised simulation state differs {_state_paths(a, b)}")
    return None


def _mask_diff(ma, mb) -> str:
    for name in sorted(set(ma or {}) | set(mb or {})):
        x, y = (ma or {}).get(name), (mb or {}).get(name)
        if x != y:
            if isinstance(x, list) and isinstance(y, list) and len(x) == len(y):
                idx = [i for i in range(len(x)) if x[i] != y[i]]
                return f"agent {name}: {len(idx)} entries differ, first at index {idx[0]} ({x[idx[0]]} vs {y[idx[0]]})"
            return f"agent {name}: {str(x)[:60]} vs {str(y)[:60]}"
    return ""


def _state_paths(a, b):
    if "state_full" in a and "state_full" in b:
        return state_diff_paths(a["state_full"], b["state_full"])
    return ""


def _state_key(a, b) -> str:
    ps = _state_paths(a, b)
    if not ps:
        return ""
    return ":" + _leaf_key(ps[0].split(":")[0])


def state_diff_paths(s1: Any, s2: Any, path="", out=None, limit=4):
    out = [] if out is None else out
    if len(out) >= limit:
        return out
    if isinstance(s1, dict) and isinstance(s2, dict):
        for k in sorted(set(s1) | set(s2), key=str):
            if s1.get(k, "<absent>") != s2.get(k, "<absent>"):
                state_diff_paths(s1.get(k, "<absent>"), s2.get(k, "<absent>"), f"{path}/{k}", out, limit)
    else:
        out.append(f"{path}: {str(s1)[:60]} vs {str(s2)[:60]}")
    return out


def reachable_ids(game) -> Dict[int, str]:
    """ids of SimComponents, agents and managers reachable from a game."""
    from primaite.game.agent.interface import AbstractAgent
    from primaite.simulator.core import RequestManager, SimComponent
    from primaite.simulator.system.core.session_manager import SessionManager
    from primaite.simulator.system.core.software_manager import SoftwareManager

    want = (SimComponent, AbstractAgent, RequestManager, SessionManager, SoftwareManager)
    seen: Dict[int, str] = {}
    visited = set()
    stack = [game]
    while stack:
        o = stack.pop()
        if id(o) in visited:
            continue
        visited.add(id(o))
        if isinstance(o, want):
            seen[id(o)] = type(o).__name__
        if isinstance(o, dict):
            stack.extend(o.values())
        elif isinstance(o, (list, tuple, set, frozenset)):
            stack.extend(o)
        elif hasattr(o, "__dict__") and type(o).__module__.startswith("primaite"):
            stack.extend(vars(o).values())
            extra = getattr(o, "__pydantic_private__", None)
            if extra:
                stack.extend(extra.values())
            ex2 = getattr(o, "__pydantic_extra__", None)
            if ex2:
                stack.extend(ex2.values())
    return seen


def build_env(cfg):
    from primaite.session.environment import PrimaiteGymEnv
    from primaite.simulator.system.core.packet_capture import PacketCapture

    return PrimaiteGymEnv(env_config=copy.deepcopy(cfg))


def run_episode_isolation(case: Dict, res: CaseResult):
    cfg, meta = case_cfg(case)
    s = case["seed"]
    A = case["ops"]
    H = case["history"]
    # run 2 (reference): fresh environment
    entropy.reset()
    try:
        ref_env = build_env(cfg)
    except Exception:
        res.label("build_failed")
        return
    rec2: List[Dict] = []
    entropy.reset()
    mask_at = case.get("mask_at")
    err2 = drive(ref_env, [["reset", s]] + A, meta, rec2, "fresh", mask_at=mask_at)
    # run 1: used environment
    entropy.reset()
    env = build_env(cfg)
    pristine = norm_state(env.game.simulation.describe_state())
    errh = drive(env, H, meta, None, "history", mask_at=mask_at)
    dirty = 0
    try:
        dirty = _subsystem_diff(pristine, norm_state(env.game.simulation.describe_state()))
    except Exception:
        pass
    old_game = env.game
    old_ids = reachable_ids(old_game)
    rec1: List[Dict] = []
    entropy.reset()
    err1 = drive(env, [["reset", s]] + A, meta, rec1, "used", mask_at=mask_at)
    if (err1 is None) != (err2 is None) or (err1 and err2 and err1[2] != err2[2]):
        res.violate(f"episode-leak:exception:{(err1 or err2)[2]}",
                    f"after history H the later episode raised {err1} but the fresh one {err2}")
    else:
        d = first_difference(rec1, rec2)
        if d:
            res.violate(f"episode-leak:{d[0]}", f"used env vs fresh env after reset(seed={s}): {d[1]}")
    if env.game is old_game:
        res.violate("reset-kept-game-object", "env.game is the same object after reset")
    else:
        new_ids = reachable_ids(env.game)
        shared = set(old_ids) & set(new_ids)
        if shared:
            kinds = sorted({old_ids[i] for i in shared})
            res.violate(f"object-shared-across-episodes:{kinds[0]}", f"{len(shared)} objects reachable from both games: {kinds[:6]}")
    res.label("mode:episode", f"dirty:{min(dirty, 9)}", "history_raised" if errh else "history_ok")
    res.nontrivial = dirty >= 3
    del old_game


def run_folder_episode(case: Dict, res: CaseResult):
    """Episode-scheduled scenario folder: episode k of a used environment (k may lie beyond one lap of the schedule) vs
    a fresh environment built from the composed scenario of episode k obtained from a NEW scheduler."""
    from primaite.session.episode_schedule import build_scheduler

    from ..envdrive import _resolve

    meta = None
    if case["src"] == "genfolder":
        path, meta = case_cfg(case)
    else:
        path = _resolve(case["path"])
    s = case["seed"]
    A = case["ops"]
    entropy.reset()
    try:
        env = build_env(path)
    except Exception:
        res.label("build_failed")
        return
    errh = drive(env, case["history"], meta, None, "history")
    rec1: List[Dict] = []
    entropy.reset()
    err1 = drive(env, [["reset", s]] + A, meta, rec1, "used")
    k = env.episode_counter
    cfg_k = build_scheduler(path)(k)
    entropy.reset()
    try:
        ref = build_env(cfg_k)
    except Exception as e:
        res.label("reference_build_failed")
        return
    rec2: List[Dict] = []
    entropy.reset()
    err2 = drive(ref, [["reset", s]] + A, meta, rec2, "fresh")
    if (err1 is None) != (err2 is None) or (err1 and err2 and err1[2] != err2[2]):
        res.violate(f"episode-leak:scheduled:exception:{(err1 or err2)[2]}", f"episode {k}: used env {err1} vs fresh env of that episode's scenario {err2}")
    else:
        d = first_difference(rec1, rec2)
        if d:
            res.violate(f"episode-leak:scheduled:{d[0]}", f"episode {k} of the used scheduled environment vs a fresh environment built from that episode's scenario: {d[1]}")
    n_sched = len(build_scheduler(path).schedule)
    if case["src"] == "genfolder":
        import shutil

        shutil.rmtree(path, ignore_errors=True)
    res.label("mode:folder_episode", "src:" + case["src"], f"lap:{min(k // max(n_sched, 1), 3)}", "history_raised" if errh else "history_ok")
    res.nontrivial = k >= n_sched  # beyond one lap of the schedule


def run_reset_vs_construct(case: Dict, res: CaseResult):
    cfg, meta = case_cfg(case)
    s = case["seed"]
    cfg = copy.deepcopy(cfg)
    cfg["game"]["seed"] = s
    A = [o for o in case["ops"] if o[0] != "reset"]
    entropy.reset()
    try:
        e1 = build_env(cfg)
    except Exception:
        res.label("build_failed")
        return
    st1 = norm_state(e1.game.simulation.describe_state())
    obs1 = canon(e1._get_obs())
    rec1: List[Dict] = []
    err1 = drive(e1, A, meta, rec1, "constructed", keep_state=True)
    e2 = build_env(cfg)
    entropy.reset()
    rec2: List[Dict] = []
    err2 = drive(e2, [["reset", s]], meta, rec2, "reset")
    if err2:
        res.label("reset_raised")
        return
    st2 = norm_state(e2.game.simulation.describe_state())
    power1 = {h: n.get("operating_state") for h, n in canon(st1)["network"]["nodes"].items()}
    power2 = {h: n.get("operating_state") for h, n in canon(st2)["network"]["nodes"].items()}
    if power1 != power2:
        res.violate("reset-differs-from-construction:power-state",
                    f"node power states after construction {power1} vs after reset(seed={s}) {power2}")
    else:
        # the observation a constructed environment would give BEFORE any reset is not obtainable through the Gym API
        # (reset() comes first); it contains build-time traffic (ARP at interface enable) where a reset environment
        # shows the traffic of setup_for_episode. It is recorded as a label, not judged; everything step() returns is.
        if obs1 != rec2[0]["obs"]:
            res.label("private_pre_reset_obs_differs")
        rec2b: List[Dict] = []
        err2b = drive(e2, A, meta, rec2b, "reset", keep_state=True)
        if (err1 is None) != (err2b is None):
            res.violate("reset-differs-from-construction:exception", f"{err1} vs {err2b}")
        else:
            d = first_difference(rec1, rec2b)
            if d:
                res.violate(f"reset-differs-from-construction:{d[0]}", d[1])
    res.label("mode:reset_vs_construct")
    res.nontrivial = any(h.get("off") for z in case["spec"]["zones"] for h in z) if case["src"] == "gen" else bool(A)


def _rng_snap():
    return (random.getstate(), np.random.get_state(), entropy.snapshot())


def _rng_restore(s):
    random.setstate(s[0])
    np.random.set_state(s[1])
    entropy.restore(s[2])


def run_instances(case: Dict, res: CaseResult):
    """X solo vs X interleaved with Y."""
    cfgx, metax = case_cfg({"src": "gen", "spec": case["spec"], "ops": []})
    cfgy, metay = case_cfg({"src": "gen", "spec": case["spec_y"], "ops": []})
    for k, v in case.get("io_y", {}).items():
        cfgy["io_settings"][k] = v
    xs = case["ops"]
    inter = case["inter"]  # list of ["x"] | ["y", op]; 'x' consumes the next X op
    # solo
    entropy.reset()
    try:
        ex = build_env(cfgx)
    except Exception:
        res.label("build_failed")
        return
    solo: List[Dict] = []
    errs = drive(ex, xs, metax, solo, "solo", keep_state=True)
    # interleaved
    entropy.reset()
    ex2 = build_env(cfgx)
    ey = None
    rec: List[Dict] = []
    xi = 0
    switches = 0
    last = "x"
    erri = None
    for it in inter:
        if it[0] == "x":
            if xi < len(xs):
                erri = drive(ex2, [xs[xi]], metax, rec, "interleaved", keep_state=True)
                xi += 1
                if last != "x":
                    switches += 1
                last = "x"
                if erri:
                    break
        else:
            snap = _rng_snap()
            try:
                if ey is None or it[1][0] == "construct":
                    ey = build_env(cfgy)
                elif it[1][0] == "close":
                    ey.close()
                else:
                    drive(ey, [it[1]], metay, None, "other")
                ey.action_masks()  # what a policy training on the other instance would call
            except Exception:
                pass  # Y's own failures are not X's business
            _rng_restore(snap)
            if last != "y":
                switches += 1
            last = "y"
    if erri is None and xi < len(xs):
        erri = drive(ex2, xs[xi:], metax, rec, "interleaved", keep_state=True)
    if (errs is None) != (erri is None) or (errs and erri and errs[2] != erri[2]):
        res.violate(f"instance-leak:exception:{(erri or errs)[2]}", f"solo {errs} vs interleaved {erri}")
    else:
        d = first_difference(solo[: len(rec)], rec) if erri else first_difference(solo, rec)
        if d:
            res.violate(f"instance-leak:{d[0]}", f"instance X solo vs interleaved with Y: {d[1]}")
    res.label("mode:instances", f"switches:{min(switches, 6)}")
    if case.get("excluded_nmne"):
        res.label("excluded:C04-nmne-config-global")
    differing = case["spec"].get("nmne") != case["spec_y"].get("nmne") or bool(case.get("io_y"))
    res.nontrivial = switches >= 2 and differing


def run_pristine_batch(cases: List[Dict], tag: str, rvc: bool = True) -> List[Dict]:
    """One fresh interpreter per case (run in parallel): returns traj_worker results."""
    import os
    import subprocess
    import sys

    from ..harness import VERIF

    work = os.path.join(os.environ.get("VERIF_WORK", "/tmp"), f"c04-{tag}-{os.getpid()}")
    os.makedirs(work, exist_ok=True)
    procs = []
    for i, c in enumerate(cases):
        bp, op = os.path.join(work, f"b{i}.json"), os.path.join(work, f"o{i}.json")
        with open(bp, "w") as f:
            json.dump({"variant": dict(POLLUTED_VARIANT) if not rvc else {"label": "pristine", "entropy": {}},
                       "cases": [dict(c, rvc=True) if rvc else c]}, f)
        env = dict(os.environ, PYTHONHASHSEED="0", VERIF_CHILD_HOME=os.path.join(work, f"home{i}"))
        procs.append((subprocess.Popen([sys.executable, "-W", "ignore", "-m", "vlib.traj_worker", bp, op], cwd=VERIF, env=env,
                                       stdout=subprocess.DEVNULL, stderr=subprocess.PIPE), op))
    outs = []
    for p, op in procs:
        _, err = p.communicate()
        if p.returncode != 0 or not os.path.exists(op):
            raise RuntimeError(f"traj_worker (pristine) failed rc={p.returncode}: {err.decode()[-1500:]}")
        with open(op) as f:
            outs.append(json.load(f)["results"][0])
    import shutil

    shutil.rmtree(work, ignore_errors=True)
    return outs


def judge_pristine(case: Dict, out: Dict) -> CaseResult:
    from .c03 import diff_episode

    res = CaseResult()
    res.label("mode:pristine_reset_vs_construct")
    if out.get("error"):
        res.label("pristine_raised")
        return res
    a, b = out["episodes"]
    if a.get("first_obs") != b.get("first_obs"):
        res.label("private_pre_reset_obs_differs")  # see run_reset_vs_construct: not obtainable through the Gym API
    a, b = dict(a, first_obs=None), dict(b, first_obs=None)
    d = diff_episode(a, b)
    if d:
        key = d[0]
        if key == "first-obs" or key == "obs":
            key = "obs:" + str(obs_diff_key(a.get("first_obs"), b.get("first_obs")) if d[0] == "first-obs" else _first_obs_diff(a, b))
        res.violate(f"first-construction-differs-from-reset:{key}",
                    f"in a fresh interpreter the first constructed environment and one after reset(seed={case['seed']}) differ: {d[1]}")
    res.nontrivial = len(a["steps"]) >= 2
    return res


def _first_obs_diff(a, b):
    for s, t in zip(a["steps"], b["steps"]):
        if s["obs"] != t["obs"]:
            return obs_diff_key(s["obs"], t["obs"])
    return "?"


POLLUTED_VARIANT = {"label": "polluted", "entropy": {}, "state_digest": True, "state_full0": True}


def pollute(case: Dict) -> None:
    """Give this process a history: build (and briefly use) another environment with different process-wide options."""
    try:
        if case.get("polluter_path"):
            from ..envdrive import load_shipped

            cfg = load_shipped(case["polluter_path"])
            meta = None
        else:
            cfg, meta = case_cfg({"src": "gen", "spec": case["polluter"], "ops": []})
            for k, v in case.get("polluter_io", {}).items():
                cfg["io_settings"][k] = v
        env = build_env(cfg)
        env.action_masks()
        drive(env, case.get("polluter_ops", []), meta, None, "polluter")
        env.action_masks()
        env.close()
    except Exception:
        pass  # the polluter's own failures are not the business of the environment under test


def judge_polluted(case: Dict, ref: Dict) -> CaseResult:
    """The same (scenario, reset(seed), actions) in a pristine interpreter (ref) and in this process after a polluter."""
    from ..traj_worker import run_one
    from .c03 import diff_episode

    res = CaseResult()
    res.label("mode:after_other_environment")
    pollute(case)
    mine = run_one({k: v for k, v in case.items() if k != "rvc"}, dict(POLLUTED_VARIANT))
    if ref.get("error") or mine.get("error"):
        ea, eb = ref.get("error"), mine.get("error")
        if (ea is None) != (eb is None) or ea["sig"] != eb["sig"]:
            res.violate(f"instance-leak:after-other-env:exception:{(eb or ea)['sig']}",
                        f"pristine interpreter: {ea and ea['msg']}; after another environment in this process: {eb and eb['msg']}")
        else:
            res.label("both_raised")
        return res
    for k, (a, b) in enumerate(zip(ref["episodes"], mine["episodes"])):
        if a.get("state0") != b.get("state0"):
            paths = state_diff_paths(a.get("state_full0"), b.get("state_full0"))
            key = _leaf_key(paths[0].split(":")[0]) if paths else "?"
            res.violate(f"instance-leak:after-other-env:state-after-reset:{key}",
                        f"episode {k}: simulation state right after reset differs between a pristine interpreter and a process that "
                        f"built another environment before: {paths}")
            break
        d = diff_episode(a, b)
        if d is None:
            for i, (s, t) in enumerate(zip(a["steps"], b["steps"])):
                if s.get("state") != t.get("state"):
                    d = ("state", f"step {i}: normalised simulation state differs")
                    break
        if d:
            key = d[0]
            if key in ("first-obs", "obs"):
                key = "obs:" + str(obs_diff_key(a.get("first_obs"), b.get("first_obs")) if key == "first-obs" else _first_obs_diff(a, b))
            res.violate(f"instance-leak:after-other-env:{key}",
                        f"episode {k}: pristine interpreter vs after another environment in this process: {d[1]}")
            break
    px = case["spec"].get("nmne")
    py = (case.get("polluter") or {}).get("nmne", True)
    res.label(f"x_nmne:{px}", f"polluter_nmne:{py}" if not case.get("polluter_path") else "polluter:shipped")
    res.nontrivial = px != py and sum(len(e["steps"]) for e in ref["episodes"]) >= 2
    return res


def run_case(case: Dict) -> CaseResult:
    if case.get("mode") == "pristine":
        return judge_pristine(case, run_pristine_batch([case], "replay")[0])
    if case.get("mode") == "polluted":
        return judge_polluted(case, run_pristine_batch([case], "replay", rvc=False)[0])
    res = CaseResult()
    mode = case.get("mode", "episode")
    if mode == "episode":
        run_episode_isolation(case, res)
    elif mode == "reset_vs_construct":
        run_reset_vs_construct(case, res)
    elif mode == "folder_episode":
        run_folder_episode(case, res)
    else:
        run_instances(case, res)
    return res


# reset seeds: 0 is a valid seed and a classic truthiness trap, so it gets a fifth of the draws
SEEDS = st.tuples(st.integers(0, 4), st.integers(0, 500), st.integers(0, 2 ** 32 - 2)).map(
    lambda t: 0 if t[0] == 0 else (t[1] if t[0] < 4 else t[2]))


@st.composite
def polluted_case(draw, shipped: List[str]):
    from .. import gen_scenario
    from ..envdrive import CATS

    c = draw(gen_case_strategy(max_ops=10))
    sp = c["spec"]
    sp["obs"]["include_nmne"] = True
    sp["obs"]["flatten"] = False
    sp["nmne"] = draw(st.sampled_from([None, None, True, False]))
    sp["obs"]["masking"] = draw(st.sampled_from([True, True, False]))
    s = draw(SEEDS)
    A = [o for o in c["ops"] if o[0] != "reset"]
    cut = draw(st.integers(0, len(A)))
    c["ops"] = [["reset", s]] + A[:cut] + [["reset", s]] + A[cut:]
    c["seed"] = s
    if shipped and draw(st.integers(0, 3)) == 0:
        c["polluter_path"] = draw(st.sampled_from(shipped))
        c["polluter_ops"] = [["step", draw(st.integers(0, 10 ** 6))] for _ in range(draw(st.integers(0, 4)))]
    else:
        py = draw(gen_scenario.spec_strategy())
        py["nmne"] = draw(st.sampled_from([True, True, False, None])) if sp["nmne"] is None else draw(st.sampled_from([True, False, None]))
        py["obs"]["masking"] = True
        c["polluter"] = py
        c["polluter_io"] = draw(st.sampled_from([{}, {"save_pcap_logs": True}, {"save_sys_logs": True}]))
        c["polluter_ops"] = [["cat", draw(st.sampled_from(CATS)), draw(st.integers(0, 200))] for _ in range(draw(st.integers(0, 5)))]
    c["mode"] = "polluted"
    return c


@st.composite
def episode_case(draw, shipped: Optional[List[str]] = None):
    if shipped:
        c = draw(shipped_case_strategy(shipped, max_ops=12))
        hist = draw(ops_strategy(20, gen=False))
    else:
        c = draw(gen_case_strategy(max_ops=12))
        hist = draw(ops_strategy(30, gen=True))
    c["history"] = hist
    c["ops"] = [o for o in c["ops"] if o[0] != "reset"]
    c["seed"] = draw(SEEDS)
    c["mode"] = "episode"
    if not shipped and draw(st.integers(0, 2)) == 0:
        # a policy that asks for the action mask only now and then: always at the same step of an episode
        c["spec"]["obs"]["masking"] = True
        c["mask_at"] = draw(st.integers(1, 3))
        if len(c["ops"]) < c["mask_at"]:
            c["ops"] = c["ops"] + [["step", 0]] * (c["mask_at"] - len(c["ops"]))
    return c


@st.composite
def folder_episode_case(draw):
    from ..envdrive import SCHEDULE_FOLDERS

    path = draw(st.sampled_from([f for f in SCHEDULE_FOLDERS if "uc7" not in f]))

    def mk(t):
        k, a = t
        return ["reset", None] if k < 4 else ["step", a]

    hist = draw(st.lists(st.tuples(st.integers(0, 9), st.integers(0, 10 ** 6)).map(mk), min_size=3, max_size=24))
    A = [["step", draw(st.integers(0, 10 ** 6))] for _ in range(draw(st.integers(1, 8)))]
    return {"src": "folder", "path": path, "history": hist, "ops": A, "seed": draw(SEEDS), "mode": "folder_episode"}


@st.composite
def genfolder_episode_case(draw):
    """A generated scenario (router/firewall families included) written as an episode-scheduled folder."""
    c = draw(gen_case_strategy(max_ops=8))
    c["spec"]["agents"]["green"] = draw(st.integers(1, 2))

    def mk(t):
        k, a, cat, j = t
        return ["reset", None] if k < 4 else (["cat", cat, j] if k < 8 else ["step", a])

    from ..envdrive import CATS

    hist = draw(st.lists(st.tuples(st.integers(0, 9), st.integers(0, 10 ** 6), st.sampled_from(CATS), st.integers(0, 200)).map(mk),
                         min_size=3, max_size=20))
    return {"src": "genfolder", "spec": c["spec"], "n_variants": draw(st.integers(1, 3)), "history": hist,
            "ops": [o for o in c["ops"] if o[0] != "reset"], "seed": draw(SEEDS), "mode": "folder_episode"}


@st.composite
def rvc_case(draw):
    c = draw(gen_case_strategy(max_ops=10))
    c["seed"] = draw(SEEDS)
    c["mode"] = "reset_vs_construct"
    if draw(st.booleans()):
        # a host DECLARED in a transitional power state (valid, unusual), half of them with start_up_duration 0: reset
        # must leave it exactly where construction leaves it
        hs = [h for z in c["spec"]["zones"] for h in z]
        h = hs[draw(st.integers(0, len(hs) - 1))]
        h["off"] = draw(st.sampled_from(["BOOTING", "SHUTTING_DOWN"]))
        if draw(st.booleans()):
            h["up"] = 0
    return c


@st.composite
def instances_case(draw, same_nmne: bool = False):
    from .. import gen_scenario

    c = draw(gen_case_strategy(max_ops=14))
    c["spec"]["obs"]["include_nmne"] = True
    c["spec"]["obs"]["flatten"] = False
    c["spec"]["nmne"] = draw(st.sampled_from([True, False, None]))
    sy = draw(gen_scenario.spec_strategy())
    sy["nmne"] = draw(st.sampled_from([True, False, None]))
    if same_nmne and draw(st.integers(0, 2)) > 0:
        # exclusion by construction for the open finding C04-nmne-config-global: give both instances the same NMNE
        # setting so that the search continues behind it
        sy["nmne"] = c["spec"]["nmne"]
        c["excluded_nmne"] = True
    c["spec_y"] = sy
    c["io_y"] = draw(st.sampled_from([{}, {"save_pcap_logs": True}, {"save_sys_logs": True}, {"save_pcap_logs": True, "save_sys_logs": True}]))
    yop = st.one_of(st.just(["construct"]), st.tuples(st.just("step"), st.integers(0, 10 ** 6)).map(list),
                    st.just(["reset", None]), st.just(["close"]))
    c["inter"] = draw(st.lists(st.one_of(st.just(["x"]), st.tuples(st.just("y"), yop).map(list)), min_size=4, max_size=30))
    c["mode"] = "instances"
    return c


def worker(ctx: Ctx):
    q = ctx.tier == "quick"
    hyp_run(ctx, episode_case(), run_case, 10 if q else 150, sub=0)
    paths = [p for p in usable_shipped() if "uc7" not in p]
    hyp_run(ctx, episode_case(paths), run_case, 3 if q else 40, sub=1)
    hyp_run(ctx, rvc_case(), run_case, 6 if q else 100, sub=2)
    hyp_run(ctx, folder_episode_case(), run_case, 3 if q else 40, sub=4)
    hyp_run(ctx, genfolder_episode_case(), run_case, 4 if q else 60, sub=5)
    hyp_run(ctx, instances_case(same_nmne="C04-nmne-config-global" in ctx.excl), run_case, 6 if q else 100, sub=3)
    # reset vs construction with the constructed environment being the FIRST one of a fresh interpreter
    from .c03 import collect

    @st.composite
    def pristine_case(draw):
        c = draw(gen_case_strategy(max_ops=8, allow_off=False))
        c["spec"]["obs"]["links"] = True
        c["spec"]["obs"]["flatten"] = False
        c["seed"] = draw(SEEDS)
        c["mode"] = "pristine"
        return c

    cases = collect(pristine_case(), 2 if q else 12, ctx.wseed * 10 + 7)
    for i in range(0, len(cases), 4):
        part = cases[i:i + 4]
        for case, out in zip(part, run_pristine_batch(part, f"w{ctx.idx}-{i}")):
            ctx.record(case, judge_pristine(case, out))
    # the same episode in a pristine interpreter vs in this (by now well used) process after yet another environment
    sh = [p for p in paths if "data_manipulation" in p or "multi_lan" in p or "basic" in p.lower()]
    cases = collect(polluted_case(sh), 3 if q else 16, ctx.wseed * 10 + 9)
    for i in range(0, len(cases), 4):
        part = cases[i:i + 4]
        for case, out in zip(part, run_pristine_batch(part, f"p{ctx.idx}-{i}", rvc=False)):
            ctx.record(case, judge_polluted(case, out))
