"""C01 — stepping/resetting the environment is total and keeps the episode contract (DESIGN §C01)."""
from __future__ import annotations

import math
import numbers
from typing import Dict

from ..envdrive import Driver, folder_case_strategy, gen_case_strategy, long_case_strategy, shipped_case_strategy, shipped_files, has_proxy, load_shipped
from ..harness import CaseResult, Ctx, hyp_run

ID = "C01"
WORKERS = {"quick": 8, "thorough": 16}
RULE = (
    "case = (scenario, op list): scenario is a shipped YAML (every loadable file with a proxy agent, or an "
    "episode-scheduled scenario folder driven through more resets than its schedule has episodes, "
    "max_episode_length optionally overridden to 3/8/20) or a member of the generated LAN/ROUTED/DMZ families; ops are "
    "steps over the whole Discrete action space ignoring the mask (incl. entries aimed at missing or powered-off "
    "components), resets with/without seed, at most 3 steps past truncation; 'long' cases put 26-45 consecutive idle "
    "steps after a prefix biased to logins (inactivity timeouts, scheduled attackers) in episodes of 40-70 steps. Non-trivial = >=1 state-changing "
    "(successful non-idle) blue action AND (>=2 episodes or the truncation boundary crossed); distinct by case hash."
)
ASSUMPTIONS = [
    "scenarios whose agents section has no proxy-agent cannot be wrapped in PrimaiteGymEnv and are skipped (listed in evidence)",
    "a reward is 'finite numeric' if it is a real number accepted by math.isfinite",
]

STATUSES = {"success", "failure", "unreachable", "pending"}


@__import__("hypothesis").strategies.composite
def forced_create_case(draw):
    """node-file-create with force: true (no shipped scenario uses it) on every host: on a file the scenario declares,
    and twice in a row on a new one - a forced create of something that exists replaces it and answers normally."""
    from hypothesis import strategies as st_

    from .. import gen_scenario

    c = draw(gen_case_strategy(max_ops=16))
    _, meta = gen_scenario.build(c["spec"])
    n0 = len(meta["actions"])
    more = []
    for h in meta["hosts"]:
        for fn in (h["files"][:1] or []) + ["new.txt"]:
            more.append({"action": "node-file-create", "cat": "file",
                         "options": {"node_name": h["name"], "folder_name": "docs", "file_name": fn, "force": True}})
    c["more_actions"] = more
    ops = list(c["ops"])
    for _ in range(draw(st_.integers(1, 4))):
        k = n0 + draw(st_.integers(0, len(more) - 1))
        at = draw(st_.integers(0, len(ops)))
        ops[at:at] = [["step", k]] * draw(st_.integers(1, 2))
    c["ops"] = ops
    return c


def run_case(case: Dict) -> CaseResult:
    res = CaseResult()
    d = Driver(case)
    if not d.build():
        res.violate(f"raise:build:{d.error[1]}", d.error[2])
        return res
    env = d.env
    st = {"changing": 0, "crossed": False, "prev_episode": env.episode_counter, "sessions": 0, "timed_out": 0}

    def open_sessions():
        k = 0
        for n in env.game.simulation.network.nodes.values():
            usm = getattr(n, "user_session_manager", None)
            if usm is not None:
                k += len(usm.remote_sessions) + (1 if usm.local_session else 0)
        return k

    def after_reset(i, op, obs, info):
        g = env.game
        if obs is None:
            res.violate("reset-obs-none", f"op#{i}")
        if g.step_counter != 0:
            res.violate("reset-tick-not-zero", f"op#{i}: step_counter={g.step_counter}")
        if env.episode_counter != st["prev_episode"] + 1:
            res.violate("reset-episode-counter", f"op#{i}: {st['prev_episode']} -> {env.episode_counter}")
        st["prev_episode"] = env.episode_counter
        for name, ag in g.agents.items():
            if len(ag.history) != 0:
                res.violate("reset-history-not-empty", f"op#{i}: agent {name} has {len(ag.history)} items")
            rf = ag.reward_function
            if rf.total_reward != 0 or rf.current_reward != 0:
                res.violate("reset-reward-not-zero", f"op#{i}: agent {name} total={rf.total_reward} cur={rf.current_reward}")
        return not res.violations

    def after_step(i, op, a, out):
        g = env.game
        n = d.steps_in_episode
        if not (isinstance(out, tuple) and len(out) == 5):
            res.violate("step-not-5-tuple", f"op#{i}")
            return False
        obs, reward, terminated, truncated, info = out
        if obs is None:
            res.violate("step-obs-none", f"op#{i}")
        if isinstance(reward, bool) or not isinstance(reward, numbers.Real) or not math.isfinite(float(reward)):
            res.violate("reward-not-finite-real", f"op#{i}: {reward!r}")
        if terminated is not False:
            res.violate("terminated-not-false", f"op#{i}: {terminated!r}")
        maxlen = g.options.max_episode_length
        if bool(truncated) != (n >= maxlen):
            res.violate("truncated-wrong", f"op#{i}: steps={n} max={maxlen} truncated={truncated}")
        if n >= maxlen:
            st["crossed"] = True
        if g.step_counter != n:
            res.violate("tick-count-wrong", f"op#{i}: steps={n} step_counter={g.step_counter}")
        for name, ag in g.agents.items():
            if len(ag.history) != n:
                res.violate("history-length-wrong", f"op#{i}: agent {name} history {len(ag.history)} != steps {n}")
                continue
            last = ag.history[-1]
            if last.timestep != n - 1:
                res.violate("history-timestep-wrong", f"op#{i}: agent {name} timestep {last.timestep} != {n - 1}")
            if last.response is None or last.response.status not in STATUSES:
                res.violate("history-bad-response", f"op#{i}: agent {name} {last.response!r}")
        aa = info.get("agent_actions") if isinstance(info, dict) else None
        if aa is None or set(aa.keys()) != set(g.agents.keys()):
            res.violate("info-agent-actions-keys", f"op#{i}: {None if aa is None else sorted(aa)} vs {sorted(g.agents)}")
        else:
            for name, item in aa.items():
                if item is not g.agents[name].history[-1]:
                    res.violate("info-agent-actions-not-last", f"op#{i}: agent {name}")
        blue = env.agent.history[-1] if env.agent.history else None
        if blue is not None and blue.action != "do-nothing" and blue.response.status == "success":
            st["changing"] += 1
        k = open_sessions()
        if blue is not None and blue.action == "do-nothing" and k < st["sessions"]:
            st["timed_out"] += 1
        st["sessions"] = k
        return not res.violations

    d.run(after_reset=after_reset, after_step=after_step)
    if d.error:
        phase, sig, msg = d.error
        res.violate(f"raise:{phase}:{sig}", msg)
    else:
        try:
            env.close()  # ends the session (writes the agent-action log when that is on)
        except Exception as e:
            from ..simutil import exc_msg, exc_sig

            res.violate(f"raise:close:{exc_sig(e)}", exc_msg(e))
    res.nontrivial = bool(st["changing"] >= 1 and (d.episodes >= 2 or st["crossed"]))
    res.label("src:" + case["src"], f"episodes:{min(d.episodes, 4)}")
    if st["crossed"]:
        res.label("crossed_truncation")
    if st["changing"]:
        res.label("has_state_change")
    if case["src"] == "gen":
        res.label("fam:" + case["spec"]["family"])
    if any(op[0] == "idle" for op in case["ops"]):
        res.label("long_idle_tail")
        if st["timed_out"]:
            res.label("session_timed_out_while_idle")
    return res


def usable_shipped():
    return [p for p in shipped_files() if has_proxy(load_shipped(p))]


def worker(ctx: Ctx):
    paths = usable_shipped()
    if ctx.idx == 0:
        ctx.extra["shipped_scenarios_used"] = ", ".join(paths)
    q = ctx.tier == "quick"
    hyp_run(ctx, gen_case_strategy(max_ops=30), run_case, 60 if q else 600, sub=0)
    hyp_run(ctx, forced_create_case(), run_case, 10 if q else 100, sub=4)
    hyp_run(ctx, shipped_case_strategy(paths, max_ops=25), run_case, 16 if q else 200, sub=1)
    hyp_run(ctx, folder_case_strategy(small_only=q, max_ops=24), run_case, 3 if q else 30, sub=2)
    slow = ("uc7", "tap00", "nmap")  # long tails on the big scenarios only in the thorough tier
    lp = [p for p in paths if not (q and any(s in p.lower() for s in slow))]
    hyp_run(ctx, long_case_strategy(lp), run_case, 14 if q else 120, sub=3)
