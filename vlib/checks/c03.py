"""C03 — same scenario, seed and actions give the same trajectory, in any process (DESIGN §C03)."""
from __future__ import annotations

import json
import os
import subprocess
import sys
from typing import Any, Dict, List, Optional, Tuple

from hypothesis import strategies as st

from ..envdrive import gen_case_strategy, has_proxy, load_shipped, shipped_files
from ..harness import VERIF, CaseResult, Ctx

ID = "C03"
WORKERS = {"quick": 8, "thorough": 8}
SHRINK_BUDGET = 10
RULE = (
    "case = (scenario with stochastic scripted agents: shipped data_manipulation / UC7 / nmap red-agent files and generated "
    "families with probabilistic/periodic agents, config seed, action list A); ops = reset(seed=s), A, reset(seed=s), A. "
    "Each case is executed in separate interpreter processes (variants) that differ in PYTHONHASHSEED, in the harness's "
    "entropy stream (uuid4 values, MAC/ICMP-identifier bits, ping payloads), in the clock (origin, whole-second stamps) "
    "and in logging (everything on DEBUG to files vs everything off); one variant also runs its batch of cases in reverse "
    "order, so that what an interpreter did before (other scenarios built and stepped) differs too. Oracle: per-step digests (observation, reward, every "
    "agent's action/parameters/status/normalised response data as emitted) are identical "
    "across variants, and within a run the two episodes started by reset(seed=s) are identical. Frame-size sub-check: "
    "generated scenarios whose links carry only a few frames per step, LINKS observed, run under variants that differ "
    "from the base in exactly one source of opaque values (clock origin/step; digits of ICMP identifiers; whole-second "
    "time stamps): a difference names what the size of a frame depends on. Non-trivial = a scripted "
    "agent took >=1 non-idle action and the digests are not all-idle; distinct by case hash."
)
ASSUMPTIONS = [
    "seeds, hash seeds and entropy streams are sampled, not exhausted",
    "opaque identifiers (uuids, MACs, session ids, timestamps) are replaced by first-appearance labels before comparison",
]

VARIANTS = [
    {"label": "base", "hashseed": "0", "entropy": {}},
    # this variant also runs the batch in REVERSE order: what ran earlier in the interpreter must not matter either
    {"label": "hash1-entropy-clock", "hashseed": "1", "reverse": True,
     "entropy": {"uuid_base": 10 ** 9, "uuid_mode": "mix", "bits_mode": "max", "clock_origin": 1_900_000_000,
                 "clock_step_us": 1_000_000, "clock_offset_us": 0}},
    {"label": "hashN-logging", "hashseed": "4242", "entropy": {"uuid_base": 77, "bits_mode": "min"}, "logging": True},
    {"label": "hash2", "hashseed": "2", "entropy": {"uuid_base": 5, "clock_step_us": 999_983}},
    {"label": "hash3", "hashseed": "31337", "entropy": {"bits_mode": "max"}},
]


def variants(tier: str) -> List[Dict]:
    return VARIANTS[:3] if tier == "quick" else VARIANTS


def run_variants(cases: List[Dict], vs: List[Dict], tag: str, history: Optional[List[Dict]] = None) -> List[Dict]:
    """Run the batch under every variant, each in its own interpreter (in parallel). Returns parsed outputs."""
    work = os.path.join(os.environ.get("VERIF_WORK", "/tmp"), f"c03-{tag}-{os.getpid()}")
    os.makedirs(work, exist_ok=True)
    procs = []
    for i, v in enumerate(vs):
        bp = os.path.join(work, f"batch{i}.json")
        op = os.path.join(work, f"out{i}.json")
        batch = list(cases)
        if v.get("reverse"):
            batch = batch[::-1]
        if history and v.get("reverse"):
            batch = list(history) + batch  # replay of an order-dependent difference: the cases that ran before it
        with open(bp, "w") as f:
            json.dump({"variant": dict(v), "cases": batch}, f)
        env = dict(os.environ)
        env["PYTHONHASHSEED"] = v["hashseed"]
        env["VERIF_CHILD_HOME"] = os.path.join(work, f"home{i}")
        p = subprocess.Popen([sys.executable, "-W", "ignore", "-m", "vlib.traj_worker", bp, op], cwd=VERIF, env=env,
                             stdout=subprocess.DEVNULL, stderr=subprocess.PIPE)
        procs.append((p, op, v))
    outs = []
    for p, op, v in procs:
        _, err = p.communicate()
        if p.returncode != 0 or not os.path.exists(op):
            raise RuntimeError(f"traj_worker variant {v['label']} failed rc={p.returncode}: {err.decode()[-2000:]}")
        with open(op) as f:
            o = json.load(f)
        if history and v.get("reverse"):
            o["results"] = o["results"][len(history):]
        if v.get("reverse"):
            o["results"] = o["results"][::-1]
        outs.append(o)
    import shutil

    shutil.rmtree(work, ignore_errors=True)
    return outs


def first_diff(a: Dict, b: Dict) -> Optional[Tuple[str, str]]:
    """Compare two results (episodes/steps). Return (field signature, message) of the first difference."""
    if (a.get("error") is None) != (b.get("error") is None) or (a.get("error") and a["error"]["sig"] != b["error"]["sig"]):
        return ("error", f"{a.get('error') and a['error']['sig']} vs {b.get('error') and b['error']['sig']}")
    ea, eb = a["episodes"], b["episodes"]
    if len(ea) != len(eb):
        return ("episode-count", f"{len(ea)} vs {len(eb)}")
    for k, (x, y) in enumerate(zip(ea, eb)):
        d = diff_episode(x, y)
        if d:
            return (d[0], f"episode {k}: {d[1]}")
    return None


def diff_episode(x: Dict, y: Dict) -> Optional[Tuple[str, str]]:
    if x.get("first_obs") != y.get("first_obs"):
        return ("first-obs", "observation returned by reset differs")
    if len(x["steps"]) != len(y["steps"]):
        return ("step-count", f"{len(x['steps'])} vs {len(y['steps'])}")
    for i, (s, t) in enumerate(zip(x["steps"], y["steps"])):
        for name in sorted(set(s["agents"]) | set(t["agents"])):
            ha, hb = s["agents"].get(name), t["agents"].get(name)
            if ha != hb:
                fld = "missing"
                act = (ha or hb)[0]
                if ha and hb:
                    for j, nm in enumerate(["action", "parameters", "status", "data", "reward"]):
                        if ha[j] != hb[j]:
                            fld = nm
                            break
                return (f"agent-{fld}:{act}", f"step {i}: agent {name}: {json.dumps(ha)[:300]} vs {json.dumps(hb)[:300]}")
        if s["obs"] != t["obs"]:
            return ("obs", f"step {i}: observations differ")
        if s["reward"] != t["reward"]:
            return ("reward", f"step {i}: {s['reward']} vs {t['reward']}")
        if s.get("masks") != t.get("masks"):
            return ("action-mask", f"step {i}: action masks differ")
    return None


def judge(case: Dict, per_variant: List[Dict], vs: List[Dict]) -> CaseResult:
    res = CaseResult()
    base = per_variant[0]
    if base.get("error"):
        res.label("base_raised")  # exceptions are C01's business; determinism of the error is still compared below
    for v, r in zip(vs[1:], per_variant[1:]):
        d = first_diff(base, r)
        if d:
            kind = "logging" if v.get("logging") else "process"
            if v.get("reverse"):
                res.label("differs_in_reversed_batch_variant")
            res.violate(f"differs-across-{kind}:{d[0]}", f"variant {v['label']} vs base: {d[1]}")
            break
    # re-seeding reproduces the episode: consecutive episodes started by the same reset(seed=s) with the same actions
    eps = base["episodes"]
    for k in range(0, len(eps) - 1) if case["src"] not in ("folder", "genfolder") else []:
        if eps[k]["start"] == eps[k + 1]["start"] and len(eps[k]["steps"]) == len(eps[k + 1]["steps"]):
            d = diff_episode(eps[k], eps[k + 1])
            if d:
                res.violate(f"reseed-not-reproducible:{d[0]}", f"episodes {k},{k + 1} after reset(seed): {d[1]}")
                break
    n = case.get("sched_len")
    if case["src"] in ("folder", "genfolder") and n:
        for k in range(0, len(eps) - n):
            if eps[k]["start"] == eps[k + n]["start"] and len(eps[k]["steps"]) == len(eps[k + n]["steps"]):
                d = diff_episode(eps[k], eps[k + n])
                if d is None and eps[k].get("state0") != eps[k + n].get("state0"):
                    d = ("state-after-reset", "normalised simulation state right after reset differs")
                if d:
                    res.violate(f"same-schedule-entry-not-reproducible:{d[0]}",
                                f"episodes {k} and {k + n} use the same schedule entry, seed and actions: {d[1]}")
                    break
    nonidle = 0
    for ep in eps:
        for s in ep["steps"]:
            for name, h in s["agents"].items():
                if h[0] != "do-nothing" and name != "defender":
                    nonidle += 1
    res.nontrivial = nonidle >= 1
    res.label("src:" + case["src"], "scripted_nonidle" if nonidle else "all_idle")
    if case["src"] in ("shipped", "folder"):
        res.label("file:" + os.path.basename(case["path"]))
    return res


# ---------------------------------------------------------------------------------------------------------------------
# Frame-size sub-check. A frame's size is the length of its JSON; on links whose bandwidth is a few frames per step the
# observed load band (and admission) moves with a few bytes per frame. The variants differ from the base in ONE source of
# "opaque" values at a time, so that a difference names its cause.
SIZE_VARIANTS = [
    {"label": "size-base", "hashseed": "0", "entropy": {}, "state_digest": True},
    {"label": "size-clock", "hashseed": "0", "cause": "clock", "state_digest": True,
     # every stamp ends in .500000: same length as any other fraction in ISO text, much shorter as a float
     "entropy": {"clock_origin": 1_900_000_000, "clock_step_us": 1_000_000, "clock_offset_us": 500_000}},
    {"label": "size-identifiers", "hashseed": "0", "cause": "identifier-digits", "entropy": {"bits_mode": "max"}},
    {"label": "size-whole-second", "hashseed": "0", "cause": "whole-second-stamp",
     "entropy": {"clock_step_us": 1_000_000, "clock_offset_us": 0}},
]


@st.composite
def size_case(draw):
    c = draw(gen_case())
    c["spec"]["bw"] = draw(st.sampled_from([0.02, 0.05, 0.1]))
    c["spec"]["obs"]["links"] = True
    c["spec"]["obs"]["flatten"] = False
    c["spec"]["agents"]["green"] = 2
    c["mode"] = "size"
    return c


def judge_size(case: Dict, per_variant: List[Dict]) -> CaseResult:
    res = CaseResult()
    base = per_variant[0]
    for v, r in zip(SIZE_VARIANTS[1:], per_variant[1:]):
        d = first_diff(base, r)
        if d is None and v.get("state_digest") and not base.get("error"):
            # same identifiers, stamps of the same printed length: then every frame has the same size and the whole
            # normalised simulation state (link loads, interface traffic counters) must agree, not only the load bands
            for k, (x, y) in enumerate(zip(base["episodes"], r["episodes"])):
                for i, (a, b) in enumerate(zip(x["steps"], y["steps"])):
                    if a.get("state") != b.get("state"):
                        d = ("state", f"episode {k} step {i}: normalised simulation state (link loads, traffic counters) differs")
                        break
                if d:
                    break
        if d:
            res.violate(f"frame-size-depends-on-{v['cause']}:{d[0]}",
                        f"tight links ({case['spec']['bw']} Mbit): variant {v['label']} (differs from the base only in "
                        f"{v['cause']}) vs base: {d[1]}")
    res.nontrivial = any(s["obs"] != base["episodes"][0]["steps"][0]["obs"] for ep in base["episodes"] for s in ep["steps"]) \
        if base.get("episodes") and base["episodes"][0]["steps"] else False
    res.label("mode:frame-size", "src:gen")
    return res


def run_case(case: Dict) -> CaseResult:
    if case.get("mode") == "size":
        outs = run_variants([case], SIZE_VARIANTS, "replay-size")
        return judge_size(case, [o["results"][0] for o in outs])
    vs = variants(os.environ.get("VERIF_TIER_C03", "quick"))
    outs = run_variants([case], vs, "replay", history=case.get("_ran_after"))
    return judge(case, [o["results"][0] for o in outs], vs)


STOCHASTIC_SHIPPED = [
    "src/primaite/config/_package_data/data_manipulation.yaml",
    "tests/assets/configs/nmap_ping_scan_red_agent_config.yaml",
    "tests/assets/configs/nmap_port_scan_red_agent_config.yaml",
    "tests/assets/configs/nmap_network_service_recon_red_agent_config.yaml",
    "tests/assets/configs/basic_switched_network.yaml",
    "tests/assets/configs/shared_rewards.yaml",
    "src/primaite/config/_package_data/uc7_config.yaml",
    "src/primaite/config/_package_data/uc7_config_tap003.yaml",
]


# seeds: 0 is valid and a truthiness trap (a fifth of the draws), otherwise small or large values
SEEDS = st.tuples(st.integers(0, 4), st.integers(0, 1000), st.integers(0, 2 ** 32 - 2)).map(
    lambda t: 0 if t[0] == 0 else (t[1] if t[0] < 4 else t[2]))


@st.composite
def shipped_case(draw, paths):
    p = draw(st.sampled_from(paths))
    s = draw(SEEDS)
    big = "uc7" in p
    slow = "nmap_" in p  # a /24 (x ports) scan every step: ~1-1.5 s per step
    acts = draw(st.lists(st.tuples(st.just("step"), st.integers(0, 10 ** 6)).map(list), min_size=2 if slow else 3,
                         max_size=3 if slow else (8 if big else 20)))
    ops = [["reset", s]] + acts + [["reset", s]] + acts
    # "same": the scenario's own game.seed is the very value passed to reset(seed=s) - re-seeding must still happen
    cs = draw(st.sampled_from([None, 3, "same"]))
    return {"src": "shipped", "path": p, "max_len": None, "cfg_seed": s if cs == "same" else cs, "ops": ops}


@st.composite
def gen_case(draw):
    c = draw(gen_case_strategy(max_ops=14))
    c["spec"]["agents"]["green"] = draw(st.integers(1, 2))
    c["spec"]["agents"]["red"] = draw(st.sampled_from(["periodic", "dm", "dm", "none"]))
    # NMNE counters are the observation leaves most exposed to process-wide settings: always observed here, and the
    # scenario itself declares capture on / says nothing about it
    c["spec"]["obs"]["include_nmne"] = True
    c["spec"]["nmne"] = draw(st.sampled_from([None, None, True, False]))
    # tight links belong to the frame-size sub-check (size_case): there the variants differ in ONE source at a time
    if c["spec"].get("bw") is not None and c["spec"]["bw"] < 1:
        c["spec"]["bw"] = None
    acts = [o for o in c["ops"] if o[0] != "reset"] or [["step", 0]]
    s = draw(SEEDS)
    if draw(st.integers(0, 2)) == 0:
        c["spec"]["seed"] = s  # the configured seed and the reset seed coincide
    c["ops"] = [["reset", s]] + acts + [["reset", s]] + acts
    return c


@st.composite
def uc7_long_case(draw, which: int = 0):
    """The threat actors need ~30 quiet steps to get through reconnaissance: blue mostly idles."""
    p = ["src/primaite/config/_package_data/uc7_config.yaml",
         "src/primaite/config/_package_data/uc7_config_tap003.yaml"][which % 2]
    s = draw(SEEDS)
    k = draw(st.integers(32, 40))
    acts = [["step", 0] for _ in range(k)]
    return {"src": "shipped", "path": p, "max_len": None, "cfg_seed": None, "no_logging": True,
            "ops": [["reset", s]] + acts + [["reset", s]] + acts[:10]}


@st.composite
def trial_case(draw):
    """UC2 with the attacker starting at once and bot success probabilities strictly inside (0, 1): the outcome of every
    probability trial shapes the episode, three episodes after the same reset(seed=s) must agree (and so must processes)."""
    s = draw(SEEDS)
    acts = [["step", 0] for _ in range(draw(st.integers(14, 24)))]
    return {"src": "shipped", "path": "src/primaite/config/_package_data/data_manipulation.yaml", "max_len": None,
            "cfg_seed": draw(st.sampled_from([None, 3, s])), "tweak": draw(st.sampled_from(["early_attack", "shared_first"])),
            "p": draw(st.sampled_from([0.3, 0.5, 0.7])),
            "ops": [["reset", s]] + acts + [["reset", s]] + acts + [["reset", s]] + acts + [["reset", s]] + acts}


@st.composite
def uc7_short_case(draw, which: int = 0):
    """A short UC7 episode pair that also runs in the logging variant (the long one is too slow with DEBUG logs): the
    UC7 scripted agents act from step 0, so construction-time differences between variants show at once."""
    p = ["src/primaite/config/_package_data/uc7_config.yaml",
         "src/primaite/config/_package_data/uc7_config_tap003.yaml"][which % 2]
    s = draw(SEEDS)
    acts = [["step", 0] for _ in range(draw(st.integers(6, 10)))]
    c = {"src": "shipped", "path": p, "max_len": None, "cfg_seed": draw(st.sampled_from([None, 0, 3])),
         "ops": [["reset", s]] + acts + [["reset", s]] + acts}
    c["tweak"] = "tap_variance"  # the threat actors' schedule gets a jitter (variance 2): it must follow the seed
    return c


@st.composite
def folder_case(draw, rot: int = 0):
    from ..envdrive import SCHEDULE_FOLDERS

    fs = [f for f in SCHEDULE_FOLDERS if "uc7" not in f]
    fs = fs[rot % len(fs):] + fs[:rot % len(fs)]
    p = draw(st.sampled_from(fs))
    s = draw(SEEDS)
    ops = []
    if draw(st.booleans()):
        for _ in range(draw(st.integers(2, 5))):  # several episodes: the schedule advances with every reset
            ops.append(["reset", s])
            ops.extend(["step", draw(st.integers(0, 10 ** 6))] for _ in range(draw(st.integers(2, 6))))
        return {"src": "folder", "path": p, "ops": ops}
    # the same actions in every episode, for two laps of the schedule and a bit: episodes that use the SAME schedule
    # entry (episode k and k + len(schedule)) after the same reset(seed=s) must then be identical
    import yaml as _yaml

    from ..envdrive import _resolve

    n = len(_yaml.safe_load(open(os.path.join(_resolve(p), "schedule.yaml")))["schedule"])
    acts = [["step", draw(st.integers(0, 10 ** 6))] for _ in range(draw(st.integers(2, 5)))]
    for _ in range(2 * n + 1):
        ops.append(["reset", s])
        ops.extend(acts)
    return {"src": "folder", "path": p, "ops": ops, "sched_len": n}


@st.composite
def genfolder_case(draw):
    """A generated ROUTED/DMZ scenario written as an episode-scheduled folder (routers and firewalls are the node types
    whose construction consumes their config), the same actions in every episode for two laps and a bit."""
    c = draw(gen_case_strategy(max_ops=6, families=("ROUTED",)))
    c["spec"]["agents"]["green"] = 2
    n = draw(st.integers(1, 2))
    s = draw(SEEDS)
    acts = [o for o in c["ops"] if o[0] in ("step", "cat")][:4] or [["step", 0]]
    ops = []
    for _ in range(2 * n + 1):
        ops.append(["reset", s])
        ops.extend(acts)
    return {"src": "genfolder", "spec": c["spec"], "n_variants": n, "ops": ops, "sched_len": n, "state_digest": True}


@st.composite
def multibot_case(draw):
    """Three or four hosts of one LAN each run a repeating dos-bot that is fully configured in the scenario file (different
    trial odds), next to a database server and a periodic red agent: everything that (re)starts applications draws from
    the one seeded stream, so the ORDER in which nodes are visited at reset / per step must follow the scenario, not
    uuids. Two episodes after the same reset(seed=s), then eight short ones with other seeds."""
    c = draw(gen_case_strategy(max_ops=4, families=("LAN",), allow_off=False, max_hosts=5))
    sp = c["spec"]
    hosts = sp["zones"][0]
    while len(hosts) < 4:
        hosts.append(dict(hosts[-1]))
    hosts[0].update(kind="server", sw=["db"], off=False)
    for h in hosts[1:]:
        h.update(kind="computer", sw=sorted(set(draw(st.lists(st.sampled_from(["dbc", "browser", "dnsc"]), max_size=1))) | {"dos"}), off=False)
    # a bot draws again at every (re)start only while its previous trial succeeded: odds high enough to survive the
    # construction-time trial, spread out so that swapping two bots' draws changes who carries on
    ps = draw(st.permutations([0.75, 0.85, 0.9, 0.97]))
    sp["dos_opts"] = [{"port_scan_p_of_success": ps[k], "repeat": True, "max_sessions": draw(st.integers(1, 4))}
                      for k in range(4)]
    sp["agents"]["red"] = draw(st.sampled_from(["periodic", "periodic", "none"]))
    sp["agents"]["green"] = draw(st.integers(0, 1))
    sp["bw"] = None
    sp["infra_off"] = None
    sp["max_len"] = 30
    # what a bot did shows in the blue observation as its execution count and the target's traffic: observe both
    sp["obs"].update(num_applications=3, app_scan=False, num_nics=1, traffic=True, num_services=2, svc_scan=False)
    s = draw(SEEDS)
    acts = [["step", 0] for _ in range(draw(st.integers(6, 14)))]
    c["ops"] = [["reset", s]] + acts + [["reset", s]] + acts
    # every further seed is another set of draws for the (re)started bots: short episodes, compared across processes
    for s2 in draw(st.lists(SEEDS, min_size=8, max_size=8, unique=True)):
        c["ops"] += [["reset", s2], ["step", 0], ["step", 0]]
    c["state_digest"] = True
    c["kind"] = "multibot"
    return c


def collect(strategy, n: int, seed: int) -> List[Dict]:
    from hypothesis import HealthCheck, Phase, given, seed as hseed, settings

    out: List[Dict] = []

    # Hypothesis starts with the simplest example of a strategy (first element of every sampled_from, shortest lists):
    # with small n that would be most of the sample, so one extra example is drawn and the first one dropped
    @hseed(seed)
    @settings(max_examples=n + 1, database=None, deadline=None, phases=[Phase.generate], suppress_health_check=list(HealthCheck))
    @given(strategy)
    def _t(case):
        out.append(case)

    _t()
    return out[1:n + 1] if len(out) > n else out[:n]


def worker(ctx: Ctx):
    os.environ["VERIF_TIER_C03"] = ctx.tier
    q = ctx.tier == "quick"
    vs = variants(ctx.tier)
    paths = [p for p in STOCHASTIC_SHIPPED if os.path.exists(os.path.join("/repo", p))]
    if q:
        paths = [p for p in paths if "uc7_config_tap003" not in p and "nmap_network_service_recon" not in p]
    n_ship, n_gen = (2, 2) if q else (20, 20)
    cases = collect(shipped_case(paths), n_ship, ctx.wseed * 10) + collect(gen_case(), n_gen, ctx.wseed * 10 + 1)
    if not q or ctx.idx % 2 == 0:
        cases += collect(folder_case(rot=ctx.idx // 2 + ctx.seed), 1 if q else 5, ctx.wseed * 10 + 2)
    if ctx.idx < 2 or not q:  # quick: worker 0 runs the TAP001 scenario, worker 1 the TAP003 one
        cases += collect(uc7_long_case(which=ctx.idx), 1 if q else 2, ctx.wseed * 10 + 3)
    if ctx.idx in (0, 1) or not q:
        cases += collect(genfolder_case(), 1, ctx.wseed * 10 + 7)
    if ctx.idx in (2, 3) or not q:  # quick: workers 2 and 3 run a short UC7 pair under every variant incl. logging
        cases += collect(uc7_short_case(which=ctx.idx), 1, ctx.wseed * 10 + 5)
    if ctx.idx in (4, 5, 6, 7) or not q:  # probability trials decide the episode (UC2, early attack, 0 < p < 1)
        cases += collect(trial_case(), 1 if q else 2, ctx.wseed * 10 + 6)
    if ctx.idx % 4 == 2 or not q:  # several self-starting bots share the seeded stream: visiting order matters
        cases += collect(multibot_case(), 2 if q else 4, ctx.wseed * 10 + 8)
    chunk = 12
    for i in range(0, len(cases), chunk):
        part = cases[i:i + chunk]
        outs = run_variants(part, vs, f"w{ctx.idx}-{i}")
        for j, case in enumerate(part):
            res = judge(case, [o["results"][j] for o in outs], vs)
            if res.violations and any(v.get("reverse") for v in vs):
                # in the reversed variant this case ran after the ones that FOLLOW it here; keep them for the replay
                case = dict(case, _ran_after=[c for c in part[j + 1:][::-1]])
            ctx.record(case, res)
    # frame-size sub-check (tight links, one source of opaque values varied at a time)
    scases = collect(size_case(), 3 if q else 10, ctx.wseed * 10 + 4)
    if scases:
        outs = run_variants(scases, SIZE_VARIANTS, f"s{ctx.idx}")
        for j, case in enumerate(scases):
            ctx.record(case, judge_size(case, [o["results"][j] for o in outs]))
    if ctx.idx == 0:
        ctx.extra["variants"] = "; ".join(f"{v['label']}(PYTHONHASHSEED={v['hashseed']})" for v in vs)
