"""C20 — the simulation built from a scenario file is what the file says (DESIGN §C20).

Oracle A: inventory derived independently from the scenario dict (vlib/ref_config.py) == inventory read from the built
          PrimaiteGame object graph (vlib/c20_read.py), both directions.
Oracle B: the same scenario written with another mapping-key order / YAML style and loaded from the file builds the
          same initial state and the same seeded trajectory.
"""
from __future__ import annotations

import copy
import glob
import os
import tempfile
from typing import Any, Dict, List, Optional, Tuple

import primaite.game.game  # noqa: F401  loaded here so that main's entropy.install() patches uuid4/datetime in them
import primaite.session.environment  # noqa: F401
import primaite.session.episode_schedule  # noqa: F401
import primaite.simulator.network.creation  # noqa: F401
import yaml
from hypothesis import strategies as st

from .. import c20_gen, c20_read, c20_yaml, entropy, gen_scenario, ref_config
from ..harness import CaseResult, Ctx, enum_run, hyp_run, jhash
from ..simutil import IO_OFF, exc_msg, exc_sig, norm_state, seed_all

ID = "C20"
WORKERS = {"quick": 8, "thorough": 16}
SHRINK_KEY = ["tweaks", "acts", "episodes"]
RULE = (
    "case = one scenario (a shipped YAML file; one episode of a shipped episode-schedule folder; or a generated "
    "scenario = gen_scenario spec + a list of tweaks, each a documented key written into the dict) plus a "
    "re-serialisation (seed of the mapping-key permutation, YAML style) and a fixed pseudo-random action sequence, "
    "optionally built right after a 'polluter' scenario with the opposite process-wide settings (NMNE capture, airspace "
    "capacities, thresholds, defaults). "
    "Oracle A compares the inventory derived from the dict with the inventory read from the built objects (both "
    "directions); Oracle B loads the original and the re-serialised file and compares initial state and trajectory. "
    "Non-trivial = the scenario has >=2 node types, >=1 node with an ACL / route table and >=3 software options "
    "set; distinct by hash of the scenario dict."
)
ASSUMPTIONS = [
    "the expected inventory uses the documented schema (docs/source/configuration/**, simulation_components/system/**) "
    "and, where the docs are silent or differ from every shipped file, the keys the shipped files use (folders:, "
    "db_password, src_ip/dst_ip/…_wildcard_mask in ACL rules)",
    "documented pre-installed system software may be present without being declared; undeclared options of declared "
    "software must hold their documented defaults",
    "a software option is read from the attribute the software uses at run time when the class copies it out of its "
    "config, otherwise from its config",
    "PyYAML safe_load of the re-serialised text is strictly equal (types included) to the original dict — asserted by "
    "the harness for every variant before it is used",
    "a scenario that is silent about nmne_config / airspace capacities gets the NMNEConfig field defaults / the "
    "frequencies' own capacities, whatever was built before it in the same process",
    "an office-lan node set is checked on facts that hold for any layout: PC count/addresses/gateway, every PC on one "
    "switch of the set, >= ceil(n/23) edge switches (+ core when > 1), every link of the set carries the declared "
    "bandwidth, PCs and router connected through the set's own links",
    "files on the deny-list are malformed on purpose or need plugins (reasons in coverage.denied)",
]

REPO_TESTS = "/repo/tests/assets/configs"
DENY = {
    "tests:bad_primaite_session.yaml": "deliberately malformed (test asset for the error path)",
    "tests:eval_only_primaite_session.yaml": "proxy agent's agent_settings key is null (only a comment under it): "
    "rejected by load-time validation, accepted behaviour for a malformed file",
    "tests:extended_config.yaml": "needs test-only plugin classes (gigaswitch, supercomputer, extended-service) that "
    "are not installed",
}
# one step of these scripted nmap scenarios costs 1-10 s (subnet-wide scans): shorter trajectories for them
SLOW_FILES = ("nmap_network_service_recon", "nmap_port_scan", "nmap_ping_scan")
SLOW_STEPS = {"quick": 1, "thorough": 3}
SCHEDULE_DIRS = ["mini_scenario_with_simulation_variation", "scenario_with_placeholders", "uc7_multiple_attack_variants"]

_WORK: Dict[str, str] = {}


def pkg_dir() -> str:
    import primaite

    return os.path.join(os.path.dirname(primaite.__file__), "config", "_package_data")


def shipped_ids() -> List[str]:
    out = [f"pkg:{os.path.basename(p)}" for p in sorted(glob.glob(os.path.join(pkg_dir(), "*.yaml")))]
    out += [f"tests:{os.path.basename(p)}" for p in sorted(glob.glob(os.path.join(REPO_TESTS, "*.yaml")))]
    return [x for x in out if x not in DENY]


def shipped_path(fid: str) -> str:
    where, name = fid.split(":", 1)
    return os.path.join(pkg_dir() if where == "pkg" else REPO_TESTS, name)


_YAML_CACHE: Dict[str, Any] = {}


def _load_yaml(path: str):
    if path not in _YAML_CACHE:
        with open(path) as f:
            _YAML_CACHE[path] = yaml.safe_load(f)
    return copy.deepcopy(_YAML_CACHE[path])


def folder_root(folder: str) -> str:
    """'name' or 'pkg:name' -> package data folder; 'tests:name' -> tests/assets/configs/name; an absolute path as is."""
    if os.path.isabs(folder):
        return folder
    if folder.startswith("tests:"):
        return os.path.join(REPO_TESTS, folder[6:])
    return os.path.join(pkg_dir(), folder[4:] if folder.startswith("pkg:") else folder)


def schedule_len(folder: str) -> int:
    with open(os.path.join(folder_root(folder), "schedule.yaml")) as f:
        return len(yaml.safe_load(f)["schedule"])


def compose_episode(folder: str, episode: int) -> Dict:
    """Independent composition of an episode (docs/source/varying_config_files.rst): the variation files listed for
    the episode provide the anchors, the base scenario refers to them by alias. Episodes past the end wrap around."""
    root = folder_root(folder)
    with open(os.path.join(root, "schedule.yaml")) as f:
        sched = yaml.safe_load(f)
    table = sched["schedule"]
    names = table[episode % len(table)]
    text = ""
    for n in names:
        with open(os.path.join(root, n)) as f:
            text += f.read() + "\n"
    with open(os.path.join(root, sched["base_scenario"])) as f:
        text += f.read()
    cfg = yaml.safe_load(text)
    agents = []
    for a in cfg.get("agents") or []:
        if isinstance(a, list):
            agents.extend(a)
        else:
            agents.append(a)
    cfg["agents"] = agents
    return cfg


def case_cfg(case: Dict) -> Dict:
    if case["src"] == "shipped":
        cfg = _load_yaml(shipped_path(case["file"]))
    elif case["src"] == "schedule":
        cfg = compose_episode(case["folder"], case["episode"])
    else:
        cfg = c20_gen.build(case["spec"], case.get("tweaks") or [])
    cfg = copy.deepcopy(cfg)  # expand shared sub-objects (YAML aliases) into independent ones
    cfg["io_settings"] = dict(IO_OFF)
    return cfg


# ---------------------------------------------------------------------------------------------------------------------
# building


def _prepare(cfg: Dict):
    from primaite.simulator.system.core.packet_capture import PacketCapture

    entropy.reset()
    seed = (cfg.get("game") or {}).get("seed")
    seed_all(seed if isinstance(seed, int) and seed >= 0 else 0)
    PacketCapture.clear()


def build_from_dict(cfg: Dict):
    from primaite.game.game import PrimaiteGame

    _prepare(cfg)
    return PrimaiteGame.from_config(copy.deepcopy(cfg))


def build_schedule_episode(folder: str, episode: int):
    """Through PrimAITE's own scheduler (what PrimaiteGymEnv does at construction / reset)."""
    from primaite.game.game import PrimaiteGame
    from primaite.session.episode_schedule import build_scheduler

    sched = build_scheduler(folder_root(folder))
    d = sched(episode)
    d["io_settings"] = dict(IO_OFF)
    _prepare(d)
    return PrimaiteGame.from_config(d)


def workdir() -> str:
    pid = str(os.getpid())
    if pid not in _WORK:
        base = os.environ.get("VERIF_WORK")
        if base and os.path.isdir(base):
            d = os.path.join(base, f"c20-{pid}")
            os.makedirs(d, exist_ok=True)
        else:
            d = tempfile.mkdtemp(prefix="c20-")
        _WORK.clear()
        _WORK[pid] = d
    return _WORK[pid]


def load_text(text: str, cfg: Dict):
    """Write the text to a file and load it the way PrimAITE loads a scenario file. Returns (dict, game)."""
    from primaite.game.game import PrimaiteGame
    from primaite.session.episode_schedule import build_scheduler

    path = os.path.join(workdir(), "scenario.yaml")
    with open(path, "w") as f:
        f.write(text)
    d = build_scheduler(path)(0)
    if not c20_yaml.strict_equal(d, cfg):
        raise AssertionError("harness: the re-serialised text does not parse back to the original scenario")
    _prepare(d)
    loaded = copy.deepcopy(d)
    return loaded, PrimaiteGame.from_config(d)


# ---------------------------------------------------------------------------------------------------------------------
# Oracle A


DIAG = {"dupnode": "duplicate-hostname", "sw-unrouted": "software-not-in-software-manager",
        "sw-not-on-node": "software-manager-entry-not-on-node", "duplink": "duplicate-link",
        "ifcount-disagree": "interface-maps-disagree", "agent-ref-disagree": "agent-ref-disagrees",
        "nmne-disagree": "interfaces-disagree-on-nmne-config"}


def _sig_key(k: tuple, inv: ref_config.Inventory, built: Dict) -> str:
    kind = k[0]
    ntype = inv.must.get(("node", k[1])) or built.get(("node", k[1])) if len(k) > 1 and kind != "agent" else None
    if kind == "swopt":
        return f"swopt:{k[2]}.{k[3]}"
    if kind == "swdur":
        return f"swdur:{k[3]}"
    if kind == "sw":
        return f"sw:{k[2]}"
    if kind == "acl":
        return f"acl:{ntype}:{k[2]}"
    if kind == "dur":
        return f"dur:{k[2]}"
    if kind == "folderdur":
        return f"folderdur:{k[3]}"
    if kind in ("if", "ifcount", "state", "gw", "dns", "user", "route", "defroute", "wifi"):
        return f"{kind}:{ntype}"
    if kind == "agent":
        return "agent:" + (str(k[2]) if len(k) > 2 else "type")
    if kind in ("nmne", "airspace"):
        return f"{kind}:{k[1]}"
    return kind


def compare(inv: ref_config.Inventory, built: Dict, res: CaseResult) -> None:
    for k, v in inv.must.items():
        if k not in built:
            res.violate(f"missing:{_sig_key(k, inv, built)}", f"declared {k} = {v!r} is not in the built simulation")
        elif built[k] != v:
            prov = inv.prov.get(k, "")
            if prov.startswith("defaults:"):
                _, where, dk = prov.split(":")
                res.violate(f"defaults-not-applied:{where}:{dk}",
                            f"{k}: the {where}-level defaults block says {dk}: {v!r}, the built simulation holds "
                            f"{built[k]!r}")
            elif prov.startswith("explicit-over-defaults:"):
                _, where, dk = prov.split(":")
                res.violate(f"defaults-override-explicit:{where}:{dk}",
                            f"{k}: the software's own option says {v!r}, the built simulation holds {built[k]!r} "
                            f"(the value of defaults.{dk})")
            else:
                extra = f":{v}" if k[0] == "state" else ""
                res.violate(f"mismatch:{_sig_key(k, inv, built)}{extra}",
                            f"{k}: the file says {v!r}, the built simulation holds {built[k]!r}")
    for k, alts in inv.alt.items():
        if built.get(k) not in alts:
            res.violate(f"mismatch:{_sig_key(k, inv, built)}",
                        f"{k}: acceptable {alts!r}, the built simulation holds {built.get(k)!r}")
    for (h, fo, names, size, ftype) in inv.files:
        hit = [n for n in names if ("file", h, fo, n) in built]
        if not hit:
            res.violate("missing:file", f"declared file {h}:{fo}/{names[0]} is not in the built file system")
            continue
        bsize, btype = built[("file", h, fo, hit[0])]
        if size is not None and bsize != size:
            res.violate("mismatch:file-size", f"{h}:{fo}/{hit[0]}: declared size {size}, built {bsize}")
        if ftype is not None and btype != ftype:
            res.violate("mismatch:file-type", f"{h}:{fo}/{hit[0]}: declared type {ftype}, built {btype}")
    for ns in inv.nodesets:
        check_nodeset(ns, built, res)
    sysnames = set(ref_config.SYSTEM_SOFTWARE["host"])
    for k, v in built.items():
        if k[0] == "swcount":
            if v != 1:
                which = "system-software" if k[2] in sysnames else k[2]
                res.violate(f"instances:{which}", f"{v} instances of {k[2]} on node {k[1]} (exactly one expected)")
            continue
        if k[0] in DIAG:
            res.violate(f"structure:{DIAG[k[0]]}", f"{k}: {v!r}")
            continue
        if k in inv.must or k in inv.alt:
            continue
        if (k[0] == "folderdur" and k[3] in inv.folder_defaults and ("node", k[1]) in inv.must
                and not inv._free_host(k[1])):  # nodes a node set creates: whether defaults reach them is undocumented
            # a folder the file does not list (root, software folders created at install, ...): the schema has no
            # per-folder duration, so the declared default - 0 included - is the value it must hold
            want, where, dk = inv.folder_defaults[k[3]]
            if v != want:
                res.violate(f"defaults-not-applied:{where}:{dk}:undeclared-folder",
                            f"{k}: the {where}-level defaults block says {dk}: {want}, folder {k[2]!r} of {k[1]} (not "
                            f"listed in the file) holds {v}")
            continue
        if inv.allowed_extra(k):
            continue
        res.violate(f"extra:{_sig_key(k, inv, built)}", f"{k} = {v!r} is in the built simulation but not in the file")


def probe_runtime_folder(game, inv: ref_config.Inventory, res: CaseResult) -> None:
    """A folder created after the build through the documented request gets the declared default durations too."""
    for node in game.simulation.network.nodes.values():
        h = node.config.hostname
        if ("node", h) not in inv.must or inv._free_host(h) or node.operating_state.name != "ON":
            continue
        try:
            resp = game.simulation.apply_request(["network", "node", h, "file_system", "create", "folder", "c20_probe"])
        except Exception as e:
            res.violate(f"raise:create-folder-after-load:{exc_sig(e)}", f"{h}: {exc_msg(e)}")
            return
        fo = node.file_system.get_folder("c20_probe")
        if resp.status != "success" or fo is None:
            continue
        res.label("runtime-folder-probe")
        for d, (want, where, dk) in inv.folder_defaults.items():
            got = int(fo.scan_duration if d == "scan" else fo.restore_duration)
            if got != want:
                res.violate(f"defaults-not-applied:{where}:{dk}:folder-created-at-run-time",
                            f"{h}: folder created by request after the build holds {d}_duration {got}, the {where}-level "
                            f"defaults block says {dk}: {want}")
        return


def check_nodeset(ns: Dict, built: Dict, res: CaseResult) -> None:
    """Wiring facts of an office-lan node set, read from the built link graph (layout-independent)."""
    suf = ns["suffix"]
    links = [(k, v) for k, v in built.items() if k[0] == "link" and (k[1].endswith(suf) or k[3].endswith(suf))]
    for k, bw in links:
        if bw != ns["bandwidth"]:
            kind = "pc-link" if (k[1].startswith("pc_") or k[3].startswith("pc_")) else "uplink"
            res.violate(f"nodeset:link-bandwidth:{kind}",
                        f"node set {ns['name']}: link {k[1]}:{k[2]} <-> {k[3]}:{k[4]} has bandwidth {bw}, the node set "
                        f"declares {ns['bandwidth']}")
    adj: Dict[str, set] = {}
    for k, _ in links:
        adj.setdefault(k[1], set()).add(k[3])
        adj.setdefault(k[3], set()).add(k[1])
    switches = {k[1] for k, t in built.items() if k[0] == "node" and k[1].endswith(suf) and t == "switch"}
    if len(switches) < ns["min_switches"]:
        res.violate("nodeset:too-few-switches", f"node set {ns['name']}: {len(switches)} switches for {len(ns['pcs'])} PCs")
    for pc in ns["pcs"]:
        peers = adj.get(pc, set())
        if len(peers) != 1 or not (peers <= switches):
            res.violate("nodeset:pc-wiring", f"node set {ns['name']}: {pc} is linked to {sorted(peers)} (one switch expected)")
            break
    # everything the node set creates hangs together: all PCs (and the router, their default gateway) are reachable
    # from the first PC over the node set's own links
    if ns["pcs"]:
        seen, todo = {ns["pcs"][0]}, [ns["pcs"][0]]
        while todo:
            for y in adj.get(todo.pop(), ()):
                if y not in seen:
                    seen.add(y)
                    todo.append(y)
        lost = [p for p in ns["pcs"] if p not in seen]
        if lost:
            res.violate("nodeset:not-connected:pc", f"node set {ns['name']}: {lost[:3]} not reachable from {ns['pcs'][0]}")
        if ns["router"] and ns["router"] not in seen:
            res.violate("nodeset:not-connected:router",
                        f"node set {ns['name']}: {ns['router']} (every PC's default gateway) has "
                        f"{len(adj.get(ns['router'], ()))} links and is not reachable from the PCs")


# ---------------------------------------------------------------------------------------------------------------------
# building after another scenario (class- / module-level loader state must not leak from one build into the next)


def polluter(cfg: Dict) -> Dict:
    """A small scenario whose process-wide settings are the OPPOSITE of the scenario under test: NMNE capture, airspace
    capacity overrides, thresholds, defaults block, io settings."""
    from ..simutil import lan_cfg

    net = (cfg.get("simulation") or {}).get("network") or {}
    on = bool((net.get("nmne_config") or {}).get("capture_nmne", False))
    p = lan_cfg(2)
    p["simulation"]["network"]["nmne_config"] = {
        "capture_nmne": not on, "nmne_capture_keywords": ["POLLUTER", "DELETE", "SELECT"],
        "capture_by_direction": False, "capture_by_ip_address": True, "capture_by_protocol": True,
        "capture_by_port": True, "capture_by_keyword": True}
    p["simulation"]["network"]["airspace"] = {"frequency_max_capacity_mbps": {"WIFI_2_4": 1.5, "WIFI_5": 0.0}}
    p["game"]["thresholds"] = {"nmne": {"high": 9, "medium": 8, "low": 7}}
    p["defaults"] = {"node_scan_duration": 1, "folder_scan_duration": 1, "folder_restore_duration": 1,
                     "service_fix_duration": 1, "service_restart_duration": 1}
    p["io_settings"] = dict(IO_OFF)
    return p


# ---------------------------------------------------------------------------------------------------------------------
# Oracle B


def _sorted_tree(x):
    if isinstance(x, dict):
        return {k: _sorted_tree(x[k]) for k in sorted(x, key=lambda q: (type(q).__name__, str(q)))}
    if isinstance(x, (list, tuple)):
        return [_sorted_tree(v) for v in x]
    return x


def canon_state(game) -> Any:
    return norm_state(_sorted_tree(game.simulation.describe_state()))


def first_diff(a, b, path="") -> str:
    if type(a) is not type(b):
        return f"{path}: {a!r} vs {b!r}"[:300]
    if isinstance(a, dict):
        for k in sorted(set(a) | set(b), key=str):
            if k not in a or k not in b:
                return f"{path}/{k}: present in one only"
            d = first_diff(a[k], b[k], f"{path}/{k}")
            if d:
                return d
        return ""
    if isinstance(a, list):
        if len(a) != len(b):
            return f"{path}: length {len(a)} vs {len(b)}"
        for i, (x, y) in enumerate(zip(a, b)):
            d = first_diff(x, y, f"{path}[{i}]")
            if d:
                return d
        return ""
    return "" if a == b else f"{path}: {a!r} vs {b!r}"[:300]


def trajectory(game, acts: List[int]) -> List[Any]:
    """Initial state, then per step: state, every agent's action / parameters / status / data, reward."""
    out: List[Any] = [{"state": canon_state(game)}]
    for a in acts:
        for ag in game.rl_agents.values():
            ag.store_action(a % len(ag.action_manager.action_map))
        try:
            game.step()
        except Exception as e:  # not C20's business (C01 owns "never raises"); only equality of the two runs matters
            out.append({"raise": exc_sig(e)})
            break
        agents = {}
        for ref, ag in game.agents.items():
            h = ag.history[-1] if ag.history else None
            agents[ref] = None if h is None else {
                "action": h.action, "parameters": norm_state(_sorted_tree(h.parameters)), "status": h.response.status,
                "data": norm_state(_sorted_tree(h.response.data)), "reward": h.reward,
            }
        out.append({"state": canon_state(game), "agents": agents})
    return out


def run_variant(cfg: Dict, text: str, acts: List[int]) -> Tuple[Optional[str], List[Any]]:
    try:
        _d, game = load_text(text, cfg)
    except AssertionError:
        raise
    except Exception as e:
        return f"{exc_sig(e)}: {exc_msg(e)}", []
    return None, trajectory(game, acts)


def traj_diff(base: Tuple, var: Tuple) -> Optional[Tuple[str, str]]:
    (berr, bt), (verr, vt) = base, var
    if (berr is None) != (verr is None):
        return "load", f"load outcome differs: original {berr or 'loads'} / variant {verr or 'loads'}"
    if berr is not None:
        return None if berr.split(":")[0] == verr.split(":")[0] else ("load", f"load errors differ: {berr} / {verr}")
    for i, (x, y) in enumerate(zip(bt, vt)):
        if x != y:
            what = "initial-state" if i == 0 else "trajectory"
            return what, f"step {i}: " + first_diff(x, y)
    if len(bt) != len(vt):
        return "trajectory", f"trajectory length {len(bt)} vs {len(vt)}"
    return None


def oracle_b(cfg: Dict, case: Dict, res: CaseResult) -> None:
    """case: perm (None = keep order), scope ('all' or one of c20_yaml.SCOPES), keep (scopes left in file order —
    exclusion by construction for open findings), style, acts."""
    style = dict(c20_yaml.BASE_STYLE)
    style.update(case.get("style") or {})
    acts = list(case.get("acts") or [])
    perm = case.get("perm")
    scope = case.get("scope") or "all"
    base_text = c20_yaml.variant_text(cfg, None, c20_yaml.BASE_STYLE)
    var_text = c20_yaml.variant_text(cfg, perm, style, None if scope == "all" else scope, case.get("keep") or ())
    if var_text == base_text:
        res.label("oracleB:identical-text")
        return
    base = run_variant(cfg, base_text, acts)
    var = run_variant(cfg, var_text, acts)
    d = traj_diff(base, var)
    res.label(f"oracleB:scope:{scope}")
    if d is None:
        return
    what, msg = d
    where = scope
    if perm is None or traj_diff(base, run_variant(cfg, c20_yaml.variant_text(cfg, None, style), acts)) is not None:
        where = "style"
    res.violate(f"format:{what}:{where}",
                f"re-serialised file (perm={perm}, scope={scope}, style={style}) behaves differently: {msg}")


# ---------------------------------------------------------------------------------------------------------------------


SCHED_FOLDERS = ["pkg:mini_scenario_with_simulation_variation", "pkg:scenario_with_placeholders",
                 "tests:scenario_with_placeholders", "pkg:uc7_multiple_attack_variants"]


def run_sched_case(case: Dict) -> CaseResult:
    """Episode-scheduled mode of Oracle A. case: folders = list of folder descriptors ('pkg:..' / 'tests:..' /
    {'gen': spec, 'n': n_variants}), episodes = list of episode numbers walked IN ORDER. One scheduler instance per
    folder, taken the way PrimaiteGymEnv takes it (build_scheduler(path)); for every episode and every folder the game
    is built from the scheduler's return value ITSELF (as the environment does) and compared with the expectation
    derived from this module's own join of the episode's files."""
    import shutil

    from primaite.game.game import PrimaiteGame
    from primaite.session.episode_schedule import build_scheduler

    from ..envdrive import make_sched_folder

    res = CaseResult()
    res.label("src:schedrun")
    roots, temp = [], []
    for fd in case["folders"]:
        if isinstance(fd, dict):
            root, _meta = make_sched_folder(fd["gen"], fd.get("n", 2))
            temp.append(root)
            res.label("schedrun:generated-folder")
        else:
            root = folder_root(fd)
            res.label("schedrun:shipped-folder")
        roots.append(root)
    if len(roots) > 1:
        res.label("schedrun:two-schedulers")
    try:
        scheds = [build_scheduler(r) for r in roots]
        seen_combo: set = set()
        nontriv = []
        for ep in case["episodes"]:
            for k, (root, sched) in enumerate(zip(roots, scheds)):
                with open(os.path.join(root, "schedule.yaml")) as f:
                    table = yaml.safe_load(f)["schedule"]
                combo = tuple(table[ep % len(table)])
                repeat = combo in seen_combo  # this combination of file NAMES was used before (by any scheduler)
                seen_combo.add(combo)
                expected_cfg = compose_episode(root, ep)
                inv = ref_config.derive(expected_cfg)
                if ref_config.nontrivial(expected_cfg)[0]:
                    nontriv.append(jhash(expected_cfg))
                sub = CaseResult()
                where = f"folder#{k} {'generated' if root in temp else os.path.basename(root)} episode {ep}"
                try:
                    d = sched(ep)
                    _prepare(d)
                    game = PrimaiteGame.from_config(d)
                except Exception as e:
                    sub.violate(f"raise:load:{exc_sig(e)}", f"loading the episode raised {exc_msg(e)}")
                else:
                    compare(inv, c20_read.read(game), sub)
                res.label("schedrun:episode-build")
                if repeat:
                    res.label("schedrun:repeated-combination")
                for sig, msg in sub.violations:
                    res.violate(("sched-repeat:" if repeat else "sched:") + sig, f"{where}"
                                f"{' (file combination used before)' if repeat else ''}: {msg}")
        res.nontrivial = jhash(sorted(set(nontriv))) if nontriv else False
        if nontriv:
            res.label("nontrivial")
    finally:
        for t in temp:
            shutil.rmtree(t, ignore_errors=True)
    return res


def run_case(case: Dict) -> CaseResult:
    if case["src"] == "schedrun":
        return run_sched_case(case)
    res = CaseResult()
    cfg = case_cfg(case)
    inv = ref_config.derive(cfg)
    nt, counts = ref_config.nontrivial(cfg)
    res.nontrivial = jhash(cfg) if nt else False
    res.label(f"src:{case['src']}")
    if nt:
        res.label("nontrivial")
    for n in inv.notes:
        res.label(f"note:{n}")
    for tw in case.get("tweaks") or []:
        res.label(f"tweak:{tw[0]}")
    for fid in case.get("excluded") or []:
        res.label(f"excluded:{fid}")
    types = {n["type"] for n in (cfg.get("simulation") or {}).get("network", {}).get("nodes") or []}
    for t in sorted(types):
        res.label(f"nodetype:{t}")

    # Oracle A (optionally after another scenario has been built in this process)
    if case.get("after"):
        build_from_dict(polluter(cfg))  # a fixed well-formed scenario: an exception here is a harness error
        res.label("after-another-build")
    try:
        if case["src"] == "schedule":
            game = build_schedule_episode(case["folder"], case["episode"])
        else:
            game = build_from_dict(cfg)
    except Exception as e:
        res.violate(f"raise:load:{exc_sig(e)}", f"loading the scenario raised {exc_msg(e)}")
        return res
    built = c20_read.read(game)
    compare(inv, built, res)
    res.label("oracleA")
    if inv.folder_defaults:
        probe_runtime_folder(game, inv, res)

    # Oracle B
    if case.get("perm") is not None or case.get("style"):
        if case["src"] != "schedule":
            oracle_b(cfg, case, res)
            res.label("oracleB")
    return res


# ---------------------------------------------------------------------------------------------------------------------
# generators


def style_strategy():
    return st.fixed_dictionaries({
        "flow": st.sampled_from([False, None, True]),
        "quote": st.sampled_from([None, None, '"', "'"]),
        "aliases": st.booleans(),
        "indent": st.sampled_from([2, 4, 7]),
        "width": st.sampled_from([40, 100, 10000]),
    })


def acts_strategy(n: int):
    return st.lists(st.integers(0, 10**6), min_size=n, max_size=n)


def scope_strategy():
    return st.sampled_from(["all", "all", "all", "all"] + c20_yaml.SCOPES)


@st.composite
def gen_case(draw, steps: int):
    spec = draw(gen_scenario.spec_strategy())
    tweaks = draw(st.lists(c20_gen.tweak_strategy(), min_size=0, max_size=10))
    return {"src": "gen", "spec": spec, "tweaks": tweaks, "perm": draw(st.integers(0, 2**31)),
            "scope": draw(scope_strategy()), "style": draw(style_strategy()), "acts": draw(acts_strategy(steps)),
            "after": draw(st.booleans())}


@st.composite
def gen_sched_case(draw):
    """A generated scenario (router / firewall families included) written as an episode-scheduled folder, optionally a
    second one beside it (equal file names), walked for 2*len+2 episodes."""
    def one():
        spec = draw(gen_scenario.spec_strategy(families=("ROUTED", "DMZ", "LAN")))
        spec["agents"]["green"] = draw(st.integers(1, 2))
        return {"gen": spec, "n": draw(st.integers(1, 3))}

    folders = [one()]
    if draw(st.booleans()):
        folders.append(one())
    n = max(f["n"] for f in folders)
    return {"src": "schedrun", "folders": folders, "episodes": list(range(2 * n + 2))}


def shipped_b_case(files: List[str], steps: int):
    return st.fixed_dictionaries({"src": st.just("shipped"), "file": st.sampled_from(files),
                                  "perm": st.one_of(st.none(), st.integers(0, 2**31)), "scope": scope_strategy(),
                                  "style": style_strategy(), "acts": acts_strategy(steps)})


# open finding -> scope whose key order is known to matter: left in file order whenever everything is permuted, so that
# the known dependency does not hide another one ("all" is never listed as a known signature)
ORDER_FINDINGS = {"C20-action-probabilities-key-order": "agent.action_probabilities"}


def _exclude(ctx: Ctx, case: Dict) -> Dict:
    """Exclusion by construction for open findings (a) whose load error hides the rest of the case: keep the raising
    tweak in one case out of eight, drop it from the others; (b) whose key-order dependency would hide any other one in
    an everything-permuted variant. The applied exclusions are stored in the case (``excluded``) and counted by
    run_case as labels ``excluded:<id>``."""
    tw = case.get("tweaks")
    applied = []
    for fid, pred in c20_gen.RAISING_TWEAKS.items():
        if tw and ctx.excl.get(fid) and any(pred(t) for t in tw) and int(jhash(case), 16) % 8 != 0:
            case = dict(case)
            case["tweaks"] = tw = [t for t in tw if not pred(t)]
            applied.append(fid)
    for fid, scope in ORDER_FINDINGS.items():
        if ctx.excl.get(fid) and (case.get("scope") or "all") == "all" and case.get("perm") is not None:
            case = dict(case)
            case["keep"] = sorted(set(case.get("keep") or []) | {scope})
            applied.append(fid)
    if applied:
        case["excluded"] = applied
    return case


def worker(ctx: Ctx):
    files = shipped_ids()
    quick = ctx.tier == "quick"
    # 1. every shipped file (Oracle A + one re-serialisation), every episode of every schedule folder (+ wrap-around)
    cases: List[Dict] = []
    for i, f in enumerate(files):
        nsteps = SLOW_STEPS[ctx.tier] if any(k in f for k in SLOW_FILES) else 6
        cases.append({"src": "shipped", "file": f, "perm": ctx.seed * 7919 + i, "scope": "all",
                      "acts": [3 * i + j * 7 for j in range(nsteps)],
                      "style": {"flow": [False, None, True][(i + ctx.seed) % 3], "quote": [None, '"', "'"][(i // 3 + ctx.seed) % 3],
                                "aliases": bool(i % 2)}})
    for f in files:
        cases.append({"src": "shipped", "file": f, "after": True})
    # episode-scheduled mode: one scheduler instance per folder, episodes 0 .. 2*len+1 in order (UC7: 20 episodes of a
    # 2.7k-line scenario -> the quick tier walks 0..4, which already repeats TAP001_PC1, plus the wrap-around pair)
    for fd in SCHED_FOLDERS:
        n = schedule_len(fd)
        eps = list(range(2 * n + 2))
        if "uc7" in fd and quick:
            eps = [0, 1, 2, 3, 4]
        cases.append({"src": "schedrun", "folders": [fd], "episodes": eps})
    # two scheduler instances in one process over folders whose files have the same names
    cases.append({"src": "schedrun", "folders": ["pkg:scenario_with_placeholders", "tests:scenario_with_placeholders"],
                  "episodes": list(range(6))})
    for fam_a, fam_b in (("ROUTED", "DMZ"), ("DMZ", "ROUTED")):
        cases.append({"src": "schedrun", "episodes": list(range(5)),
                      "folders": [{"gen": c20_gen.base_spec(fam_a), "n": 2}, {"gen": c20_gen.base_spec(fam_b), "n": 2}]})
    for fam in ("LAN", "ROUTED", "DMZ"):
        cases.append({"src": "schedrun", "episodes": list(range(2 * 2 + 2)), "folders": [{"gen": c20_gen.base_spec(fam), "n": 2}]})
    # every tweak of the fixed alphabet, alone, on one rich scenario of each family (Oracle A; thorough: + Oracle B)
    for fam in ("LAN", "ROUTED", "DMZ"):
        spec = c20_gen.base_spec(fam)
        cases.append({"src": "gen", "spec": spec, "tweaks": []})
        for nm in (None, True, False):  # nmne_config absent / capture on / capture off, each after the opposite polluter
            cases.append({"src": "gen", "spec": dict(spec, nmne=nm), "tweaks": [], "after": True})
        for j, tw in enumerate(c20_gen.ALPHABET):
            c = {"src": "gen", "spec": spec, "tweaks": [tw], "after": bool(j % 2)}
            if not quick:
                c.update({"perm": ctx.seed * 31 + j, "scope": "all", "style": {}, "acts": [5 * j + 3 * q for q in range(4)]})
            cases.append(c)
        for tws in c20_gen.PAIRS:
            cases.append({"src": "gen", "spec": spec, "tweaks": [list(t) for t in tws]})
    enum_run(ctx, [_exclude(ctx, c) for c in cases], run_case)
    ctx.extra["exhaustive"] = True
    ctx.extra["exhaustive_domain"] = (
        f"all {len(files)} loadable shipped scenario files, all episodes (+2 wrap-around) of the "
        f"{len(SCHEDULE_DIRS)} episode-schedule folders, and every tweak of the {len(c20_gen.ALPHABET)}-entry alphabet "
        f"applied alone (and {len(c20_gen.PAIRS)} fixed combinations) to one rich scenario of each of the 3 generated families"
    )
    ctx.extra["denied"] = "; ".join(f"{k}: {v}" for k, v in sorted(DENY.items()))
    # 2. generated scenarios
    n_gen = 22 if quick else 150
    steps = 6 if quick else 10

    hyp_run(ctx, gen_case(steps).map(lambda c: _exclude(ctx, c)), run_case, n_gen, sub=1)
    hyp_run(ctx, gen_sched_case(), run_case, 2 if quick else 25, sub=3)
    # 3. further re-serialisations of the shipped files
    small = [f for f in files if "uc7" not in f and not any(k in f for k in SLOW_FILES)]
    hyp_run(ctx, shipped_b_case(small if quick else [f for f in files if not any(k in f for k in SLOW_FILES)],
                                steps).map(lambda c: _exclude(ctx, c)), run_case,
            6 if quick else 40, sub=2)
