"""C05 — requests resolve to a documented status; refused requests change nothing (DESIGN §C05)."""
from __future__ import annotations

import json
from typing import Any, Dict, List, Optional

from hypothesis import strategies as st

from .. import reqtrace
from ..envdrive import Driver, gen_case_strategy, shipped_case_strategy
from ..harness import CaseResult, Ctx, hyp_run
from ..simutil import exc_msg, exc_sig, norm_state
from .c01 import usable_shipped

ID = "C05"
WORKERS = {"quick": 8, "thorough": 16}
SHRINK_KEY = ["probes", "ops"]
RULE = (
    "case = (scenario, action prefix reaching a state with nodes off/booting, services stopped, files deleted, software "
    "uninstalled, declared-OFF nodes powered on, a folder with files deleted; then a list of probes). A probe is (i) a path of the live request tree "
    "(get_request_types_recursively) with templated leaf arguments, (ii) a mutation of such a path - element at depth k "
    "replaced by a missing / misspelt / other-kind name, or the path cut at a manager - or (iii) the request formed by "
    "a registered action type for an existing or missing component (ActionManager.form_request). Every probe is applied "
    "with Simulation.apply_request while an observe-only tracer records where RequestManager.__call__ returned, and the "
    "whole simulation's normalised describe_state is compared before/after; each rule on the path is also judged from the "
    "raw state of the component it guards (a rule that is not satisfied must stop the request; an action's request must "
    "name the node its parameters name). Non-trivial = a probe refused or unreachable "
    "at depth >= 2 in a non-initial state; distinct by (path template, mutation kind, depth, return point)."
)
ASSUMPTIONS = [
    "only path elements are mutated; leaf argument arity is kept valid (argument validation is not what the property is about): "
    "leaves whose argument template is unknown are called without arguments and an exception raised INSIDE such a leaf "
    "handler is counted (leaf_arg_mismatch) but not reported",
    "describe_state() is the observable simulation state",
]

STATUSES = {"success", "failure", "unreachable", "pending"}

# argument templates for leaves that need arguments (taken from the action classes / request handlers)
LEAF_ARGS = {
    ("create", "file"): ["pf", "pf.txt", False],
    ("create", "folder"): ["pf"],
    ("delete", "file"): ["pf", "pf.txt"],
    ("delete", "folder"): ["pf"],
    ("restore", "file"): ["pf", "pf.txt"],
    ("restore", "folder"): ["pf"],
    ("access",): ["pf", "pf.txt"],
    ("delete",): ["pf.txt"],
    ("add_rule",): ["DENY", "tcp", "192.168.10.2", "NONE", 80, "ALL", "NONE", 80, 3],
    ("remove_rule",): [3],
    ("install",): ["dos-bot"],
    ("uninstall",): ["dos-bot"],
    ("add_user",): ["probe_u", "probe_p", False],
    ("disable_user",): ["probe_u"],
    ("change_password",): ["probe_u", "probe_p", "probe_q"],
    ("remote_login",): ["admin", "admin", "192.168.10.2"],
    ("remote_logout",): ["nosuchsession"],
    ("remote_logoff",): ["192.168.10.2"],
}
NEEDS_DICT = {"configure", "ping_scan", "port_scan", "network_service_recon", "ransomware_configure", "ransomware_launch",
              "terminal_command", "exfiltrate", "send_remote_command", "send_local_command", "node-session-remote-login",
              "node_session_remote_login", "ssh_to_remote", "remote_logoff", "login"}


def leaf_args(path: List) -> Optional[List]:
    for n in (2, 1):
        k = tuple(path[-n:])
        if k in LEAF_ARGS:
            return list(LEAF_ARGS[k])
    return None


def live_paths(sim) -> List[List]:
    return sim._request_manager.get_request_types_recursively()


def state_of(sim) -> str:
    return json.dumps(norm_state(sim.describe_state()), sort_keys=True, default=str)


def component_missing_kind(net, action: str, o: Dict) -> Optional[str]:
    """Which kind of component named by the action's parameters does NOT exist right now (None if all exist)?
    Only kinds for which 'does not exist' is unambiguous: node, service, application, nic."""
    node_name = o.get("node_name") or o.get("target_router") or o.get("target_nodename") or o.get(
        "target_firewall_nodename") or o.get("source_node")
    if node_name is None:
        return None
    node = net.get_node_by_hostname(node_name)
    if node is None:
        return "node"
    if "service_name" in o and o["service_name"] not in node.software_manager.software:
        return "service"
    if "application_name" in o and not action.endswith("-install") and \
            o["application_name"] not in node.software_manager.software:
        return "application"  # incl. node-application-remove of something that is not (or no longer) installed
    if "nic_num" in o and o["nic_num"] not in node.network_interface:
        return "nic"
    if "port_num" in o and o["port_num"] not in node.network_interface:
        return "nic"
    return None


def component_exists(net, action: str, o: Dict) -> bool:
    """Do the action's parameters name components that exist right now?"""
    node_name = o.get("node_name") or o.get("target_router") or o.get("target_nodename") or o.get(
        "target_firewall_nodename") or o.get("source_node")
    if node_name is None:
        return True
    node = net.get_node_by_hostname(node_name)
    if node is None:
        return False
    if "service_name" in o:
        from primaite.simulator.system.services.service import Service

        s = node.software_manager.software.get(o["service_name"])
        if s is None or not isinstance(s, Service):
            return False
    if "application_name" in o and not action.endswith(("-install", "-remove")):
        from primaite.simulator.system.applications.application import Application

        s = node.software_manager.software.get(o["application_name"])
        if s is None or not isinstance(s, Application):
            return False
    if "nic_num" in o and o["nic_num"] not in node.network_interface:
        return False
    if "port_num" in o and o["port_num"] not in node.network_interface:
        return False
    if "folder_name" in o and not action.endswith("-create"):
        f = node.file_system.get_folder(o["folder_name"])
        if f is None:
            return False
        if "file_name" in o and f.get_file(o["file_name"]) is None:
            return False
    if action.startswith(("node-nmap", "node-network-service-recon")) and "nmap" not in node.software_manager.software:
        return False
    if action.startswith("c2-server") and "c2-server" not in node.software_manager.software:
        return False
    if action.startswith("configure-"):
        app = {"configure-c2-beacon": "c2-beacon", "configure-database-client": "database-client",
               "configure-dos-bot": "dos-bot", "configure-ransomware-script": "ransomware-script"}.get(action)
        if app and app not in node.software_manager.software:
            return False
    if action.startswith(("node-session", "node-send", "node-account")):
        need = {"node-account": "user-manager", "node-session": "terminal", "node-send": "terminal"}[action[:12] if action.startswith("node-account") else action[:12] if action.startswith("node-session") else "node-send"]
        if need not in node.software_manager.software:
            return False
    return True


def run_case(case: Dict) -> CaseResult:
    res = CaseResult()
    reqtrace.install()
    d = Driver(case)
    if not d.build():
        res.label("build_failed")
        return res
    env = d.env
    d.run()  # the prefix: reach a non-initial state
    if d.error:
        res.label("prefix_raised")  # C01's business
    sim = env.game.simulation
    net = sim.network
    am = env.agent.action_manager
    # reachable state "software uninstalled": remove some non-core software through the documented request, then aim
    # every action-map entry that names it at the node (it addresses a component that no longer exists)
    extra_probes: List[List] = []
    UNINSTALLABLE = {"dns-client", "ftp-client", "ntp-client", "web-browser", "nmap", "database-service", "web-server",
                     "dns-server", "ntp-server", "ftp-server", "database-client", "data-manipulation-bot",
                     "ransomware-script", "dos-bot", "c2-beacon", "c2-server"}
    for hsel, ssel in case.get("uninstall", []):
        hosts = [n for n in net.nodes.values() if hasattr(n, "software_manager") and n.operating_state.name == "ON"]
        if not hosts:
            break
        node = hosts[hsel % len(hosts)]
        names = sorted(n_ for n_ in node.software_manager.software if n_ in UNINSTALLABLE)
        if not names:
            continue
        name = names[ssel % len(names)]
        try:
            r = sim.apply_request(["network", "node", node.config.hostname, "software_manager", "application", "uninstall", name])
        except Exception as e:
            res.violate(f"raise:uninstall:{exc_sig(e)}", f"uninstall {name} on {node.config.hostname}: {exc_msg(e)}")
            return res
        if name not in node.software_manager.software:
            res.label("uninstalled_software")
            for idx, (act, opts) in am.action_map.items():
                if opts.get("node_name") == node.config.hostname and name in (opts.get("service_name"), opts.get("application_name")) \
                        and not act.endswith(("-install", "-remove")):
                    extra_probes.append(["action", idx])
    # reachable state "declared OFF, then powered on": components attached while the node was off must be addressable
    # once it is on (interfaces, services, applications, file system)
    if case.get("wake"):
        woken = []
        for n in net.nodes.values():
            if n.operating_state.name == "OFF":
                try:
                    sim.apply_request(["network", "node", n.config.hostname, "startup"])
                except Exception as e:
                    res.violate(f"raise:startup:{exc_sig(e)}", f"startup of {n.config.hostname}: {exc_msg(e)}")
                    return res
                woken.append(n)
        if woken:
            a0 = next((k for k, v in am.action_map.items() if v[0] == "do-nothing"), 0)
            for _ in range(5):
                if all(n.operating_state.name == "ON" for n in woken) or \
                        d.steps_in_episode >= env.game.options.max_episode_length:
                    break
                try:
                    env.step(a0)
                    d.steps_in_episode += 1
                except Exception:
                    res.label("prefix_raised")
                    break
            names = {n.config.hostname for n in woken if n.operating_state.name == "ON"}
            if names:
                res.label("woke_declared_off_node")
            for idx, (act, opts) in am.action_map.items():
                tgt = opts.get("node_name") or opts.get("target_nodename") or opts.get("target_router") or opts.get("target_firewall_nodename")
                if tgt in names and act not in ("node-shutdown", "node-startup", "node-reset"):
                    extra_probes.append(["action", idx])
    # reachable state "files deleted": delete a folder that holds files, then address the folder and its files through
    # the handler-parameter requests (file_system restore|delete file <folder> <file>, access): the folder does not exist
    # any more (that is what the simulator itself answers), so none of them may be answered 'success' or change anything
    raw_probes: List[List] = []
    if case.get("fsdel") is not None:
        hosts = [n for n in net.nodes.values() if n.operating_state.name == "ON" and getattr(n, "file_system", None) is not None]
        cands = [(n, f) for n in hosts for f in n.file_system.folders.values() if f.files and f.name != "root"]
        if cands:
            node, fol = cands[case["fsdel"] % len(cands)]
            fnames = [x.name for x in fol.files.values()]
            base = ["network", "node", node.config.hostname, "file_system"]
            try:
                r = sim.apply_request(base + ["delete", "folder", fol.name])
            except Exception as e:
                res.violate(f"raise:delete-folder:{exc_sig(e)}", f"{base} delete folder {fol.name}: {exc_msg(e)}")
                return res
            if r.status == "success" and node.file_system.get_folder(fol.name) is None:
                res.label("deleted_folder_with_files")
                for fn in fnames[:2]:
                    raw_probes.append(["raw", base + ["restore", "file", fol.name, fn]])
                    raw_probes.append(["raw", base + ["delete", "file", fol.name, fn]])
                    raw_probes.append(["raw", base + ["access", fol.name, fn]])
                    raw_probes.append(["raw", base + ["folder", fol.name, "file", fn, "scan"]])
    paths = live_paths(sim)
    if not paths:
        return res
    nt_keys = set()
    non_initial = d.total_steps > 0
    for j, pr in enumerate(raw_probes + extra_probes[:40] + list(case["probes"])):
        kind = pr[0]
        expect_reachable = None
        missing = None
        tmpl = None
        if kind == "raw":
            req = list(pr[1])
            tmpl = "deleted-folder:" + "/".join(str(x) for x in req[4:-2] if x not in (req[-2], req[-1]))
            mut = "none"
            known_args = True
        elif kind == "action":
            idx = pr[1] % len(am.action_map)
            act, opts = am.action_map[idx]
            try:
                req = am.form_request(act, opts)
            except Exception as e:
                res.violate(f"raise:form_request:{exc_sig(e)}", f"probe#{j} {act}: {exc_msg(e)}")
                break
            expect_reachable = component_exists(net, act, opts) and act != "do-nothing"
            missing = component_missing_kind(net, act, opts)
            tmpl = "action:" + act
            mut = "none"
        else:
            base = list(paths[pr[1] % len(paths)])
            args = leaf_args(base)
            known_args = args is not None or base[-1] not in NEEDS_DICT
            req = base + (args or [])
            tmpl = "path:" + "/".join("*" if (i > 0 and base[i - 1] in ("node", "service", "application", "network_interface", "folder", "file")) else str(x) for i, x in enumerate(base))
            mut = "none"
            if kind == "mutate":
                mk, depth, salt = pr[2], pr[3] % len(base), pr[4]
                mut = mk
                if mk == "missing":
                    req = base[:depth] + [f"no_such_{salt}"] + base[depth + 1:] + (args or [])
                elif mk == "misspelt":
                    e = str(base[depth])
                    req = base[:depth] + [e[:-1] + ("_" if not e.endswith("_") else "x")] + base[depth + 1:] + (args or [])
                elif mk == "otherkind":
                    other = paths[salt % len(paths)]
                    req = base[:depth] + [other[min(depth, len(other) - 1)] if other[min(depth, len(other) - 1)] != base[depth] else "domain"] + base[depth + 1:] + (args or [])
                elif mk == "cut":
                    if depth == 0:
                        depth = 1
                    req = base[:depth]
                    if len(req) == len(base):  # cutting nothing: would leave a leaf without arguments
                        req = base[:-1]
                    known_args = True
        # the permission rules on the path judged from the raw state of the components they guard (reqtrace.truth:
        # the rules as documented, never the validator objects)
        try:
            t_allowed, t_why, t_depth, t_detail = reqtrace.truth_run(sim._request_manager, list(req), {})
        except Exception:
            t_allowed, t_why, t_depth, t_detail = True, "n/a", 0, None
        before = state_of(sim)
        reqtrace.start()
        raised = None
        try:
            resp = sim.apply_request(list(req))
        except Exception as e:
            raised = e
        tr = reqtrace.stop()
        rkind, depth_ret, detail = reqtrace.summary(tr)
        if raised is not None:
            if rkind == "leaf" and kind not in ("action", "raw") and not known_args:
                res.label("leaf_arg_mismatch")
                continue
            if rkind == "leaf" and kind not in ("action", "raw"):
                # a leaf reached through a live path with templated arguments raised: argument shapes are outside the
                # property's domain unless the request came from an action class
                res.label("leaf_raised_on_templated_args")
                continue
            if kind != "action" and rkind == "validator-raised" and isinstance(raised, IndexError):
                # the mutation (a cut, or a replacement that turned a name into a verb) left a validator without the
                # component NAME it reads (request[0] / request[1]): that is argument arity, which the domain note of
                # DESIGN §C05 keeps valid; counted, not reported
                res.label("mutation_left_validator_without_name")
                continue
            res.violate(f"raise:{kind}:{mut}:{rkind}:{exc_sig(raised)}", f"probe#{j} request {req}: {exc_msg(raised)}")
            break
        from primaite.interface.request import RequestResponse

        if not isinstance(resp, RequestResponse) or resp.status not in STATUSES:
            res.violate(f"bad-response:{kind}:{rkind}", f"probe#{j} request {req}: {resp!r}")
            break
        after = state_of(sim)
        if rkind in ("keymiss", "refused", "empty"):
            if resp.status == "success" or resp.status == "pending":
                res.violate(f"refused-but-{resp.status}:{rkind}", f"probe#{j} request {req} stopped by {rkind} at depth {depth_ret} but answered {resp.status}")
            if rkind == "keymiss" and resp.status != "unreachable":
                res.violate("keymiss-not-unreachable", f"probe#{j} request {req}: {resp.status}")
            if rkind == "refused":
                if resp.status != "failure":
                    res.violate("refused-not-failure", f"probe#{j} request {req}: {resp.status}")
                elif not resp.data.get("reason"):
                    res.violate("refused-without-reason", f"probe#{j} request {req}: data={resp.data}")
            if before != after:
                res.violate(f"refused-request-changed-state:{rkind}:{detail if rkind == 'refused' else ''}",
                            f"probe#{j} request {req} was stopped by {rkind} at depth {depth_ret} but describe_state changed")
            if depth_ret >= 2 and non_initial:
                nt_keys.add((tmpl, mut, depth_ret, rkind))
        if t_why == "refused" and rkind in ("leaf", "delegate"):
            # by the documented meaning of the rule the request had to be refused, yet it reached a handler
            if resp.status in ("success", "pending") or before != after:
                res.violate(f"rule-not-enforced:{t_detail}:{resp.status}",
                            f"probe#{j} request {req}: rule {t_detail} at depth {t_depth} is not satisfied by the component's state, "
                            f"yet the request reached its handler and was answered {resp.status}{' and changed state' if before != after else ''}")
        if t_allowed and rkind == "refused" and kind == "action":
            res.violate(f"refused-though-rules-satisfied:{tmpl}:{detail}",
                        f"probe#{j} {tmpl} request {req}: refused by {detail} at depth {depth_ret} although every rule on the path is "
                        f"satisfied by the components' own state")
        if kind == "action" and act != "do-nothing":
            named = opts.get("node_name") or opts.get("target_router") or opts.get("target_nodename") or opts.get(
                "target_firewall_nodename") or opts.get("source_node")
            if named is not None and named not in req:
                res.violate(f"action-request-does-not-address-named-node:{tmpl}",
                            f"probe#{j} {tmpl} {opts}: the formed request {req} does not name node {named!r}")
        if kind == "raw":
            if resp.status in ("success", "pending"):
                res.violate(f"deleted-folder-answered-{resp.status}:{tmpl}",
                            f"probe#{j} request {req} names a folder that was deleted (it is not in the live set), yet -> {rkind}/{resp.status}")
            elif before != after:
                res.violate(f"deleted-folder-request-changed-state:{tmpl}", f"probe#{j} request {req} -> {resp.status} but describe_state changed")
        if kind == "action" and missing and resp.status in ("success", "pending"):
            res.violate(f"missing-{missing}-answered-{resp.status}:{tmpl}",
                        f"probe#{j} {tmpl} {opts}: the {missing} it names does not exist, yet request {req} -> {rkind}/{resp.status}")
        if kind == "action" and expect_reachable and rkind == "keymiss" and str(detail) not in {str(v) for v in opts.values()}:
            # the element that was not found is not a component NAME taken from the action's parameters but an
            # operation that this kind of component does not offer (e.g. 'execute' on c2-server): the action type
            # cannot address that component, which is outside "every component ... it can address"
            res.label("verb-not-offered-by-component")
        elif kind == "action" and expect_reachable:
            if rkind in ("keymiss", "empty") or resp.status == "unreachable":
                res.violate(f"existing-target-unreachable:{tmpl}", f"probe#{j} {tmpl} options name existing components but request {req} -> {rkind}/{resp.status}")
        if res.violations:
            break
        res.label(f"ret:{rkind}", f"kind:{kind}:{mut}")
    res.nontrivial = tuple(sorted(nt_keys)) if nt_keys else False
    res.extra["nt_keys"] = [list(map(str, k)) for k in nt_keys]
    return res


def probe_strategy():
    return st.one_of(
        st.tuples(st.just("live"), st.integers(0, 5000)),
        st.tuples(st.just("mutate"), st.integers(0, 5000), st.sampled_from(["missing", "misspelt", "otherkind", "cut"]),
                  st.integers(0, 12), st.integers(0, 5000)),
        st.tuples(st.just("action"), st.integers(0, 5000)),
    ).map(list)


@st.composite
def gen_case(draw):
    c = draw(gen_case_strategy(max_ops=12))
    c["probes"] = draw(st.lists(probe_strategy(), min_size=10, max_size=60))
    c["uninstall"] = draw(st.lists(st.tuples(st.integers(0, 5), st.integers(0, 20)).map(list), max_size=2))
    c["wake"] = draw(st.booleans())
    c["fsdel"] = draw(st.sampled_from([None, 0, 1, 2, 3, 5]))
    return c


@st.composite
def shipped_case(draw, paths):
    c = draw(shipped_case_strategy(paths, max_ops=8))
    c["probes"] = draw(st.lists(probe_strategy(), min_size=10, max_size=60))
    return c


class _NT:
    pass


def worker(ctx: Ctx):
    q = ctx.tier == "quick"
    # distinctness is by probe signature, not by case: collect keys across cases
    keys = set()
    orig_record = ctx.record

    def record(case, res):
        for k in res.extra.get("nt_keys", []):
            keys.add(tuple(k))
        res.nontrivial = False
        orig_record(case, res)

    ctx.record = record
    hyp_run(ctx, gen_case(), run_case, 45 if q else 400, sub=0)
    paths = [p for p in usable_shipped() if "uc7" not in p] if q else usable_shipped()
    hyp_run(ctx, shipped_case(paths), run_case, 6 if q else 100, sub=1)
    from ..harness import jhash

    ctx.nontrivial.update(jhash(list(k)) for k in keys)
    ctx.nt_samples.extend([{"nontrivial_probe_signature": list(k)} for k in sorted(keys)[:2]])
