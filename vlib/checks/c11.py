"""C11 — the action mask agrees with what the simulator would refuse (DESIGN §C11)."""
from __future__ import annotations

from typing import Any, Dict, List

import numpy as np

from .. import reqtrace
from ..envdrive import Driver, gen_case_strategy, shipped_case_strategy, load_shipped
from ..harness import CaseResult, Ctx, hyp_run
from .c01 import usable_shipped

ID = "C11"
WORKERS = {"quick": 8, "thorough": 16}
RULE = (
    "case = (masking-enabled scenario, op list) over generated LAN/ROUTED/DMZ families (action map = action templates x "
    "live inventory + entries aimed at missing components; start-up/shut-down durations 0-3 so transitional states are "
    "visited) and shipped scenarios with action_masking; before every step, for EVERY entry of the action map, "
    "env.action_masks()[i] is compared with an independent dry-run of the formed request over the live request tree "
    "(all keys exist and every validator on the path accepts) AND with a second walk that judges every rule from the raw "
    "state of the component it guards (power state, service/application state, interface enabled flag, live file/folder "
    "sets) without calling the validators; for the executed entry the mask computed at the moment "
    "the request is applied is compared with where RequestManager.__call__ returned. Non-trivial = a step at which >=1 "
    "entry is masked out because a node is SHUTTING_DOWN/BOOTING or a service/application is in a transitional state; "
    "distinct by case hash."
)
ASSUMPTIONS = [
    "validators are the definition of 'permission rule'; the dry-run evaluates the same validator objects but walks the "
    "tree itself (it never calls check_valid or RequestManager.__call__)",
    "validators are side-effect free (they are evaluated once more by the observe-only tracer)",
]

_HOOK = {"on": False, "game": None, "agent_name": None, "mask_at_exec": None, "trace": None}


def _install_agent_hooks():
    if _HOOK["on"]:
        return
    from primaite.game.agent.interface import AbstractAgent

    orig_fmt = AbstractAgent.format_request
    orig_proc = AbstractAgent.process_action_response

    def fmt(self, action, options):
        g = _HOOK["game"]
        if g is not None and g.agents.get(_HOOK["agent_name"]) is self:
            try:
                _HOOK["mask_at_exec"] = np.asarray(g.action_mask(_HOOK["agent_name"])).copy()
            except Exception as e:
                _HOOK["mask_at_exec"] = e
            reqtrace.start()
        return orig_fmt(self, action, options)

    def proc(self, *a, **kw):
        g = _HOOK["game"]
        if g is not None and g.agents.get(_HOOK["agent_name"]) is self:
            _HOOK["trace"] = reqtrace.stop()
        return orig_proc(self, *a, **kw)

    AbstractAgent.format_request = fmt
    AbstractAgent.process_action_response = proc
    _HOOK["on"] = True


def transitional_reason(game) -> bool:
    from primaite.simulator.network.hardware.node_operating_state import NodeOperatingState

    for n in game.simulation.network.nodes.values():
        if n.operating_state in (NodeOperatingState.BOOTING, NodeOperatingState.SHUTTING_DOWN):
            return True
        for s in n.software_manager.software.values():
            st = getattr(s, "operating_state", None)
            if st is not None and st.name in ("RESTARTING", "INSTALLING"):
                return True
    return False


def run_case(case: Dict) -> CaseResult:
    res = CaseResult()
    reqtrace.install()
    _install_agent_hooks()
    d = Driver(case)
    if not d.build():
        res.label("build_failed")
        return res
    env = d.env
    if not env.agent.config.agent_settings.action_masking:
        res.label("masking_off")
        return res
    st = {"nt": 0, "entries": 0}

    def compare_all(i):
        g = env.game
        ag = env.agent
        try:
            mask = np.asarray(env.action_masks())
        except Exception as e:
            from ..simutil import exc_msg, exc_sig

            res.violate(f"raise:action_masks:{exc_sig(e)}", f"op#{i}: {exc_msg(e)}")
            return False
        root = g.simulation._request_manager
        trans = transitional_reason(g)
        masked_for_trans = False
        for k, (act, opts) in ag.action_manager.action_map.items():
            req = ag.action_manager.form_request(action_identifier=act, action_options=opts)
            allowed, why, depth, detail = reqtrace.dry_run(root, req, {})
            st["entries"] += 1
            m = bool(mask[k])
            if m and not allowed:
                res.violate(f"mask-overpermits:{act}:{why}:{detail if why == 'refused' else ''}",
                            f"op#{i}: entry {k} {act} {opts} is unmasked but the dry-run is stopped by {why} at depth {depth} ({detail})")
            elif not m and allowed:
                res.violate(f"mask-overrestricts:{act}", f"op#{i}: entry {k} {act} {opts} is masked out but nothing on its path refuses it")
            # the same entry judged from the raw state of the guarded components (the rules as documented, not the
            # validator objects): catches a rule that reads a cache, a reported value or the wrong field
            t_allowed, t_why, t_depth, t_detail = reqtrace.truth_run(root, req, {})
            # "host is on" is a rule of EVERY action aimed at a node except its start-up (property text; C12): an entry
            # whose target node exists and is not ON must be masked out, whether or not a validator sits on its route
            tgt = opts.get("node_name") or opts.get("target_router") or opts.get("target_nodename") or opts.get(
                "target_firewall_nodename") or opts.get("source_node")
            if m and tgt is not None and act != "node-startup":
                nd = g.simulation.network.get_node_by_hostname(tgt)
                if nd is not None and nd.operating_state.name != "ON":
                    res.violate(f"mask-overpermits:target-node-not-on:{act}",
                                f"op#{i}: entry {k} {act} {opts} is unmasked although node {tgt} is {nd.operating_state.name}")
            # "its target does not exist" judged from the raw inventory, not from validator objects: an unmasked entry
            # whose service / application / interface / folder / file is not there (not installed, deleted) is reported.
            # Creating, installing, restoring and removing address something that need not exist and are left out.
            fs_gated = ("node-file-scan", "node-file-checkhash", "node-file-repair", "node-file-corrupt", "node-file-delete",
                        "node-folder-scan", "node-folder-checkhash", "node-folder-repair")
            # (file-system actions that hand the names to their handler as parameters - access, restore, create - reach the
            # handler whatever the names are, so by the property's wording they are available)
            if m and act != "do-nothing" and not act.endswith(("-create", "-install", "-restore", "-remove")) and \
                    ("folder_name" not in opts or act in fs_gated):
                from .c05 import component_exists as _exists

                if not _exists(g.simulation.network, act, opts):
                    res.violate(f"mask-overpermits:target-does-not-exist:{act}",
                                f"op#{i}: entry {k} {act} {opts} is unmasked although a component it names does not exist")
            if not m and t_why == "keymiss" and str(t_detail) in {str(v) for v in opts.values()}:
                # masked out because a NAME taken from the action's parameters is not routed: legitimate only if the
                # component really does not exist (raw inventory of the simulation, as in C05)
                from .c05 import component_exists

                if component_exists(g.simulation.network, act, opts):
                    res.violate(f"mask-overrestricts:existing-target-not-routed:{act}",
                                f"op#{i}: entry {k} {act} {opts} is masked out because {t_detail!r} is not routed at depth "
                                f"{t_depth}, but that component exists")
            if t_why != "arity":
                if m and not t_allowed:
                    res.violate(f"mask-overpermits-vs-component-state:{act}:{t_why}:{t_detail if t_why == 'refused' else ''}",
                                f"op#{i}: entry {k} {act} {opts} is unmasked but by the components' own state the rule {t_detail} at depth {t_depth} is not satisfied ({t_why})")
                elif not m and t_allowed:
                    res.violate(f"mask-overrestricts-vs-component-state:{act}:{detail if why == 'refused' else why}",
                                f"op#{i}: entry {k} {act} {opts} is masked out ({why} {detail}) but by the components' own state every rule on its path is satisfied")
            if not allowed and why == "refused" and trans:
                masked_for_trans = True
        if masked_for_trans:
            st["nt"] += 1
        return not res.violations

    def after_reset(i, op, obs, info):
        _HOOK["game"] = env.game
        _HOOK["agent_name"] = env._agent_name
        return compare_all(i)

    def before_step(i, op, a):
        _HOOK["game"] = env.game
        _HOOK["agent_name"] = env._agent_name
        _HOOK["mask_at_exec"] = None
        _HOOK["trace"] = None

    def after_step(i, op, a, out):
        ag = env.agent
        act = ag.action_manager.action_map[a][0]
        m = _HOOK["mask_at_exec"]
        tr = _HOOK["trace"]
        if isinstance(m, Exception) or m is None or tr is None:
            return compare_all(i)
        kind, depth, detail = reqtrace.summary(tr)
        status = ag.history[-1].response.status
        if not m[a]:
            if status == "success":
                res.violate(f"masked-action-succeeded:{act}", f"op#{i}: entry {a} {act} was masked out at execution time but returned success")
        else:
            if kind in ("keymiss", "refused"):
                res.violate(f"allowed-action-refused:{act}:{kind}:{detail if kind == 'refused' else ''}",
                            f"op#{i}: entry {a} {act} was allowed by the mask at execution time but stopped by {kind} at depth {depth} ({detail})")
        if res.violations:
            return False
        return compare_all(i)

    try:
        d.run(after_reset=after_reset, after_step=after_step, before_step=before_step,
              after_req=lambda i, op: compare_all(i))
    finally:
        _HOOK["game"] = None
        reqtrace.stop()
    res.nontrivial = st["nt"] >= 1
    res.extra["entries"] = st["entries"]
    for qn in reqtrace.UNKNOWN_VALIDATORS:
        res.label("rule_without_reference:" + qn)
    res.label("src:" + case["src"], "transitional" if st["nt"] else "no_transitional")
    return res


def masking_shipped() -> List[str]:
    out = []
    for p in usable_shipped():
        cfg = load_shipped(p)
        for a in cfg.get("agents", []):
            if a.get("type") == "proxy-agent" and (a.get("agent_settings") or {}).get("action_masking"):
                out.append(p)
    return out


@__import__("hypothesis").strategies.composite
def masked_gen_case(draw, max_ops=25):
    case = draw(gen_case_strategy(max_ops=max_ops))
    case["spec"]["obs"]["masking"] = True
    case["spec"]["obs"]["flatten"] = False
    from hypothesis import strategies as st_

    if draw(st_.integers(0, 2)) == 0:
        # a host DECLARED off is started and given time to boot before the random part: its interfaces, software and
        # files were attached while it was off and must be addressable (unmasked) once it is on
        from .. import gen_scenario

        zi = draw(st_.integers(0, len(case["spec"]["zones"]) - 1))
        hi = draw(st_.integers(0, len(case["spec"]["zones"][zi]) - 1))
        case["spec"]["zones"][zi][hi]["off"] = True
        name = f"z{zi}h{hi}"
        _, meta = gen_scenario.build(case["spec"])
        idx = [i for i, a in enumerate(meta["actions"]) if a["action"] == "node-startup" and a["options"].get("node_name") == name]
        if idx:
            case["ops"] = [["step", idx[0]], ["idle", case["spec"]["zones"][zi][hi]["up"] + 1]] + case["ops"]
            case["spec"]["max_len"] = max(case["spec"]["max_len"], 12)
    elif draw(st_.integers(0, 1)) == 0:
        # a folder is deleted (by a direct request: no defender action does that) and a folder of the same name is created
        # again: a deleted namesake now sits next to the live folder, whose own actions must stay available
        from .. import gen_scenario

        _, meta = gen_scenario.build(case["spec"])
        hs = [h for h in meta["hosts"] if not h.get("off")]
        if hs:
            h = hs[draw(st_.integers(0, len(hs) - 1))]

            def idx(action):
                return next((i for i, a in enumerate(meta["actions"]) if a["action"] == action
                             and a["options"].get("node_name") == h["name"] and a["options"].get("folder_name") == "docs"), None)

            mk, again = idx("node-file-create"), idx(draw(st_.sampled_from(["node-folder-create", "node-file-create"])))
            if mk is not None and again is not None:
                case["ops"] = [["step", mk], ["req", ["network", "node", h["name"], "file_system", "delete", "folder", "docs"]],
                               ["step", again]] + case["ops"]
                case["spec"]["max_len"] = max(case["spec"]["max_len"], 12)
    return case


def worker(ctx: Ctx):
    q = ctx.tier == "quick"
    paths = masking_shipped()
    if ctx.idx == 0:
        ctx.extra["shipped_masking_scenarios"] = ", ".join(paths)
    hyp_run(ctx, masked_gen_case(25), run_case, 55 if q else 800, sub=0)
    if paths:
        hyp_run(ctx, shipped_case_strategy(paths, max_ops=15), run_case, 8 if q else 150, sub=1)
