"""C16 — logins need valid credentials; remote commands need a live session (DESIGN §C16).

Reference session model against the real UserManager / UserSessionManager / Terminal, driven through the request forms the
agent actions produce.  The model owns accounts (password / disabled / admin) and remote sessions (user, client address,
last-active step, how it ended).  Power and service state of the nodes are *read* (C12/C13 own those state machines).
"""
from __future__ import annotations

import itertools
from ipaddress import IPv4Address
from typing import Any, Dict, List, Optional

from hypothesis import strategies as st

from ..harness import CaseResult, Ctx, enum_run, hyp_run
from ..simutil import base_cfg, computer, exc_msg, exc_sig, link, new_game, switch

ID = "C16"
WORKERS = {"quick": 8, "thorough": 16}
RULE = (
    "case = {n hosts (2-3) on one switch, time-out T (3-5, written to every UserSessionManager object), power "
    "duration (0/1), optional second account per node declared in the scenario (its password may carry surrounding "
    "whitespace), op list}; credentials are exact, never-valid, or near-misses of the stored ones (leading/trailing "
    "space, tab, newline, case, prefix, suffix, stripped, empty; near-miss user names); ops = add-user / disable-user / change-password / local command with credentials / "
    "remote login / remote command (creates a uniquely named folder on the target) / failing remote command (deletes a missing folder) / remote logoff between any ordered "
    "pair of hosts, tick x k (1-6), terminal stop/start, node shutdown/startup; requests are formed by the agent "
    "actions' form_request. Exhaustive: every sequence of fixed depth over a reduced alphabet after each of four "
    "prefixes (none / two sessions of one user / three sessions / stale client handle); random: Hypothesis sequences "
    "to depth 30 plus a steered family (two or three sessions on one target, the first kept busy by commands at intervals "
    "below the time-out while a later one idles past it and is then used; an account holding remote sessions is disabled at the session "
    "limit before further logins; an account holding the local and remote sessions loses the local session to another "
    "account). Non-trivial = the case sends a remote command (both ends ON, terminals running) from a client to a "
    "target on which a session of that client was ended by logout, time-out or password change, or attempts a login "
    "with valid credentials while max_remote_sessions are open; distinct by case hash."
)
ASSUMPTIONS = [
    "requests are formed exactly as the action classes form them; only names, addresses and credentials vary",
    "node power state and terminal service state are read from the objects (operating_state), not modelled",
    "which session a send_remote_command / remote_logoff to an IP address uses is read from the client terminal's "
    "connection table (Terminal._get_connection_from_ip, read-only): that identifies 'that session' of the property",
    "disable / change-password update the model from their response status; add-user of a NEW name likewise, but for an "
    "EXISTING name (enabled or disabled) the model is authoritative: user names are unique, so the account set and that "
    "account's password / disabled / admin flags must be unchanged afterwards, whatever the response says",
    "inactivity time-out convention: a session whose last activity is fewer than T steps ago must be open, more than T "
    "steps ago must be closed; exactly T steps ago either is accepted (the docs only say 'number of steps before a "
    "remote session times out')",
    "sessions are not required to end on terminal stop/start or node power cycle (the property lists logout, time-out "
    "and password change only); the liveness direction (live session => command executes) is asserted only while both "
    "ends are ON with running terminals and the session's user has not been disabled since",
]

MAX_SESSIONS = 3
USERS = ["admin", "bob"]
PASSWORDS = ["admin", "admin1", "admin12"]  # each a prefix of the next: substring / prefix comparisons are caught
WS_PASSWORDS = ["two words ", " lead"]  # stored passwords that themselves carry surrounding whitespace
WRONG = ["zz", "Admin1", ""]  # never a valid password
# near-misses of the password the model currently holds for the (nearest) account, resolved in run_case; the model then
# compares exact strings, so e.g. "@upper" of a password without letters is simply the right password
NEAR_PW = ["@cur+sp", "@sp+cur", "@cur+tab", "@nl+cur", "@upper", "@prefix", "@suffix", "@strip"]
NEAR_USERS = [" admin", "admin ", "Admin", "adm", "admin\t", "bob ", " bob"]  # never an account name unless added


def bob_entry(b):
    """case['bob'][i]: None = no second account, bool = is_admin (password admin1), [is_admin, password]."""
    if b is None:
        return None
    if isinstance(b, (list, tuple)):
        return bool(b[0]), str(b[1])
    return bool(b), "admin1"

# ids of open findings whose exclusion-by-construction this module implements
F_PWCHANGE = ("C16-pwchange-other-sessions-survive", "C16-pwchange-command-still-runs")  # one root cause
F_TIMEOUT_RAISE = "C16-timeout-keyerror-after-server-side-logoff"


def ip_of(i: int) -> str:
    return f"192.168.1.{10 + i}"


def host(i: int) -> str:
    return f"h{i}"


def scenario(n: int, dur: int, bob: List) -> Dict:
    nodes = [switch("sw", 8, start_up_duration=0, shut_down_duration=0)]
    links = []
    for i in range(n):
        kw = {}
        b = bob_entry(bob[i]) if i < len(bob) else None
        if b is not None:  # declared in the scenario's `users:` list of the node
            kw["users"] = [{"username": "bob", "password": b[1], "is_admin": b[0]}]
        nodes.append(computer(host(i), ip_of(i), start_up_duration=dur, shut_down_duration=dur, **kw))
        links.append(link("sw", i + 1, host(i), 1))
    return base_cfg(nodes, links, max_len=1000)


_AM = None


def _am():
    global _AM
    if _AM is None:
        from primaite.game.agent.actions import ActionManager

        _AM = ActionManager()
    return _AM


def form(kind: str, **o) -> List:
    """Requests exactly as the agent actions form them."""
    am = _am()
    if kind == "add_user":
        return am.form_request(
            "node-account-add-user",
            {"node_name": o["node"], "username": o["user"], "password": o["password"], "is_admin": o["admin"]},
        )
    if kind == "disable":
        return am.form_request("node-account-disable-user", {"node_name": o["node"], "username": o["user"]})
    if kind == "chpw":
        return am.form_request(
            "node-account-change-password",
            {"node_name": o["node"], "username": o["user"], "current_password": o["cur"], "new_password": o["new"]},
        )
    if kind == "local":
        return am.form_request(
            "node-send-local-command",
            {"node_name": o["node"], "username": o["user"], "password": o["password"],
             "command": ["file_system", "create", "folder", o["folder"]]},
        )
    if kind == "login":
        return am.form_request(
            "node-session-remote-login",
            {"node_name": o["node"], "username": o["user"], "password": o["password"], "remote_ip": o["ip"]},
        )
    if kind == "cmd":
        return am.form_request(
            "node-send-remote-command",
            {"node_name": o["node"], "remote_ip": o["ip"], "command": ["file_system", "create", "folder", o["folder"]]},
        )
    if kind == "cmdfail":  # a command the target processes but that fails: delete a folder that does not exist
        return am.form_request(
            "node-send-remote-command",
            {"node_name": o["node"], "remote_ip": o["ip"], "command": ["file_system", "delete", "folder", o["folder"]]},
        )
    if kind == "logoff":
        return am.form_request("node-session-remote-logoff", {"node_name": o["node"], "remote_ip": o["ip"]})
    if kind == "term":
        return am.form_request(f"node-service-{o['verb']}", {"node_name": o["node"], "service_name": "terminal"})
    if kind == "power":
        return am.form_request("node-shutdown" if o["verb"] == "off" else "node-startup", {"node_name": o["node"]})
    raise ValueError(kind)


# ---------------------------------------------------------------------------------------------------------------------
# reference model


class Sess:
    __slots__ = ("sid", "user", "client", "host", "last", "lo", "ended", "weak", "half", "reported")

    def __init__(self, sid, user, client, host_, last):
        self.sid, self.user, self.client, self.host, self.last = sid, user, client, host_, last
        # last = latest step at which the target may have processed a command of this session, lo = latest step at
        # which it certainly did (they differ only after a failing command over a `weak` session, whose processing
        # cannot be observed)
        self.lo = last
        self.ended: Optional[str] = None  # None = open; else the reason it ended
        self.weak = False  # liveness direction not asserted (user disabled since, login under unspecified conditions)
        self.half = False  # the hosting node itself issued a logoff / command towards the client's address (unspecified
        #                    use of the front door): the session may stay open but nothing more is required of it
        self.reported = False


class Model:
    def __init__(self, n: int, bob: List):
        self.users: List[Dict[str, Dict]] = [
            {"admin": {"pw": "admin", "disabled": False, "admin": True}} for _ in range(n)
        ]
        for i in range(n):
            b = bob_entry(bob[i]) if i < len(bob) else None
            if b is not None:
                self.users[i]["bob"] = {"pw": b[1], "disabled": False, "admin": b[0]}
        self.sess: List[Dict[str, Sess]] = [{} for _ in range(n)]
        self.now = 0

    def live(self, i: int) -> Dict[str, Sess]:
        return {k: s for k, s in self.sess[i].items() if s.ended is None}

    def cred_reason(self, i: int, user: str, pw: str) -> Optional[str]:
        """None when (user, pw) are valid credentials of an enabled account on node i, else why not."""
        a = self.users[i].get(user)
        if a is None:
            return "no-account"
        if a["disabled"]:
            return "disabled-account"
        if a["pw"] != pw:
            return "wrong-password"
        return None

    def enabled_admins(self, i: int) -> int:
        return sum(1 for a in self.users[i].values() if a["admin"] and not a["disabled"])


# ---------------------------------------------------------------------------------------------------------------------


def run_case(case: Dict) -> CaseResult:
    from primaite.simulator.network.hardware.node_operating_state import NodeOperatingState
    from primaite.simulator.system.services.service import ServiceOperatingState

    res = CaseResult()
    n, T, dur = int(case["n"]), int(case["T"]), int(case.get("dur", 0))
    ops = case["ops"]
    excl = set(case.get("excl", []))
    bob = list(case.get("bob", []))  # per node: None = no such account, else is_admin
    game = new_game(scenario(n, dur, bob))
    sim = game.simulation
    nodes = [sim.network.get_node_by_hostname(host(i)) for i in range(n)]
    for nd in nodes:
        nd.user_session_manager.remote_session_timeout_steps = T  # as tests/.../test_user_observations.py does
    m = Model(n, bob)
    nontrivial = False
    stop = False

    def on(i):
        return nodes[i].operating_state == NodeOperatingState.ON

    def term(i):
        return nodes[i].terminal.operating_state == ServiceOperatingState.RUNNING

    def impl_sids(i) -> List[str]:
        return list(nodes[i].user_session_manager.describe_state()["active_remote_sessions"])

    def local_user(i):
        return nodes[i].user_session_manager.describe_state()["current_local_user"]

    def has_folder(i, name) -> bool:
        return nodes[i].file_system.get_folder(name) is not None

    def peek(c: int, t: int) -> Optional[str]:
        """Session id a command / logoff from c to t's address would use (first matching entry of c's table)."""
        conn = nodes[c].terminal._get_connection_from_ip(IPv4Address(ip_of(t)))
        return conn.connection_uuid if conn is not None else None

    def apply(kind: str, req: List, when: str):
        nonlocal stop
        try:
            return True, sim.apply_request(req)
        except Exception as e:
            res.violate(f"raise:{kind}:{exc_sig(e)}", f"{when}: request {req} raised {exc_msg(e)}")
            stop = True
            return False, None

    def status_of(resp) -> Optional[str]:
        return getattr(resp, "status", None)

    def reconcile(kind: str, when: str, may_end: Dict[str, str]):
        """Compare the open remote sessions of every node with the model's; `may_end` lists sessions that the op is
        allowed (not required) to have ended, with the reason to record."""
        for i in range(n):
            impl = impl_sids(i)
            impl_set = set(impl)
            if len(impl) != len(impl_set):
                res.violate("duplicate-session-id", f"{when}: {host(i)} {impl}")
            live = m.live(i)
            for sid in impl:
                if sid in live:
                    continue
                s = m.sess[i].get(sid)
                if s is not None:
                    if not s.reported:
                        res.violate(
                            f"session-open-after:{s.ended}",
                            f"{when}: session of {s.user} from {ip_of(s.client)} on {host(i)} ended by {s.ended} in the "
                            f"model but is still in active_remote_sessions",
                        )
                        s.reported = True
                    if s.ended == "pwchange" and excl.intersection(F_PWCHANGE):
                        # open finding: take the surviving session back into the model so the search goes on behind it
                        s.ended, s.reported = None, False
                        res.label("excluded:" + F_PWCHANGE[0])
                else:
                    res.violate(f"session-appeared:{kind}", f"{when}: unexpected session {sid} on {host(i)}")
                    adopt(i, sid, weak=True)
            for sid, s in live.items():
                if sid in impl_set:
                    continue
                if sid in may_end:
                    s.ended = may_end[sid]
                    res.label("adopt:" + may_end[sid])
                else:
                    res.violate(
                        f"session-vanished:{kind}",
                        f"{when}: open session of {s.user} from {ip_of(s.client)} on {host(i)} (last active step "
                        f"{s.last}, now {m.now}, T={T}) disappeared",
                    )
                    s.ended = "vanished"
            if len(impl_set) > MAX_SESSIONS:
                res.violate("session-limit-exceeded", f"{when}: {len(impl_set)} remote sessions on {host(i)}")
            um = nodes[i].user_manager
            if not any(u.is_admin and not u.disabled for u in um.users.values()):
                res.violate("no-enabled-admin", f"{when}: {host(i)} has no enabled admin account")

    def adopt(i: int, sid: str, weak: bool) -> Optional[Sess]:
        obj = nodes[i].user_session_manager.remote_sessions.get(sid)
        if obj is None:
            return None
        client = next((k for k in range(n) if ip_of(k) == str(obj.remote_ip_address)), -1)
        s = Sess(sid, obj.user.username, client, i, m.now)
        s.weak = weak
        m.sess[i][sid] = s
        return s

    def cred_labels(kind: str, i: int, user: str, token: str, pw: str):
        if token in NEAR_PW:
            res.label(f"cred:{kind}:near-miss-password")
        if user in NEAR_USERS:
            res.label(f"cred:{kind}:near-miss-user")
        a = m.users[i].get(user)
        if a is not None and a["pw"] != a["pw"].strip():
            res.label(f"cred:{kind}:stored-password-has-whitespace:" + ("exact" if pw == a["pw"] else "other"))

    def resolve_pw(i: int, user: str, pw: str) -> str:
        """'@...' tokens are derived from the password the model holds for the account (for a near-miss user name: for
        the account it is a near-miss of), so the case stays a plain value and shrinks well."""
        if not pw.startswith("@"):
            return pw
        us = m.users[i]
        a = us.get(user) or us.get(user.strip()) or us.get(user.strip().lower())
        if a is None:
            a = next((v for k_, v in us.items() if k_.startswith(user.strip().lower()) and user.strip()), None)
        cur = a["pw"] if a else "admin"
        return {
            "@cur": cur,
            "@cur+sp": cur + " ",
            "@sp+cur": " " + cur,
            "@cur+tab": cur + "\t",
            "@nl+cur": "\n" + cur,
            "@upper": cur.upper() if cur.upper() != cur else cur.lower(),
            "@prefix": cur[:-1],
            "@suffix": cur + "x",
            "@strip": cur.strip(),
        }[pw]

    try:
        game.pre_timestep()  # requests are applied inside a step, as agent actions are
    except Exception as e:
        res.violate(f"raise:tick:{exc_sig(e)}", f"first pre_timestep: {exc_msg(e)}")
        stop = True

    for i, op in enumerate(ops):
        if stop:
            break
        k = op[0]
        when = f"op#{i} {op}"
        res.label("op:" + k)

        if k == "tick":
            for _ in range(int(op[1])):
                if F_TIMEOUT_RAISE in excl and any(
                    sid not in nd.terminal._connections for nd in nodes for sid in nd.user_session_manager.remote_sessions
                ):
                    res.label("excluded:" + F_TIMEOUT_RAISE)
                    stop = True
                    break
                try:
                    game.advance_timestep()
                    game.pre_timestep()
                except Exception as e:
                    res.violate(f"raise:tick:{exc_sig(e)}", f"{when}: {exc_msg(e)}")
                    stop = True
                    break
                m.now += 1
                may_end: Dict[str, str] = {}
                for j in range(n):
                    ages = [m.now - s_.lo for s_ in m.live(j).values()]  # in login order
                    if any(a < T <= b for x, a in enumerate(ages) for b in ages[x + 1:]):
                        # an older session kept busy while a session opened after it reaches its time-out
                        res.label("tick:older-busy-newer-expiring")
                    for sid, s in m.live(j).items():
                        if m.now - s.last > T:  # even the latest possible activity is more than T steps ago
                            s.ended = "timeout"
                            res.label("timeout:forced")
                        elif m.now - s.lo >= T:  # exactly T (either reading), or activity uncertain
                            may_end[sid] = "timeout"
                reconcile("tick", when, may_end)
            continue

        if k == "add_user":
            _, t, user, pw, admin = op
            um = nodes[t].user_manager
            existed = user in m.users[t]

            def snap():
                return {nm: (u.password, bool(u.disabled), bool(u.is_admin)) for nm, u in um.users.items()}

            before = snap()
            ok, resp = apply(k, form("add_user", node=host(t), user=user, password=pw, admin=bool(admin)), when)
            if not ok:
                break
            if existed:
                # the model is authoritative: user names are unique, add-user of an existing name (enabled OR disabled)
                # must leave the account set and that account's password / disabled / admin flags as they were,
                # whatever the response says -- otherwise a disabled account is revived with a password of the caller's
                # choice and "a login succeeds only with the current password of an existing, enabled account" is void
                after = snap()
                state = "disabled" if m.users[t][user]["disabled"] else "enabled"
                res.label(f"add_user:existing-{state}")
                if after != before:
                    res.violate(
                        f"add-user-existing-name-changed-account:{state}",
                        f"{when}: {user!r} already exists on {host(t)} ({state}); accounts (password, disabled, admin) "
                        f"{before} -> {after}; response {status_of(resp)}",
                    )
                elif status_of(resp) == "success":
                    res.label("add_user:existing-success-response-no-change")
            elif status_of(resp) == "success":
                m.users[t][user] = {"pw": pw, "disabled": False, "admin": bool(admin)}
                res.label("add_user:new")
            reconcile(k, when, {})
            continue

        if k == "disable":
            _, t, user = op
            was_last = (
                user in m.users[t]
                and m.users[t][user]["admin"]
                and not m.users[t][user]["disabled"]
                and m.enabled_admins(t) == 1
            )
            ok, resp = apply(k, form("disable", node=host(t), user=user), when)
            if not ok:
                break
            if status_of(resp) == "success":
                if was_last:
                    res.violate("last-admin-disabled", f"{when}: the only enabled admin of {host(t)} was disabled")
                if user in m.users[t]:
                    m.users[t][user]["disabled"] = True
                    res.label("disable:ok")
                for s in m.live(t).values():
                    if s.user == user:
                        s.weak = True
            elif was_last:
                res.label("disable:last-admin-refused")
            reconcile(k, when, {})
            continue

        if k == "chpw":
            _, t, user, cur, new = op
            cur = resolve_pw(t, user, cur)
            ok, resp = apply(k, form("chpw", node=host(t), user=user, cur=cur, new=new), when)
            if not ok:
                break
            if status_of(resp) == "success":
                res.label("chpw:ok")
                if user in m.users[t]:
                    m.users[t][user]["pw"] = new
                ended = 0
                for s in m.live(t).values():
                    if s.user == user:
                        s.ended = "pwchange"
                        ended += 1
                res.label(f"chpw:ended-sessions={min(ended, 3)}")
            reconcile(k, when, {})
            continue

        if k == "local":
            _, t, user, pw = op
            pw = resolve_pw(t, user, pw)
            cred_labels("local", t, user, op[3], pw)
            name = f"l{i}"
            t_on, t_term = on(t), term(t)
            reason = m.cred_reason(t, user, pw)
            before = local_user(t)
            ok, resp = apply(k, form("local", node=host(t), user=user, password=pw, folder=name), when)
            if not ok:
                break
            effect = has_folder(t, name)
            after = local_user(t)
            why = reason or (None if t_on else "node-off")
            if effect and why:
                res.violate(f"local-command-executed:{why}", f"{when}: folder {name} was created on {host(t)}")
            if t_on and t_term and reason is None and not effect:
                res.violate("local-command-refused-valid", f"{when}: valid credentials, node ON, terminal running")
            if effect and after != user:
                res.violate("local-login-user-mismatch", f"{when}: current_local_user={after!r}")
            if t_on and reason is not None and after != before:
                res.violate("failed-local-login-changed-user", f"{when}: current_local_user {before!r} -> {after!r}")
            res.label("local:executed" if effect else f"local:refused:{why or 'terminal-stopped'}")
            if effect and before is not None and before != user and any(x.user == before for x in m.live(t).values()):
                res.label("local:takeover-while-previous-user-has-remote-sessions")
            reconcile(k, when, {})
            continue

        if k == "login":
            _, c, t, user, pw = op
            pw = resolve_pw(t, user, pw)
            cred_labels("login", t, user, op[4], pw)
            c_on, c_term, t_on, t_term = on(c), term(c), on(t), term(t)
            reason = m.cred_reason(t, user, pw)
            before = set(impl_sids(t))
            # open sessions: the model's count; where an already reported mismatch left the two counts apart, the limit
            # clause is asserted only where both counts agree on the side of the limit
            count = len(m.live(t))
            lo, hi = min(count, len(before)), max(count, len(before))
            limit_unknown = lo < MAX_SESSIONS <= hi
            why = reason
            if why is None and not t_on:
                why = "target-off"
            if why is None and not t_term:
                why = "target-terminal-stopped"
            if why is None and lo >= MAX_SESSIONS:
                why = "session-limit"
            if reason is None and t_on and t_term and lo >= MAX_SESSIONS:
                nontrivial = True
                res.label("login:at-limit")
                if any(m.users[t].get(x.user, {}).get("disabled") for x in m.live(t).values()):
                    res.label("login:at-limit-with-sessions-of-disabled-account")
            ok, resp = apply(k, form("login", node=host(c), user=user, password=pw, ip=ip_of(t)), when)
            if not ok:
                break
            success = status_of(resp) == "success"
            new = [s_ for s_ in impl_sids(t) if s_ not in before]
            if success and why:
                res.violate(f"login-succeeded:{why}", f"{when}: response {status_of(resp)}")
            if why is None and limit_unknown:
                res.label("login:limit-unknown")
            elif why is None and c_on and c_term and not success:
                res.violate("login-refused-valid", f"{when}: valid credentials, both ends ON, terminals running, "
                                                   f"{count} open sessions; response {status_of(resp)}")
            if len(new) > 1:
                res.violate("login-created-multiple-sessions", f"{when}: {len(new)} new sessions")
            if new and why:
                res.violate(f"session-created:{why}", f"{when}: a remote session was opened on {host(t)}")
            if success and not new:
                res.violate("login-success-no-session", f"{when}: success but no new session on {host(t)}")
            for sid in new:
                s = adopt(t, sid, weak=not (c_on and c_term))
                if s is not None:
                    if s.user != user or s.client != c:
                        res.violate("session-wrong-identity",
                                    f"{when}: session records user {s.user!r} client {ip_of(s.client) if s.client >= 0 else '?'}")
                    if not success:
                        res.label("login:orphan-session")
            res.label("login:success" if success else f"login:refused:{why or 'client-side'}")
            reconcile(k, when, {})
            continue

        if k == "cmd":
            _, c, t = op
            name = f"c{i}"
            c_on, c_term, t_on, t_term = on(c), term(c), on(t), term(t)
            sid = peek(c, t)
            s = m.sess[t].get(sid) if sid else None
            rev = m.sess[c].get(sid) if sid else None
            ok, resp = apply(k, form("cmd", node=host(c), ip=ip_of(t), folder=name), when)
            if not ok:
                break
            effect = has_folder(t, name)
            for j in range(n):
                if j != t and has_folder(j, name):
                    res.violate("command-executed-on-wrong-node", f"{when}: folder {name} appeared on {host(j)}")
            live = s is not None and s.ended is None
            if s is not None and s.ended is not None:
                res.label("cmd:stale-handle:" + s.ended)
            gone = [x.ended for x in m.sess[t].values() if x.client == c and x.ended in ("logout", "timeout", "pwchange")]
            if gone and c_on and c_term and t_on and t_term:
                nontrivial = True
                res.label("cmd:after-" + gone[-1])
            if effect and not live:
                if s is not None:
                    res.violate(f"command-executed-on-ended-session:{s.ended}",
                                f"{when}: session of {s.user} on {host(t)} ended by {s.ended}, yet folder {name} was created")
                else:
                    res.violate("command-executed-without-session", f"{when}: folder {name} was created on {host(t)}")
            if live and c_on and c_term and t_on and t_term and not s.weak and not effect:
                res.violate("command-not-executed-on-live-session",
                            f"{when}: session of {s.user} open (last active {s.last}, now {m.now}, T={T}), both ends ON, "
                            f"terminals running; response {status_of(resp)}")
            if effect and live:
                s.last = s.lo = m.now
            if resp is None:
                res.label("cmd:response-None")  # outside C16 (response contract): noted in findings/C16-NOTES.md
            elif status_of(resp) == "success" and not effect:
                res.label("cmd:stale-success-response")  # the previous response is returned again; same note
            res.label("cmd:executed" if effect else ("cmd:no-handle" if sid is None else "cmd:not-executed"))
            may_end = {}
            if rev is not None and rev.ended is None:
                may_end[sid] = "server-side-command"
                rev.half = rev.weak = True
            reconcile(k, when, may_end)
            continue

        if k == "cmdfail":
            # A command the target's terminal processes over a live session but that fails (no effect to observe). On
            # the unchanged tree Terminal.receive refreshes last_active_step for every command received over a valid
            # session, before executing it: any processed command is activity, successful or not.
            _, c, t = op
            name = f"nx{i}"
            c_on, c_term, t_on, t_term = on(c), term(c), on(t), term(t)
            sid = peek(c, t)
            s = m.sess[t].get(sid) if sid else None
            rev = m.sess[c].get(sid) if sid else None
            folders_before = [sorted(f.name for f in nd.file_system.folders.values()) for nd in nodes]
            ok, resp = apply(k, form("cmdfail", node=host(c), ip=ip_of(t), folder=name), when)
            if not ok:
                break
            if [sorted(f.name for f in nd.file_system.folders.values()) for nd in nodes] != folders_before:
                res.violate("failing-command-changed-folders", f"{when}: deleting missing folder {name} changed a file system")
            if s is not None and s.ended is None and c_on and c_term and t_on and t_term:
                if s.weak:
                    s.last = m.now  # may have been processed
                    res.label("cmdfail:maybe-processed")
                else:
                    s.last = s.lo = m.now
                    res.label("cmdfail:processed")
            else:
                res.label("cmdfail:no-live-session" if (s is None or s.ended is not None) else "cmdfail:unreachable")
            may_end = {}
            if rev is not None and rev.ended is None:
                may_end[sid] = "server-side-command"
                rev.half = rev.weak = True
            reconcile(k, when, may_end)
            continue

        if k == "logoff":
            _, c, t = op
            c_on, c_term, t_on, t_term = on(c), term(c), on(t), term(t)
            sid = peek(c, t)
            s = m.sess[t].get(sid) if sid else None
            rev = m.sess[c].get(sid) if sid else None
            ok, resp = apply(k, form("logoff", node=host(c), ip=ip_of(t)), when)
            if not ok:
                break
            may_end = {}
            if c_on and s is not None and s.ended is None:
                if c_term and t_on and t_term and not s.half:
                    s.ended = "logout"
                    res.label("logoff:ended")
                else:
                    may_end[sid] = "logout-half-closed" if s.half else "logout-unreachable"
            if rev is not None and rev.ended is None:
                may_end[sid] = "server-side-logoff"
                rev.half = rev.weak = True
                res.label("logoff:server-side")
            reconcile(k, when, may_end)
            continue

        if k in ("term", "power"):
            _, j, verb = op
            ok, resp = apply(k, form(k, node=host(j), verb=verb), when)
            if not ok:
                break
            reconcile(k, when, {})
            continue

        raise ValueError(op)

    res.nontrivial = nontrivial
    if nontrivial:
        res.label("nontrivial")
    res.label(f"len<{(len(ops) // 10 + 1) * 10}", f"n={n}", f"T={T}", f"dur={dur}")
    return res


# ---------------------------------------------------------------------------------------------------------------------
# generators


def op_strategy(n: int):
    node = st.integers(0, n - 1)
    pairs = [(a, b) for a in range(n) for b in range(n) if a != b]
    pair = st.sampled_from([(0, 1)] * 3 + pairs)  # most traffic between one client and one target, so sessions pile up
    user = st.sampled_from(["admin"] * 6 + ["bob"] * 3 + NEAR_USERS)
    pw = st.sampled_from(["@cur"] * 8 + NEAR_PW + WRONG + PASSWORDS + WS_PASSWORDS)
    newpw = st.sampled_from(PASSWORDS + PASSWORDS + WS_PASSWORDS)
    return st.one_of(
        st.tuples(st.just("login"), pair, user, pw).map(lambda x: ["login", x[1][0], x[1][1], x[2], x[3]]),
        st.tuples(st.just("login"), pair, user, pw).map(lambda x: ["login", x[1][0], x[1][1], x[2], x[3]]),
        st.tuples(st.just("cmd"), pair).map(lambda x: ["cmd", x[1][0], x[1][1]]),
        st.tuples(st.just("cmd"), pair).map(lambda x: ["cmd", x[1][0], x[1][1]]),
        st.tuples(st.just("cmdfail"), pair).map(lambda x: ["cmdfail", x[1][0], x[1][1]]),
        st.tuples(st.just("logoff"), pair).map(lambda x: ["logoff", x[1][0], x[1][1]]),
        st.tuples(st.just("tick"), st.sampled_from([1, 1, 2, 3, 4, 6])).map(list),
        st.tuples(st.just("chpw"), node, user, pw, newpw).map(list),
        st.tuples(st.just("add_user"), node, st.sampled_from(USERS + USERS + ["bob ", " admin"]), newpw,
                  st.booleans()).map(list),
        st.tuples(st.just("disable"), node, user).map(list),
        st.tuples(st.just("local"), node, user, pw).map(list),
        st.tuples(st.just("term"), node, st.sampled_from(["stop", "start"])).map(list),
        st.tuples(st.just("power"), node, st.sampled_from(["off", "on"])).map(list),
    )


@st.composite
def case_strategy(draw, max_len: int, excl: List[str]):
    n = draw(st.sampled_from([2, 2, 3]))
    T = draw(st.integers(3, 5))
    dur = draw(st.sampled_from([0, 0, 1]))
    size = draw(st.sampled_from([4, 8, 12, 16, 20, 25, max_len]))
    bob = draw(st.lists(st.sampled_from([None, None, False, True, [False, "two words "], [True, " lead"]]),
                        min_size=n, max_size=n))
    ops = draw(st.lists(op_strategy(n), min_size=max(1, size - 3), max_size=size))
    return {"n": n, "T": T, "dur": dur, "bob": bob, "ops": ops, "excl": list(excl)}


@st.composite
def acct_session_case(draw, excl: List[str]):
    """Steered shapes around accounts that HOLD sessions: (a) an account with open remote sessions is disabled while
    the target is at / near max_remote_sessions, then more logins arrive (its sessions stay open, so they still count);
    (b) an account holds the local session and remote sessions on the target, then another account logs in locally
    (the remote sessions must survive and still execute commands)."""
    n = draw(st.sampled_from([2, 2, 3]))
    T = draw(st.integers(3, 5))
    t = draw(st.integers(0, n - 1))
    clients = [c for c in range(n) if c != t]
    cl = st.sampled_from(clients)
    bob = [None] * n
    bob[t] = draw(st.sampled_from([False, True, [False, "two words "]]))
    noise = op_strategy(n)
    ops = draw(st.lists(noise, max_size=1))
    if draw(st.booleans()):  # (a)
        holder = draw(st.sampled_from(["bob", "bob", "admin"]))
        other = "admin" if holder == "bob" else "bob"
        k = draw(st.integers(1, 3))
        ops += [["login", draw(cl), t, holder, "@cur"] for _ in range(k)]
        ops += [["login", draw(cl), t, other, "@cur"] for _ in range(draw(st.integers(0, 3 - k)))]
        if holder == "admin":  # the last admin cannot be disabled: give the node a second admin first
            ops.append(["add_user", t, "bob ", "admin1", True])
        if draw(st.integers(0, 3)) == 0:
            ops.append(draw(noise))
        ops.append(["disable", t, holder])
        ops.append(["cmd", draw(cl), t])
        ops += [["login", draw(cl), t, other, "@cur"] for _ in range(draw(st.integers(1, 3)))]
        ops.append(["cmd", draw(cl), t])
    else:  # (b)
        x = draw(st.sampled_from(["admin", "bob"]))
        y = "bob" if x == "admin" else "admin"
        a = draw(cl)
        first = [["login", a, t, x, "@cur"] for _ in range(draw(st.integers(1, 2)))] + [["local", t, x, "@cur"]]
        ops += draw(st.permutations(first))
        if draw(st.booleans()):
            ops.append(["login", draw(cl), t, y, "@cur"])
        if draw(st.integers(0, 2)) == 0:
            ops.append(["tick", draw(st.integers(1, T - 1))])
        ops.append(["local", t, y, draw(st.sampled_from(["@cur", "@cur", "@cur", "@cur+sp", "zz"]))])
        ops.append(["cmd", a, t])
        if draw(st.booleans()):
            ops.append(["local", t, x, "@cur"])
            ops.append(["cmd", a, t])
    ops.extend(draw(st.lists(noise, max_size=3)))
    return {"n": n, "T": T, "dur": draw(st.sampled_from([0, 0, 0, 1])), "bob": bob, "ops": ops, "excl": list(excl)}


@st.composite
def busy_idle_case(draw, excl: List[str]):
    """Steered shape: two (or three) sessions on one target, the one that logged in first keeps sending commands at
    intervals shorter than the time-out while a later one idles past its time-out and is then used; a little random
    noise around it. Per-session last-active bookkeeping in the model decides which of them must be closed."""
    n = draw(st.sampled_from([2, 3, 3]))
    T = draw(st.integers(3, 5))
    dur = draw(st.sampled_from([0, 0, 0, 1]))
    t = draw(st.integers(0, n - 1))
    clients = [c for c in range(n) if c != t]
    a = draw(st.sampled_from(clients))
    b = draw(st.sampled_from(clients))
    noise = op_strategy(n)
    ops = draw(st.lists(noise, max_size=2))
    ops.append(["login", a, t, "admin", "@cur"])
    if draw(st.booleans()):
        ops.append(["tick", draw(st.integers(1, T - 1))])
        ops.append([draw(st.sampled_from(["cmd", "cmd", "cmdfail"])), a, t])
    ops.append(["login", b, t, "admin", "@cur"])
    if draw(st.integers(0, 3)) == 0:
        ops.append(["login", draw(st.sampled_from(clients)), t, "admin", "@cur"])
    elapsed = 0
    target = T + draw(st.integers(1, 3))
    while elapsed < target:
        d = draw(st.integers(1, T - 1))
        ops.append(["tick", d])
        elapsed += d
        # keeps the first session fresh (when a == b the first handle is the first session); a failing command counts
        ops.append([draw(st.sampled_from(["cmd", "cmd", "cmdfail"])), a, t])
        if draw(st.integers(0, 5)) == 0:
            ops.append(draw(noise))
    ops.append(["cmd", b, t])
    ops.append(["login", b, t, "admin", "@cur"])  # the idle session must no longer count against the limit
    ops.extend(draw(st.lists(noise, max_size=3)))
    bob = [None] * n
    return {"n": n, "T": T, "dur": dur, "bob": bob, "ops": ops, "excl": list(excl)}


LOGIN = ["login", 0, 1, "admin", "@cur"]
# 4th prefix: the session times out while the client's terminal is stopped, so the client keeps a stale handle
STALE = [LOGIN, ["term", 0, "stop"], ["tick", 3], ["tick", 2], ["term", 0, "start"]]
PREFIXES = [[], [LOGIN, LOGIN], [LOGIN, LOGIN, LOGIN], STALE]
EXH_ALPHABET = [
    LOGIN,
    ["login", 0, 1, "admin", "admin"],  # literal: wrong after a password change
    ["cmd", 0, 1],
    ["logoff", 0, 1],
    ["logoff", 1, 0],
    ["chpw", 1, "admin", "@cur", "admin1"],
    ["tick", 1],
    ["tick", 3],
    ["term", 1, "stop"],
    ["term", 1, "start"],
    ["power", 1, "off"],
    ["power", 1, "on"],
    ["term", 0, "stop"],
    ["term", 0, "start"],
]
EXH_EXTRA = [  # thorough only
    ["disable", 1, "admin"],
    ["add_user", 1, "bob", "admin1", True],
    ["login", 0, 1, "bob", "@cur"],
]


# accounts block: bob (password admin1, not admin) is declared on h1; re-adding existing names (enabled / disabled),
# then logging in / running a local command with the password the re-add tried to set
ACC_ALPHABET = [
    ["add_user", 1, "bob", "admin12", False],
    ["add_user", 1, "bob", "admin12", True],
    ["add_user", 1, "admin", "admin12", True],
    ["disable", 1, "bob"],
    ["disable", 1, "admin"],
    ["login", 0, 1, "bob", "@cur"],
    ["login", 0, 1, "bob", "admin12"],
    ["login", 0, 1, "admin", "admin12"],
    ["local", 1, "bob", "admin12"],
    ["cmd", 0, 1],
]


# busy/idle block (n=3): two clients hold a session on h1; which of them logged in first varies with the prefix
BUSY_PREFIXES = [
    [["login", 0, 1, "admin", "@cur"], ["login", 2, 1, "admin", "@cur"]],
    [["login", 2, 1, "admin", "@cur"], ["login", 0, 1, "admin", "@cur"]],
]
BUSY_ALPHABET = [
    ["cmd", 0, 1],
    ["cmdfail", 0, 1],
    ["cmd", 2, 1],
    ["tick", 1],
    ["tick", 2],
    ["tick", 3],
    ["logoff", 0, 1],
    ["login", 0, 1, "admin", "@cur"],
]


# credentials block: bob is declared on h1 with a password that ends in a space; every login is a near-miss (or exact)
CRED_BOB = [None, [False, "two words "]]
CRED_ALPHABET = [
    ["login", 0, 1, "admin", "@cur"],
    ["login", 0, 1, "admin", "@cur+sp"],
    ["login", 0, 1, "admin", "@sp+cur"],
    ["login", 0, 1, "admin", "@cur+tab"],
    ["login", 0, 1, "admin", "@upper"],
    ["login", 0, 1, "admin", "@prefix"],
    ["login", 0, 1, "admin", "@suffix"],
    ["login", 0, 1, "admin", ""],
    ["login", 0, 1, " admin", "@cur"],
    ["login", 0, 1, "admin ", "@cur"],
    ["login", 0, 1, "Admin", "@cur"],
    ["login", 0, 1, "bob", "@cur"],  # stored password 'two words ': must succeed
    ["login", 0, 1, "bob", "@strip"],  # 'two words': must be refused
    ["local", 1, "bob", "@cur"],
    ["local", 1, "bob", "@strip"],
    ["local", 1, "admin", "@cur+sp"],
    ["local", 1, "admin ", "@cur"],
    ["chpw", 1, "admin", "@cur", " lead"],  # from now on the stored admin password starts with a space
    ["chpw", 1, "admin", "@cur+sp", "admin1"],
    ["add_user", 1, "bob ", "admin1", False],  # a second account whose NAME differs from bob by a trailing space
    ["cmd", 0, 1],
]


# held-sessions block: bob (not admin, password admin1) is declared on h1 and already holds two remote sessions from h0;
# accounts that hold sessions are disabled at the limit / lose the local session to another account
HELD_BOB = [None, False]
HELD_PREFIX = [["login", 0, 1, "bob", "@cur"], ["login", 0, 1, "bob", "@cur"]]
HELD_ALPHABET = [
    ["login", 0, 1, "bob", "@cur"],
    ["login", 0, 1, "admin", "@cur"],
    ["disable", 1, "bob"],
    ["cmd", 0, 1],
    ["logoff", 0, 1],
    ["local", 1, "bob", "@cur"],
    ["local", 1, "admin", "@cur"],
    ["chpw", 1, "bob", "@cur", "admin12"],
    ["tick", 3],
]


def exhaustive_plan(tier: str):
    alphabet = EXH_ALPHABET if tier == "quick" else EXH_ALPHABET + EXH_EXTRA
    depth = 3 if tier == "quick" else 4
    return alphabet, [(PREFIXES[0], depth), (PREFIXES[1], depth), (PREFIXES[2], depth - 1), (PREFIXES[3], depth - 1)]


def exhaustive_cases(tier: str, excl: List[str]):
    alphabet, plan = exhaustive_plan(tier)
    for pre, depth in plan:
        for seq in itertools.product(alphabet, repeat=depth):
            yield {"n": 2, "T": 3, "dur": 0, "bob": [], "ops": [list(o) for o in pre] + [list(o) for o in seq],
                   "excl": list(excl)}
    for seq in itertools.product(ACC_ALPHABET, repeat=3 if tier == "quick" else 4):
        yield {"n": 2, "T": 3, "dur": 0, "bob": [None, False], "ops": [list(o) for o in seq], "excl": list(excl)}
    for seq in itertools.product(CRED_ALPHABET, repeat=2 if tier == "quick" else 3):
        yield {"n": 2, "T": 3, "dur": 0, "bob": CRED_BOB, "ops": [list(o) for o in seq], "excl": list(excl)}
    for seq in itertools.product(HELD_ALPHABET, repeat=3 if tier == "quick" else 4):
        yield {"n": 2, "T": 3, "dur": 0, "bob": HELD_BOB, "ops": [list(o) for o in HELD_PREFIX] + [list(o) for o in seq],
               "excl": list(excl)}
    for pre in BUSY_PREFIXES:
        for seq in itertools.product(BUSY_ALPHABET, repeat=3 if tier == "quick" else 5):
            yield {"n": 3, "T": 3, "dur": 0, "bob": [], "ops": [list(o) for o in pre] + [list(o) for o in seq],
                   "excl": list(excl)}


def worker(ctx: Ctx):
    excl = sorted(ctx.excl)
    alphabet, plan = exhaustive_plan(ctx.tier)
    enum_run(ctx, exhaustive_cases(ctx.tier, excl), run_case)
    ctx.extra["exhaustive"] = True
    ctx.extra["exhaustive_domain"] = (
        f"n=2, T=3, dur=0, {len(alphabet)}-symbol alphabet: all sequences of depth {plan[0][1]} after the prefixes "
        f"(none) and (2 logins of admin h0->h1), and of depth {plan[2][1]} after the prefixes (3 logins) and (a session "
        f"timed out while the client terminal was stopped, leaving a stale client handle); plus, with a second account "
        f"declared on h1, all sequences of depth {plan[0][1]} over a {len(ACC_ALPHABET)}-symbol accounts alphabet (re-add of "
        f"existing enabled / disabled names, disable, logins and a local command with the re-add's password); plus, with "
        f"an account on h1 whose stored password ends in a space, all sequences of depth "
        f"{2 if ctx.tier == 'quick' else 3} over a {len(CRED_ALPHABET)}-symbol credentials alphabet (remote and local logins "
        f"whose user name or password is a near-miss of the stored one: leading / trailing space, tab, case, prefix, "
        f"suffix, empty, stripped; password change to a value with a leading space; add-user of 'bob '); plus, after two "
        f"remote logins of a second (non-admin) account on h1, all sequences of depth {3 if ctx.tier == 'quick' else 4} "
        f"over a {len(HELD_ALPHABET)}-symbol alphabet (logins of either account, disable the session holder, command, "
        f"logoff, local command as either account, password change, tick 3); plus, n=3, "
        f"after two logins on h1 from two clients (both login orders), all sequences of depth "
        f"{3 if ctx.tier == 'quick' else 5} over a {len(BUSY_ALPHABET)}-symbol alphabet (command via either session, failing "
        f"command via the first, tick 1/2/3, logoff, login) -- one session kept busy while the other idles past the time-out"
    )
    nrand = 150 if ctx.tier == "quick" else 2000
    hyp_run(ctx, case_strategy(30, excl), run_case, nrand)
    nsteer = 50 if ctx.tier == "quick" else 600
    hyp_run(ctx, busy_idle_case(excl), run_case, nsteer, sub=1)
    hyp_run(ctx, acct_session_case(excl), run_case, nsteer, sub=2)
