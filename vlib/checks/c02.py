"""C02 — every observation is a member of the declared observation space (DESIGN §C02), environment layer."""
from __future__ import annotations

import re
from typing import Any, Dict, List, Optional

import gymnasium
import numpy as np
from gymnasium import spaces

from ..envdrive import Driver, gen_case_strategy, shipped_case_strategy
from ..harness import CaseResult, Ctx, hyp_run
from .c01 import usable_shipped

ID = "C02"
WORKERS = {"quick": 8, "thorough": 16}
RULE = (
    "environment layer: case = (scenario, op list) as in C01, observation configurations generated along every axis "
    "(hosts/routers/firewalls/links/ACL, NMNE, monitored traffic, file-access counts, users, scan-gated or true health, "
    "flatten on/off, missing components); after every reset/step the nested observation must be in the agent's nested "
    "space and the returned (possibly flattened) observation in env.observation_space; spaces must be equal across "
    "episodes. Component layer: synthetic state mutations per observation class (see c02_components). Non-trivial = "
    ">=1 observation with >=3 leaves off their default encoding; distinct by case hash."
)
ASSUMPTIONS = [
    "gymnasium's Space.contains / flatten are the membership oracle",
    "multi-proxy-agent scenario files are not wrapped in the single-agent PrimaiteGymEnv",
]


def norm_path(path: List[Any]) -> str:
    out = []
    for p in path:
        s = str(p)
        s = re.sub(r"\d+", "*", s)
        out.append(s)
    return "/".join(out)


def find_offender(space, obs, path: List[Any]) -> Optional[List[Any]]:
    """Return the path of the first leaf (or structural mismatch) that makes obs fall outside space, else None."""
    if isinstance(space, spaces.Dict):
        if not isinstance(obs, dict):
            return path + ["<not-a-dict>"]
        for k, sub in space.spaces.items():
            if k not in obs:
                return path + [k, "<missing>"]
            r = find_offender(sub, obs[k], path + [k])
            if r:
                return r
        extra = [k for k in obs if k not in space.spaces]
        if extra:
            return path + [extra[0], "<extra>"]
        return None
    if isinstance(space, spaces.Tuple):
        for i, sub in enumerate(space.spaces):
            r = find_offender(sub, obs[i], path + [i])
            if r:
                return r
        return None
    try:
        ok = space.contains(obs)
    except Exception:
        ok = False
    return None if ok else path + [f"<{type(space).__name__}>"]


def count_nondefault(obs, default) -> int:
    if isinstance(obs, dict) and isinstance(default, dict):
        return sum(count_nondefault(v, default.get(k)) for k, v in obs.items())
    try:
        return 0 if obs == default else 1
    except Exception:
        return 1


def run_case(case: Dict) -> CaseResult:
    if case.get("layer") == "component":
        from . import c02_components

        return c02_components.run_case(case)
    res = CaseResult()
    d = Driver(case)
    if not d.build():
        # construction failures belong to C01; here they only make the case trivial
        res.label("build_failed")
        return res
    env = d.env
    st: Dict[str, Any] = {"obs_space": None, "act_space": None, "rich": 0}

    def check_obs(tag, i, ret_obs):
        ag = env.agent
        nested_space = ag.observation_manager.space
        nested = ag.observation_manager.current_observation
        off = find_offender(nested_space, nested, [])
        if off:
            res.violate(f"obs-not-in-space:{norm_path(off)}", f"{tag} op#{i}: offending leaf {off}")
            return False
        space = env.observation_space
        try:
            ok = space.contains(ret_obs)
        except Exception as e:
            ok = False
        if not ok:
            res.violate("returned-obs-not-in-env-space" + (":flat" if ag.flatten_obs else ""), f"{tag} op#{i}")
            return False
        if ag.flatten_obs:
            flat_space = gymnasium.spaces.flatten_space(nested_space)
            if not isinstance(ret_obs, np.ndarray) or ret_obs.shape != flat_space.shape:
                res.violate("flat-obs-shape", f"{tag} op#{i}: {getattr(ret_obs, 'shape', None)} vs {flat_space.shape}")
                return False
        if count_nondefault(nested, ag.observation_manager.obs.default_observation) >= 3:
            st["rich"] += 1
        return True

    def after_reset(i, op, obs, info):
        osp, asp = env.observation_space, env.action_space
        if st["obs_space"] is not None and not case.get("vary_obs"):  # space equality is stated for constant scenarios
            if osp != st["obs_space"]:
                res.violate("obs-space-changed-between-episodes", f"op#{i}")
            if asp != st["act_space"]:
                res.violate("action-space-changed-between-episodes", f"op#{i}")
        st["obs_space"], st["act_space"] = osp, asp
        return check_obs("reset", i, obs) and not res.violations

    def after_step(i, op, a, out):
        return check_obs("step", i, out[0])

    d.run(after_reset=after_reset, after_step=after_step)
    # exceptions raised by step/reset are C01's business, except those raised while producing the observation
    if d.error and "_get_obs" in d.error[1]:
        res.violate(f"raise:{d.error[0]}:{d.error[1]}", d.error[2])
    res.nontrivial = st["rich"] >= 1
    res.label("src:" + case["src"], "rich" if st["rich"] else "poor")
    if case["src"] == "gen":
        o = case["spec"]["obs"]
        res.label("flatten" if o["flatten"] else "nested")
    return res


@__import__("hypothesis").strategies.composite
def varying_folder_case(draw):
    from hypothesis import strategies as st_

    c = draw(gen_case_strategy(max_ops=6))

    def mk(t):
        k, a = t
        return ["reset", None] if k < 4 else ["step", a]

    ops = draw(st_.lists(st_.tuples(st_.integers(0, 9), st_.integers(0, 10 ** 6)).map(mk), min_size=6, max_size=20))
    return {"src": "genfolder", "spec": c["spec"], "n_variants": draw(st_.integers(2, 3)), "vary_obs": True,
            "ops": [["reset", None], ["step", 0]] + ops}


def worker(ctx: Ctx):
    paths = usable_shipped()
    q = ctx.tier == "quick"
    hyp_run(ctx, gen_case_strategy(max_ops=30), run_case, 55 if q else 600, sub=0)
    hyp_run(ctx, shipped_case_strategy(paths, max_ops=25), run_case, 10 if q else 200, sub=1)
    # non-constant scenarios: an episode-scheduled folder whose episodes declare different observation spaces; every
    # observation must be in the space the environment declares AT THAT TIME (env.observation_space is read every call)
    hyp_run(ctx, varying_folder_case(), run_case, 3 if q else 40, sub=3)
    try:
        from . import c02_components

        c02_components.worker(ctx)
    except ImportError:
        pass
