"""C09 — observations faithfully encode the simulation's ground truth (DESIGN §C09)."""
from __future__ import annotations

from typing import Any, Dict, List

import numpy as np

from ..c09_gen import STEERS, apply_extras, case_strategy, resolve_named_ops
from ..envdrive import Driver, shipped_case_strategy
from ..harness import CaseResult, Ctx, hyp_run
from ..ref_obs import Leaf, Opt, RefReader, Unsupported, compare, count_leaves, count_off_default
from .c01 import usable_shipped
from .c02 import norm_path

ID = "C09"
WORKERS = {"quick": 8, "thorough": 16}
RULE = (
    "case = (scenario, op list) as in C01/C02: generated LAN/ROUTED/DMZ scenarios whose blue observation config varies "
    "along every axis (num_* sizes, scan-gated or true health per component kind, NMNE, monitored traffic, access "
    "counts, users, ACL lists and sizes, router ports, links, missing components, thresholds) plus every shipped scenario "
    "with one proxy agent; all agents act. After every reset/step an independent reader (vlib/ref_obs.py: scenario dict "
    "+ simulator objects, never describe_state / ObservationManager) predicts every leaf and it is compared with the "
    "nested observation leaf by leaf. Non-trivial = a step at which >=3 leaves are off their default encoding and >=1 "
    "observed component has visible != actual health; distinct by hash(scenario, ops prefix up to that step)."
)
ASSUMPTIONS = [
    "the encoding tables are those of Data-Manipulation-E2E-Demonstration.ipynb / the observation docstrings; the "
    "application operating-state codes, the per-step NMNE delta and 'wildcard/port/protocol not in the list -> 1' are "
    "defined by the code only and are taken as given (see findings/C09-NOTES.md)",
    "where two readings are documented or none is (NIC traffic band above 10, NMNE delta across steps in which the node "
    "was not ON, two software instances under one name, nodes-level include_users: false on hosts) both are accepted",
    "observation configs using keys outside those of the shipped scenarios (explicit network_interfaces / ports / acl "
    "sub-configs, per-component thresholds) are skipped and counted",
]


def leaf_sig(kind: str, path: List[Any], tag: str) -> str:
    head = {"mismatch": "leaf-mismatch", "missing": "leaf-missing", "extra": "leaf-extra", "shape": "leaf-shape"}[kind]
    return f"{head}:{norm_path(path)}" + (f":{tag}" if tag else "")


TOPS = {"APPLICATIONS.num_executions": 2, "FILES.num_access": 2, "NMNE.inbound": 2, "NMNE.outbound": 2,
        "users.remote_sessions": 2, "HOST.num_file_creations": 2, "TRAFFIC.inbound": 2, "LINKS.ALL": 2}
CATS = ("SERVICES", "APPLICATIONS", "FILES", "FOLDERS", "NMNE", "TRAFFIC", "NICS", "ACL", "PORTS", "users", "LINKS")


def leaf_kind(path: List[Any]) -> str:
    if not path:
        return "ROOT.value"
    cat = "HOST"
    for p in path:
        if p in CATS:
            cat = p
    return f"{cat}.{path[-1] if isinstance(path[-1], str) else 'value'}"


def walk(exp, path: List[Any], seen: Dict[tuple, set]):
    if isinstance(exp, Opt):
        exp = exp.tree
    if isinstance(exp, Leaf):
        seen.setdefault(tuple(path), set()).add(exp.ok[0])
        return
    for k, v in exp.items():
        walk(v, path + [k], seen)


def run_case(case: Dict) -> CaseResult:
    res = CaseResult()
    d = Driver(case)
    apply_extras(d.cfg, d.meta, case.get("extra_actions"))  # C09's own ACL action variants (see c09_gen)
    if any(op[0] == "act" for op in case["ops"]):
        # named ops ['act', action, options] -> ['step', index in this build's action map]
        d.case = dict(case, ops=resolve_named_ops(case["ops"], d.cfg, d.meta))
    try:
        reader = RefReader(d.cfg)
    except Unsupported:
        res.label("unsupported_obs_config")
        return res
    if not d.build():
        res.label("build_failed")  # construction failures are C01's
        return res
    env = d.env
    st: Dict[str, Any] = {"nt_at": None, "seen": set(), "steps": 0, "rich": 0, "pairs": 0, "max_off": 0, "leaves": 0}

    values: Dict[tuple, set] = {}
    flags: set = set()
    masked: set = set()  # component kinds seen with a non-default source value on a node that was not ON
    gated: Dict[str, bool] = {}
    if case["src"] == "gen":
        o_ = case["spec"]["obs"]
        gated = {"folder": o_["fs_scan"], "file": o_["fs_scan"], "service": o_["svc_scan"], "application": o_["app_scan"]}

    def check(tag: str, i: int, ret_obs) -> bool:
        exp = reader.expected(env.game)
        ag = env.agent
        nested = ag.observation_manager.current_observation
        diffs: List = []
        compare(exp, nested, [], diffs)
        for kind, path, want, got, ltag in diffs:
            sig = leaf_sig(kind, path, ltag)
            if sig in st["seen"]:
                continue
            st["seen"].add(sig)
            res.violate(sig, f"{tag} op#{i} (episode {d.episodes}, step {d.steps_in_episode}): leaf {'/'.join(map(str, path))} "
                             f"observed {got!r}, reader expects {want!r}")
        # the returned observation is the nested one (or its gymnasium flattening)
        if not ag.flatten_obs:
            if ret_obs is not nested and ret_obs != nested:
                if "returned" not in st["seen"]:
                    st["seen"].add("returned")
                    res.violate("returned-obs-differs-from-nested", f"{tag} op#{i}")
        else:
            import gymnasium

            space = ag.observation_manager.space
            try:
                inside = space.contains(nested)
            except Exception:
                inside = False
            if inside:  # membership itself is C02's property
                flat = gymnasium.spaces.flatten(space, nested)
                if not (isinstance(ret_obs, np.ndarray) and ret_obs.shape == flat.shape and np.array_equal(ret_obs, flat)):
                    if "returned" not in st["seen"]:
                        st["seen"].add("returned")
                        res.violate("returned-obs-differs-from-nested:flat", f"{tag} op#{i}")
        walk(exp, [], values)
        off = count_off_default(exp)
        st["steps"] += 1
        st["max_off"] = max(st["max_off"], off)
        st["leaves"] = count_leaves(exp)
        if off >= 3:
            st["rich"] += 1
        if reader.pairs:
            st["pairs"] += 1
        for k in reader.masked:
            if k.startswith(("disabled-nic", "acl-", "boot-")):
                flags.add(k)
            else:
                masked.add(k + (":gated" if gated.get(k) else ""))
        if off >= 3 and reader.pairs >= 1 and st["nt_at"] is None:
            st["nt_at"] = i
        return True

    def after_reset(i, op, obs, info):
        reader.new_episode()
        return check("reset", i, obs)

    def after_step(i, op, a, out):
        return check("step", i, out[0])

    d.run(after_reset=after_reset, after_step=after_step)
    # exceptions raised by step/reset are C01's business, except those raised while producing the observation
    if d.error and ("observ" in d.error[1] or "_get_obs" in d.error[1]):
        res.violate(f"raise:{d.error[0]}:{d.error[1]}", d.error[2])
    if st["nt_at"] is not None:
        # ops list as run has the initial reset prepended: index i in the run = i-1 in case["ops"]
        key = {k: v for k, v in case.items() if k != "ops"}
        key["ops"] = case["ops"][: max(st["nt_at"], 0)]
        res.nontrivial = key
        res.label("nontrivial")
    res.label("src:" + case["src"])
    res.label("rich_step" if st["rich"] else "no_rich_step", "pair_step" if st["pairs"] else "no_pair_step")
    res.label(f"leaves<{10 ** len(str(st['leaves']))}")
    for k in sorted(masked):
        res.label("not_on_hides:" + k)
    for k in sorted(flags):
        res.label("nonzero:" + k)
    # which kinds of leaf actually moved during the case (took >= 2 different values on one path)
    for kind in sorted({leaf_kind(list(p)) for p, vs in values.items() if len(vs) >= 2}):
        res.label("moved:" + kind)
    for p, vs in values.items():
        k = leaf_kind(list(p))
        if k in TOPS and max(vs) >= TOPS[k]:
            res.label(f"top:{k}>={TOPS[k]}")
    if case["src"] == "gen":
        o = case["spec"]["obs"]
        res.label("fam:" + case["spec"]["family"], "steer:" + case["spec"].get("steer", "none"))
        for k in ("fs_scan", "svc_scan", "app_scan"):
            res.label(f"{k}:{int(o[k])}")
    return res


def worker(ctx: Ctx):
    paths = usable_shipped()
    q = ctx.tier == "quick"
    # fixed quota per steer (STEERS sums to 32): quick 32 generated cases per worker, thorough 22 x 32 = 704
    for k, (steer, share) in enumerate(STEERS.items()):
        hyp_run(ctx, case_strategy(max_ops=30, steer=steer), run_case, share if q else share * 22, sub=10 + k)
    hyp_run(ctx, shipped_case_strategy(paths, max_ops=20), run_case, 5 if q else 100, sub=1)
