"""C18 — a link never carries more than its bandwidth in a tick; down links carry nothing (DESIGN §C18)."""
from __future__ import annotations

from typing import Any, Dict, List, Optional, Tuple

from hypothesis import strategies as st

# Everything that stamps frames must be imported before main.py installs the harness entropy (it patches loaded modules).
import primaite.game.game  # noqa: F401
import primaite.simulator.network.hardware.nodes.network.firewall  # noqa: F401
import primaite.simulator.network.hardware.nodes.network.wireless_router  # noqa: F401

from .. import c18_monitor as mon
from ..harness import CaseResult, Ctx, enum_run, hyp_run
from ..simutil import base_cfg, computer, exc_sig, link, new_game, switch

ID = "C18"
WORKERS = {"quick": 8, "thorough": 16}
SHRINK_KEY = "ops"
RULE = (
    "case = topology (one switch / two chained switches / two subnets behind a router / two wireless routers over the "
    "airspace) x one bandwidth per wired link from {default 100, huge, k x size of a measured ARP or ICMP frame taken at "
    "the admission check or at the crossing for k in 1..4, an arbitrary byte count 300..4000} x wireless frequency and "
    "capacity override from the same set plus 0.0 x software sizing (file sizes, DoS sessions) x op list. Ops run "
    "between pre_timestep and apply_timestep exactly like several agents' actions in one step: ping (reply nested in the "
    "request's delivery), nmap ping scan of present and absent addresses (ARP broadcasts flooded through switches), FTP "
    "send, database-client execute, dos-bot execute, NIC disable/enable, node shutdown/startup (hosts, switches, routers), "
    "tick. 0-2 nodes (host, switch or router) are OFF when their links are created: declared operating_state OFF in the "
    "scenario (build=config), or the links are cabled with Network.connect() after construction while the node is still "
    "off and some of them powered on afterwards (build=api: connect before power_on). A fixed family enumerates every "
    "single node of the three wired topologies OFF at link creation x both builds with pings/scans aimed at it. "
    "Non-trivial = a case with a tick in which >=1 frame was refused for capacity, a tight link/channel reached >=50 % of "
    "its bandwidth, or a frame was offered to a link one of whose end interfaces was disabled; distinct by case hash."
)
ASSUMPTIONS = [
    "bandwidths and channel capacities are taken from the scenario dict, not from the simulator objects",
    "a frame is carried by a wired link when receive_frame is entered on the far interface, with the size it has at that "
    "moment; on the airspace a frame counts once when AirSpace.transmit is entered (the property says 'data sent')",
    "requests applied between PrimaiteGame.pre_timestep() and advance_timestep() stand for several agents acting in one step "
    "(that is what PrimaiteGame.apply_agent_actions does)",
    "Node.ping() is called directly as the user guide does; everything else goes through the request tree as formed by the "
    "action classes (ftp-client 'send' has no action class and uses its registered request)",
    "the class-level AirSpaceFrequency registry is put back to its import-time data rates before every case (an override "
    "made by one scenario otherwise leaks into the next scenario built in the same process)",
    "an exception raised by an op is not a C18 violation (the property does not speak of it): the case stops there and "
    "the bucket is counted in the distribution as op-raised:*",
    "describe_state is compared with the sum of the frames the far interface accepted (the code's own convention) and only "
    "for links that stayed up for the whole tick",
]

MBIT = 8.0 / (1024.0 * 1024.0)
UNITS = ["arp_a", "arp_x", "icmp_a", "icmp_x"]
FILE_SIZES = [800, 20_000, 400_000, 6_000_000]
DEFAULT_CAP = {"WIFI_2_4": 100_000_000.0, "WIFI_5": 500_000_000.0}
FREQ_HZ = {"WIFI_2_4": 2_400_000_000, "WIFI_5": 5_000_000_000}

Z = {"start_up_duration": 0, "shut_down_duration": 0}


# ---------------------------------------------------------------------------------------------------------------------
# scenarios


def _host(i: int, ip: str, gw: Optional[str], roles: Dict[str, Any], case: Dict, server_ip: str, kind="computer") -> Dict:
    dur = case.get("durations", [0, 0])
    kw: Dict[str, Any] = {"start_up_duration": dur[0], "shut_down_duration": dur[1]}
    apps, svcs = [], [{"type": "ftp-client"}]
    if roles.get("db_client"):
        apps.append({"type": "database-client", "options": {"db_server_ip": server_ip}})
    if roles.get("dos"):
        apps.append({"type": "dos-bot", "options": {
            "target_ip_address": server_ip, "payload": "SPOOF DATA", "port_scan_p_of_success": 1.0,
            "dos_intensity": 1.0, "max_sessions": int(case.get("dos_sessions", 5)), "repeat": bool(case.get("dos_repeat", False))}})
    if roles.get("server"):
        svcs += [{"type": "database-service"}, {"type": "ftp-server"}]
    if roles.get("ftp_server"):
        svcs.append({"type": "ftp-server"})
    if apps:
        kw["applications"] = apps
    kw["services"] = svcs
    sizes = case.get("file_sizes", [0, 1])
    kw["folders"] = [{"folder_name": "out", "files": [
        {"file_name": f"f{j}.txt", "size": FILE_SIZES[s % len(FILE_SIZES)], "type": "TXT"} for j, s in enumerate(sizes)]}]
    return computer(f"h{i}", ip, gw=gw, kind=kind, **kw)


def topology(case: Dict) -> Tuple[Dict, List[Tuple[str, int, str, int]], List[str], Dict[str, str]]:
    """Scenario dict (all links at default bandwidth), the link list, host names, host -> ip."""
    topo = case["topo"]
    nodes: List[Dict] = []
    links: List[Tuple[str, int, str, int]] = []
    ips: Dict[str, str] = {}
    net_extra = None
    if topo == "lan":
        n = 4 if case.get("n_hosts", 3) >= 4 else 3
        nodes.append(switch("sw0", 8, **Z))
        for i in range(n):
            ips[f"h{i}"] = f"192.168.1.{10 + i}"
        srv = ips[f"h{n - 1}"]
        for i in range(n):
            roles = {"db_client": i == 0, "dos": i == 1, "server": i == n - 1, "ftp_server": i == 2}
            nodes.append(_host(i, ips[f"h{i}"], None, roles, case, srv, kind="server" if i == n - 1 else "computer"))
            links.append(("sw0", i + 1, f"h{i}", 1))
    elif topo == "lan2":
        nodes += [switch("sw0", 8, **Z), switch("sw1", 8, **Z)]
        for i in range(4):
            ips[f"h{i}"] = f"192.168.1.{10 + i}"
        srv = ips["h3"]
        links.append(("sw0", 8, "sw1", 8))
        for i in range(4):
            roles = {"db_client": i == 0, "dos": i == 1, "server": i == 3, "ftp_server": i == 2}
            nodes.append(_host(i, ips[f"h{i}"], None, roles, case, srv, kind="server" if i == 3 else "computer"))
            links.append(("sw0" if i < 2 else "sw1", i % 2 + 1, f"h{i}", 1))
    elif topo == "routed":
        nodes += [switch("sw0", 8, **Z), switch("sw1", 8, **Z)]
        nodes.append({"type": "router", "hostname": "r0", "num_ports": 3, **Z,
                      "ports": {1: {"ip_address": "192.168.1.1", "subnet_mask": "255.255.255.0"},
                                2: {"ip_address": "192.168.2.1", "subnet_mask": "255.255.255.0"}},
                      "acl": {1: {"action": "PERMIT"}}})
        for i in range(4):
            ips[f"h{i}"] = f"192.168.{1 if i < 2 else 2}.{10 + i}"
        srv = ips["h3"]
        links += [("r0", 1, "sw0", 8), ("r0", 2, "sw1", 8)]
        for i in range(4):
            roles = {"db_client": i == 0, "dos": i == 1, "server": i == 3, "ftp_server": i == 2}
            nodes.append(_host(i, ips[f"h{i}"], f"192.168.{1 if i < 2 else 2}.1", roles, case, srv,
                               kind="server" if i == 3 else "computer"))
            links.append(("sw0" if i < 2 else "sw1", i % 2 + 1, f"h{i}", 1))
    elif topo == "wifi":
        freq = case.get("freq", "WIFI_2_4")
        ips = {"h0": "192.168.0.2", "h1": "192.168.2.2"}
        nodes.append(_host(0, ips["h0"], "192.168.0.1", {"db_client": True}, case, ips["h1"]))
        nodes.append(_host(1, ips["h1"], "192.168.2.1", {"server": True}, case, ips["h1"], kind="server"))
        for r, (lan, wap, peer_net, peer_wap) in enumerate([("192.168.0.1", "192.168.1.1", "192.168.2.0", "192.168.1.2"),
                                                            ("192.168.2.1", "192.168.1.2", "192.168.0.0", "192.168.1.1")]):
            nodes.append({"type": "wireless-router", "hostname": f"r{r}", "start_up_duration": 0,
                          "router_interface": {"ip_address": lan, "subnet_mask": "255.255.255.0"},
                          "wireless_access_point": {"ip_address": wap, "subnet_mask": "255.255.255.0", "frequency": freq},
                          "acl": {1: {"action": "PERMIT"}},
                          "routes": [{"address": peer_net, "subnet_mask": "255.255.255.0", "next_hop_ip_address": peer_wap,
                                      "metric": 0}]})
        links += [("h0", 1, "r0", 2), ("h1", 1, "r1", 2)]
        net_extra = {}
    else:
        raise ValueError(topo)
    off = set(case.get("off") or [])
    for nd in nodes:
        if nd["hostname"] in off:
            nd["operating_state"] = "OFF"  # the loader leaves such a node switched off: its interfaces cannot be enabled
    cfg = base_cfg(nodes, [link(*l) for l in links], network_extra=net_extra)
    hosts = sorted(ips)
    return cfg, links, hosts, ips


def net_nodes(topo: str, n_hosts: int = 3) -> List[str]:
    """Every node name of a topology (candidates for being OFF when the links are created)."""
    if topo == "lan":
        return ["sw0"] + [f"h{i}" for i in range(4 if n_hosts >= 4 else 3)]
    if topo == "lan2":
        return ["sw0", "sw1", "h0", "h1", "h2", "h3"]
    if topo == "routed":
        return ["sw0", "sw1", "r0", "h0", "h1", "h2", "h3"]
    return ["h0", "h1", "r1"]


_UNITS_CACHE: Dict[str, Dict[str, float]] = {}


def units_for(case: Dict) -> Dict[str, float]:
    """Sizes in Mbit of a real ARP request and a real ICMP echo request on this topology's first hop, as seen by the
    admission check (`*_a`) and at the crossing (`*_x`).  Measured on a default-bandwidth build; cached per process."""
    key = f"{case['topo']}:{4 if case.get('n_hosts', 3) >= 4 else 3}"
    if key in _UNITS_CACHE:
        return _UNITS_CACHE[key]
    from primaite.simulator.network.protocols.arp import ARPPacket

    probe = {"topo": case["topo"], "n_hosts": case.get("n_hosts", 3), "freq": "WIFI_2_4"}
    cfg, links, hosts, ips = topology(probe)
    _restore_frequencies()
    game = new_game(cfg)
    trace: List[Dict] = []
    m = mon.Monitor(lambda s, msg: None, _accounts(game, links, [None] * len(links), {}), {}, trace=trace)
    mon.activate(m)
    try:
        game.pre_timestep()
        h0 = game.simulation.network.get_node_by_hostname("h0")
        h0.ping(absent_ip(ips, "h0", 1), pings=1)  # forces an ARP broadcast from h0
        h0.ping(ips[hosts[-1]], pings=1)
    finally:
        mon.activate(None)
    u: Dict[str, float] = {}
    for t in trace:
        if t["medium"] != "wired" or t["adm_size"] is None:
            continue
        f = t["frame"]
        if isinstance(f.payload, ARPPacket) and "arp_x" not in u:
            u["arp_a"], u["arp_x"] = t["adm_size"], t["size"]
        if f.icmp is not None and "icmp_x" not in u:
            u["icmp_a"], u["icmp_x"] = t["adm_size"], t["size"]
    if len(u) != 4:
        raise RuntimeError(f"C18 calibration did not see an ARP and an ICMP frame on {key}: {sorted(u)}")
    _UNITS_CACHE[key] = u
    return u


def resolve_bw(spec, units: Dict[str, float]) -> Tuple[Optional[float], float, bool]:
    """bandwidth spec -> (value for the scenario dict or None, value the oracle uses, tight?)."""
    if spec is None or spec == "default":
        return None, 100.0, False
    if spec == "huge":
        return 1_000_000.0, 1_000_000.0, False
    if spec[0] == "k":
        v = units[spec[1]] * int(spec[2])
        return v, v, True
    if spec[0] == "bytes":
        v = int(spec[1]) * MBIT
        return v, v, True
    if spec[0] == "mbit":
        v = float(spec[1])
        return v, v, v < 1.0
    raise ValueError(spec)


def _restore_frequencies():
    from primaite.simulator.network.airspace import AirSpaceFrequency

    for name, bps in DEFAULT_CAP.items():
        AirSpaceFrequency._registry[name].data_rate_bps = bps


def _accounts(game, links, bws, units) -> Dict[int, mon.LinkAcct]:
    by_key = {}
    for l in game.simulation.network.links.values():
        a, b = l.endpoint_a, l.endpoint_b
        by_key[(a._connected_node.config.hostname, a.port_num, b._connected_node.config.hostname, b.port_num)] = l
    out = {}
    for (ha, pa, hb, pb), spec in zip(links, bws):
        l = by_key.get((ha, pa, hb, pb)) or by_key.get((hb, pb, ha, pa))
        if l is None:
            raise RuntimeError(f"C18 harness: link {ha}:{pa}<->{hb}:{pb} of the scenario was not built")
        _, bw, tight = resolve_bw(spec, units)
        a, b = l.endpoint_a, l.endpoint_b
        name = f"{a._connected_node.config.hostname}:eth-{a.port_num}<->{b._connected_node.config.hostname}:eth-{b.port_num}"
        out[id(l)] = mon.LinkAcct(name, bw, tight, l)
    return out


# ---------------------------------------------------------------------------------------------------------------------
# ops


def _am():
    from primaite.game.agent.actions import ActionManager

    return ActionManager()


def absent_ip(ips: Dict[str, str], host: str, j: int) -> str:
    base = ips[host].rsplit(".", 1)[0]
    return f"{base}.{200 + j}"


def form(op: List, hosts: List[str], ips: Dict[str, str]) -> List:
    k = op[0]
    am = _am()
    h = lambda i: hosts[i % len(hosts)]  # noqa: E731
    if k == "scan":
        src = h(op[1])
        targets = []
        for t in op[2]:
            targets.append(ips[h(t)] if t >= 0 else absent_ip(ips, src, -t))
        return am.form_request("node-nmap-ping-scan", {"source_node": src, "target_ip_address": targets, "show": False})
    if k == "ftp":
        src, dst = h(op[1]), h(op[2])
        return ["network", "node", src, "service", "ftp-client", "send",
                {"dest_ip_address": ips[dst], "src_folder_name": "out", "src_file_name": f"f{op[3] % 2}.txt",
                 "dest_folder_name": "in", "dest_file_name": f"from_{src}_{op[3] % 2}.txt"}]
    if k == "db":
        return am.form_request("node-application-execute", {"node_name": "h0", "application_name": "database-client"})
    if k == "dos":
        return am.form_request("node-application-execute", {"node_name": "h1", "application_name": "dos-bot"})
    if k == "nic":
        return am.form_request("host-nic-disable" if op[2] == "disable" else "host-nic-enable",
                               {"node_name": h(op[1]), "nic_num": 1})
    if k == "power":
        return am.form_request("node-shutdown" if op[2] == "shutdown" else "node-startup", {"node_name": h(op[1])})
    if k == "npower":  # same actions aimed at a switch / router by name
        return am.form_request("node-shutdown" if op[2] == "shutdown" else "node-startup", {"node_name": op[1]})
    raise ValueError(op)


def run_case(case: Dict) -> CaseResult:
    res = CaseResult()
    mon.install()
    units = units_for(case)
    cfg, links, hosts, ips = topology(case)
    bws = list(case.get("bw", []))
    bws = (bws + [None] * len(links))[: len(links)]
    tight_any = False
    for ld, spec in zip(cfg["simulation"]["network"]["links"], bws):
        v, _, tight = resolve_bw(spec, units)
        tight_any = tight_any or tight
        if v is not None:
            ld["bandwidth"] = v
    air_caps: Dict[int, float] = {}
    if case["topo"] == "wifi":
        over = {}
        for name in ("WIFI_2_4", "WIFI_5"):
            spec = (case.get("air") or {}).get(name)
            if spec is None or spec == "default":
                air_caps[FREQ_HZ[name]] = DEFAULT_CAP[name] / (1024.0 * 1024.0)
            else:
                v, cap, _ = resolve_bw(spec, units)
                over[name] = cap
                air_caps[FREQ_HZ[name]] = cap
        if over:
            cfg["simulation"]["network"]["airspace"] = {"frequency_max_capacity_mbps": over}
    _restore_frequencies()
    import contextlib
    import io

    api_build = case.get("build") == "api"
    link_dicts = cfg["simulation"]["network"]["links"]
    if api_build:
        cfg["simulation"]["network"]["links"] = []
    with contextlib.redirect_stdout(io.StringIO()):  # set_frequency_max_capacity_mbps prints
        game = new_game(cfg)
    sim = game.simulation
    net = sim.network
    if api_build:
        # API order: cable with Network.connect() while the OFF nodes are still off, power some of them on afterwards
        for ld in link_dicts:
            na = net.get_node_by_hostname(ld["endpoint_a_hostname"])
            nb = net.get_node_by_hostname(ld["endpoint_b_hostname"])
            kw = {"bandwidth": ld["bandwidth"]} if "bandwidth" in ld else {}
            net.connect(endpoint_a=na.network_interface[ld["endpoint_a_port"]],
                        endpoint_b=nb.network_interface[ld["endpoint_b_port"]], **kw)
        for name in case.get("late_on") or []:
            if name in (case.get("off") or []):
                net.get_node_by_hostname(name).power_on()
    m = mon.Monitor(res.violate, _accounts(game, links, bws, units), air_caps,
                    airspace=net.airspace if case["topo"] == "wifi" else None)
    m.never_enabled_links = sum(1 for a in m.links.values() if not (a.link.endpoint_a.enabled and a.link.endpoint_b.enabled))
    mon.activate(m)
    n_ticks = 0
    try:
        def open_tick():
            m.begin_tick()
            game.pre_timestep()
            m.after_pre_timestep()

        def close_tick():
            game.advance_timestep()
            st_ = sim.describe_state()
            m.end_of_step(st_["network"]["links"])

        try:
            open_tick()
            for i, op in enumerate(case["ops"]):
                k = op[0]
                if k == "tick":
                    close_tick()
                    n_ticks += 1
                    open_tick()
                elif k == "ping":
                    src = net.get_node_by_hostname(hosts[op[1] % len(hosts)])
                    dst = ips[hosts[op[2] % len(hosts)]] if op[2] >= 0 else absent_ip(ips, hosts[op[1] % len(hosts)], -op[2])
                    src.ping(dst, pings=int(op[3]))
                elif k == "recable":
                    # run-time cabling change through the Network API: the host's cable is taken out (both ends disabled
                    # first, as an operator would) and a new one of the same bandwidth put in between the same two ports;
                    # every OTHER link must go on starting each tick at zero and within its bandwidth
                    nic = net.get_node_by_hostname(hosts[op[1] % len(hosts)]).network_interface.get(1)
                    old = getattr(nic, "_connected_link", None)
                    if nic is None or old is None or id(old) not in m.links:
                        continue
                    other = old.endpoint_b if old.endpoint_a is nic else old.endpoint_a
                    ea, eb = old.endpoint_a, old.endpoint_b  # remove_link clears them
                    acct = m.links.pop(id(old))
                    nic.disable()
                    other.disable()
                    net.remove_link(old)
                    new = net.connect(ea, eb, bandwidth=old.bandwidth)  # same orientation, same name
                    # the NEW link is left out of the accounting (its first tick mixes frames sent while its ends come up
                    # one after the other; not validated against the monitor's conventions): the op is there for what it
                    # does to every other link
                    nic.enable()
                    other.enable()
                    res.label("has_recable")
                else:
                    sim.apply_request(form(op, hosts, ips))
            close_tick()
            n_ticks += 1
        except Exception as e:  # code under test raised inside an op/tick: not a C18 clause; stop the case, count it
            res.label(f"op-raised:{exc_sig(e)}")
    finally:
        mon.activate(None)

    # distribution / non-triviality
    res.nontrivial = m.nontrivial_ticks > 0 or m.down_attempts > 0
    res.label(f"topo:{case['topo']}")
    if tight_any:
        res.label("has_tight_link")
    if m.refusals:
        res.label("has_capacity_refusal")
    if m.air_refusals:
        res.label("has_wireless_refusal")
    if m.nested_total:
        res.label("has_nested_admission")
    if m.rejected_total:
        res.label("has_receiver_rejected_frame")
    if m.air_tx:
        res.label("has_wireless_tx")
    if m.half_tight_air:
        res.label("has_wireless_half_capacity")
    if m.reset_seen:
        res.label("has_midtick_load_reset")
    if case.get("off"):
        res.label("has_node_off_at_link_creation", f"build:{case.get('build', 'config')}")
        for nm in case["off"]:
            res.label("off:" + ("host" if nm.startswith("h") else "switch" if nm.startswith("sw") else "router"))
    if m.never_enabled_links:
        res.label("has_link_with_never_enabled_end")
    if m.down_attempts:
        res.label("has_frame_offered_to_down_link")
    if res.nontrivial:
        res.label("nontrivial")
    kinds = {o[0] for o in case["ops"]}
    for kk in sorted(kinds):
        res.label(f"op:{kk}")
    if n_ticks >= 2:
        res.label("multi_tick")
    res.label("deliveries<10" if m.deliveries < 10 else "deliveries<100" if m.deliveries < 100 else "deliveries>=100")
    return res


# ---------------------------------------------------------------------------------------------------------------------
# generators


def tight_strategy():
    return st.one_of(
        st.tuples(st.just("k"), st.sampled_from(UNITS), st.integers(1, 4)).map(list),  # a few frames' worth
        st.tuples(st.just("bytes"), st.integers(300, 4000)).map(list),
        st.tuples(st.just("bytes"), st.integers(4000, 60000)).map(list),  # a few dozen frames: DoS bursts, DB chatter
        st.tuples(st.just("mbit"), st.sampled_from([0.1, 0.16, 3.0, 3.1, 6.2, 10.0, 45.9, 50.0])).map(list),  # bulk FTP
    )


def bw_strategy(p_tight: int = 3):
    return st.one_of([st.just("default")] * 3 + [st.just("huge")] + [tight_strategy()] * p_tight)


def air_strategy():
    return st.one_of(
        st.just("default"),
        tight_strategy(),
        tight_strategy(),
        st.sampled_from([["mbit", 0.0], ["mbit", 123.45]]),
    )


def op_strategy(topo: str):
    nh = 2 if topo == "wifi" else 4
    hi = st.integers(0, nh - 1)
    pair = st.tuples(hi, st.integers(1, nh - 1)).map(lambda t: (t[0], (t[0] + t[1]) % nh))  # two different hosts
    tgt = st.one_of(hi, hi, st.integers(-3, -1))
    traffic = [
        st.tuples(st.just("ping"), pair, st.integers(1, 4)).map(lambda t: ("ping", t[1][0], t[1][1], t[2])),
        st.tuples(st.just("ping"), hi, tgt, st.integers(1, 2)),
        st.tuples(st.just("scan"), hi, st.lists(tgt, min_size=1, max_size=5)),
        st.tuples(st.just("ftp"), pair, st.integers(0, 1)).map(lambda t: ("ftp", t[1][0], t[1][1], t[2])),
        st.tuples(st.just("db")),
    ]
    if topo != "wifi":
        traffic.append(st.tuples(st.just("dos")))
    control = [
        st.tuples(st.just("recable"), hi),
        st.tuples(st.just("nic"), hi, st.sampled_from(["disable", "enable", "enable"])),
        st.tuples(st.just("power"), hi, st.sampled_from(["shutdown", "startup", "startup"])),
    ]
    infra = [n for n in net_nodes(topo, 4) if not n.startswith("h")]
    if infra:
        control.append(st.tuples(st.just("npower"), st.sampled_from(infra), st.sampled_from(["shutdown", "startup", "startup"])))
    ops = traffic * 3 + control + [st.just(("tick",))] * 5
    return st.one_of(*ops).map(lambda t: [list(x) if isinstance(x, (list, tuple)) else x for x in t])


@st.composite
def case_strategy(draw, max_ops: int = 14, topos=("lan", "lan", "lan2", "routed", "wifi")):
    topo = draw(st.sampled_from(list(topos)))
    case: Dict[str, Any] = {"topo": topo}
    if topo == "lan":
        case["n_hosts"] = draw(st.sampled_from([3, 4]))
    n_links = {"lan": 4, "lan2": 5, "routed": 6, "wifi": 2}[topo]
    case["bw"] = draw(st.lists(bw_strategy(1 if topo == "wifi" else 3), min_size=n_links, max_size=n_links))
    if topo == "wifi":
        case["freq"] = draw(st.sampled_from(["WIFI_2_4", "WIFI_2_4", "WIFI_5"]))
        case["air"] = {"WIFI_2_4": draw(air_strategy()), "WIFI_5": draw(air_strategy())}
    case["file_sizes"] = draw(st.lists(st.integers(0, 3), min_size=2, max_size=2))
    case["dos_sessions"] = draw(st.sampled_from([2, 5, 20]))
    case["dos_repeat"] = draw(st.booleans())
    case["durations"] = draw(st.sampled_from([[0, 0], [0, 0], [2, 2], [0, 2]]))
    if draw(st.sampled_from([False] * 7 + [True] * 3)):  # ~30 %: some nodes are OFF when their links are created
        cand = net_nodes(topo, case.get("n_hosts", 3))
        cand = cand + [n for n in cand if n.startswith("h")]  # hosts twice as likely as switches / routers
        case["off"] = sorted(set(draw(st.lists(st.sampled_from(cand), min_size=1, max_size=2))))
        case["build"] = draw(st.sampled_from(["config", "api"]))
        if case["build"] == "api":
            case["late_on"] = [n for n in case["off"] if draw(st.booleans())]
    case["ops"] = draw(st.lists(op_strategy(topo), min_size=1, max_size=max_ops))
    return case


def off_family():
    """Every single node of the wired topologies OFF at link creation x both builds, traffic aimed at and past it."""
    for topo in ("lan", "lan2", "routed"):
        for name in net_nodes(topo, 4):
            for build in ("config", "api"):
                for late in ([], [name]) if build == "api" else ([],):
                    ops = [["ping", 0, 1, 1], ["ping", 1, 2, 1], ["ping", 2, 3, 1], ["ping", 3, 0, 1],
                           ["scan", 0, [1, 2, 3, -1]], ["tick"], ["ping", 1, 0, 2], ["scan", 3, [0, 1, 2]], ["tick"],
                           ["npower" if not name.startswith("h") else "power",
                            name if not name.startswith("h") else int(name[1:]), "startup"],
                           ["tick"], ["ping", 0, 3, 1], ["ping", 2, 1, 1]]
                    yield {"topo": topo, "n_hosts": 4, "bw": [], "off": [name], "build": build, "late_on": late,
                           "durations": [0, 0], "ops": ops}


def worker(ctx: Ctx):
    mon.install()
    enum_run(ctx, off_family(), run_case)
    ctx.extra["exhaustive"] = True
    ctx.extra["exhaustive_domain"] = ("every single node of lan(4)/lan2/routed OFF at link creation x build config|api "
                                      "(api: left off | powered on after cabling) with a fixed ping/scan/startup script")
    n = 200 if ctx.tier == "quick" else 3000
    hyp_run(ctx, case_strategy(14 if ctx.tier == "quick" else 24), run_case, n)
